"""C15 - decay_time returns the time at which total activity reaches the target."""
from __future__ import annotations

import ast

import sympy as sp

from ptstat import AnalysisError, algebra
from ptstat.symval import SymObj, Phi, SymRaise, Builtin, Closure, _MISSING as _MISSING_
from ptstat.world import World
from .common import world, eq, fsite, raises, _s

EXPLANATION = (
    "Sample.decay_time is interpreted from the current source with symbolic activities, half-lives, "
    "rest times (in a stated order) and target; its two closures f and df are captured at the call "
    "of the root finder and analysed as value graphs: f(t) must be the summed activity at absolute "
    "time t minus the target for any rest-time list (reference activities and reference time taken "
    "from the same index), df must be its derivative (symbolic differentiation), the early exit "
    "must be exactly 'activity at removal <= target', and the only non-raising exit after the root "
    "finder must be guarded by the 0.1 % acceptance test.  find_root is interpreted with an "
    "uninterpreted f/df and a bounded number of iterations to show that it returns (x, f(x)) for the "
    "same x on every exit.  Not decided: convergence of Newton's iteration from the heuristic start.")

TECHNIQUE = "static analysis: value graphs of closures captured by abstract interpretation, symbolic differentiation, path-condition extraction"


ACT = [sp.Function("Act1", positive=True), sp.Function("Act2", positive=True)]
_P = lambda n: sp.Symbol(n, positive=True)
THALF = [sp.Rational(21, 2), sp.Rational(61, 2)]      # two products (hours), the second longer lived


WEIGHTS = []       # one opaque positive weight per call of the activity oracle since the list was last cleared


def setup(ctx, rest_times, facts, activate=True, TH=None, entries=1, zero=()):
    """A Sample whose state is whatever Sample.calculate_activation records, with activation.activity replaced by
    an oracle that returns, for each of two products, the opaque activity Act_k(T) at every time T it is asked for."""
    P = lambda n: sp.Symbol(n, positive=True)
    recs = []
    sig = [a.arg for a in ctx.src.func("activation.activity").node.args.args]
    if "rest_times" not in sig:
        raise AnalysisError("activation.activity has no rest_times parameter")

    def oracle(I_, args, kw):
        bound = dict(zip(sig, args)); bound.update(kw)
        from ptstat.symlib import iterate
        times = iterate(I_, bound["rest_times"])
        g = sp.Symbol(f"g{len(WEIGHTS) + 1}", positive=True)
        WEIGHTS.append(g)
        return {r: [(g * A(sp.sympify(T)) if k_ not in zero else sp.Integer(0)) for T in times]
                for k_, (r, A) in enumerate(zip(recs, ACT))} if activate else {}
    w = world(ctx, stubs={"activation.activity": oracle})
    I = w.I
    I.havoc_loops = True          # an iteration to convergence inside decay_time is not followed: its results are unknowns
    I.positive = list(facts)
    # two table rows that produce the same daughter with their own tabulated half-lives (as Sm-151 or Tm-171 in the real
    # table).  The records are made by the package's own loader from a two-row table, so that anything the loader keeps
    # beside the records (per-nuclide tables ...) is consistent with them.
    recs.extend(_records_from_loader(ctx, w, TH or THALF))
    S = I.get_class("activation.Sample")
    atoms_ = {w.atoms["isotope"]: sp.Integer(1)}
    if entries == 2:       # two formula entries (two isotopes) feeding the same products
        atoms_[w.isotope("Fe", 54)] = sp.Integer(2)
        w.give_iso_mass(w.isotope("Fe", 54), "Fe54")
    comp = I.call(I.global_name("formulas", "formula"), [atoms_], {})
    smp = I.instantiate(S, [comp, P("M")], {}, name="sample", open_attrs=())
    del WEIGHTS[:]
    I.call(I.getattr(smp, "calculate_activation"), [I.new_obj("env")], {"exposure": P("t_exp"), "rest_times": list(rest_times)})
    captured = {}
    tr, ftr = sp.Symbol("t_root", real=True), sp.Symbol("f_root", real=True)

    def fake_root(I_, args, kw):
        # bind like find_root's own signature (x, f, df, ...), positional or keyword
        sig = [a.arg for a in I_.src.func("activation.find_root").node.args.args]
        bound = dict(zip(sig, args))
        bound.update(kw)
        if len(sig) < 3 or any(n not in bound for n in sig[:3]):
            raise AnalysisError("find_root is not called with a start value, a function and its derivative")
        captured["initial"], captured["f"], captured["df"] = (bound[n] for n in sig[:3])
        return (tr, ftr)
    I.stubs["activation.find_root"] = fake_root
    return w, smp, captured, tr, ftr


def _records_from_loader(ctx, w, TH):
    from .common import folder
    from .C14 import PROBE
    from ptstat.symval import TextFile
    I = w.I
    from .common import table_data
    names = table_data(ctx, "activation", "COLUMN_NAMES")
    col = {nm: i for i, nm in enumerate(names)}
    rows = []
    for k, th in enumerate(TH, 1):
        cells = [PROBE.get(i, f"c{i}") for i in range(len(names))]
        cells[0] = '"Fe"'
        cells[col["Z"]] = "26"
        cells[col["symbol"]] = '"Fe"'
        cells[col["A"]] = "56"
        cells[col["isotope"]] = '"Fe-56"'
        cells[col["daughter"]] = '"X-60m"'
        cells[col["reaction"]] = '"act"'
        cells[col["fast"]] = "n"
        cells[col["Thalf_hrs"]] = str(sp.nsimplify(th).evalf(12)) if not sp.sympify(th).free_symbols else None
        if cells[col["Thalf_hrs"]] is None:
            raise AnalysisError("half-lives of the probe rows must be numbers")
        cells[-1] = '"note"\n'
        rows.append("\t".join(cells))
    iso = w.atoms["isotope"]
    I.builtins["open"] = Builtin("open", lambda *a, **k: TextFile(["\t\t\n"] + rows, "activation.dat"))
    I.stubs["core.get_data_path"] = lambda I_, a, k: "/data"
    try:
        I.call(I.global_name("activation", "init"), [w.table], {})
    except SymRaise as exc:
        raise AnalysisError(f"activation.init on a two-row table raises {exc}")
    got = I.heap[iso.id].get("neutron_activation")
    if not isinstance(got, list) or len(got) != len(TH):
        raise AnalysisError(f"activation.init attached {got!r} to Fe[56] for a table of {len(TH)} rows")
    for r_, th in zip(got, TH):
        I.heap[r_.id]["Thalf_hrs"] = sp.nsimplify(th)        # (the exact rational rather than the parsed decimal)
    return got


def _exps(e):
    return [x for x in sp.preorder_traversal(sp.sympify(e)) if isinstance(x, sp.exp)]


def run(ctx):
    P = lambda n: sp.Symbol(n, positive=True)
    target = P("target")
    T1, T2 = P("T1"), P("T2")
    site = fsite(ctx, "activation.Sample.decay_time")
    ln2 = sp.log(2)
    t = sp.Symbol("t", real=True)
    A0 = [P("A0_1"), P("A0_2")]
    # the activities the oracle hands out are those of the decay law: Act_k(T) = A0_k exp(-lam_k T)
    cons = lambda e: sp.sympify(e).replace(ACT[0], lambda x: A0[0] * sp.exp(-L[0] * x)).replace(ACT[1], lambda x: A0[1] * sp.exp(-L[1] * x))
    total = lambda tt: sum(WEIGHTS) * sum(a * sp.exp(-l * tt) for a, l in zip(A0, L))

    for label, rts, facts, TH, entries in (("rest times [T1, T2] with T1 < T2", [T1, T2], [T2 - T1], THALF, 1),
                                           ("rest times [T1, T2] with T2 < T1", [T1, T2], [T1 - T2], THALF, 1),
                                           ("rest times [0, T2]", [sp.Integer(0), T2], [T2], THALF, 1),
                                           ("rest times [T1, 0]", [T1, sp.Integer(0)], [T1], THALF, 1),
                                           ("a single rest time", [T1], [], THALF, 1),
                                           ("two products with the same half-life", [sp.Integer(0), T2], [T2], [THALF[0], THALF[0]], 1),
                                           ("two formula entries feeding the same products", [T1, T2], [T2 - T1], THALF, 2)):
        L = [ln2 / th for th in TH]
        w, smp, cap, tr, ftr = setup(ctx, rts, facts, TH=TH, entries=entries)
        I = w.I
        n0 = len(I.raises)
        try:
            res = I.call(I.getattr(smp, "decay_time"), [target], {})
        except AnalysisError as exc:
            if "comprehension filter with symbolic condition" in str(exc) and "decay_time" in str(exc):
                ctx.fail("R4", f"f(t) = sum_k A_k(0) exp(-lam_k t) - target, independent of the rest-time list ({label})",
                         "decay_time selects the products it sums by a condition on their size (other than 'positive'): a weak long-lived "
                         "product decides when a low target is reached, so the summed activity is no longer that of all products", site)
                continue
            raise
        if "f" not in cap:
            ctx.fail("R1", f"decay_time reaches the root finder ({label})", f"returned {_s(res)} without solving", site)
            continue
        fv = I.call(cap["f"], [t], {})
        # R4: with the activities of the decay law, f is the activity at absolute time t minus the target,
        # whatever rest times were requested and in whatever order
        eq(ctx, "R4", f"f(t) = sum_k A_k(0) exp(-lam_k t) - target, independent of the rest-time list ({label})",
           cons(fv), total(t) - target, site)
        # R2: df is the derivative of f
        dfv = I.call(cap["df"], [t], {})
        eq(ctx, "R2", f"df(t) = d f/dt ({label})", cons(dfv), sp.diff(cons(fv), t), site)
        # R1: early exit: 0 exactly when the activity at removal (t = 0) is at or below the target
        exits0 = []
        def walk(v, conds):
            if isinstance(v, Phi):
                walk(v.a, conds + [v.cond]); walk(v.b, conds + [sp.Not(v.cond)])
            elif isinstance(v, sp.Piecewise):
                neg = []
                for ex, c in v.args:
                    walk(ex, conds + neg + ([c] if c is not sp.true else []))
                    neg = neg + [sp.Not(c)]
            else:
                exits0.append((v, conds))
        walk(res, [])
        zero = [cs for v, cs in exits0 if v == 0]
        rest = [(v, cs) for v, cs in exits0 if v != 0]
        ok = len(zero) == 1 and len(zero[0]) == 1 and isinstance(zero[0][0], (sp.Le, sp.Lt, sp.Ge, sp.Gt))
        lhs = None
        if ok:
            c = zero[0][0]
            lhs = c.lhs - c.rhs if isinstance(c, (sp.Le, sp.Lt)) else c.rhs - c.lhs
            okz, how, wit = algebra.is_zero(cons(lhs) - (total(0) - target), ctx.seed)
            ctx.check(okz, "R1", f"returns 0 exactly when the activity at removal is at or below the target ({label})",
                      f"the early exit tests {c}, i.e. {_s(cons(lhs))} <= 0, which is not 'activity at t=0 minus target <= 0'",
                      site, witness=wit, sample=str(c))
        else:
            ctx.fail("R1", f"returns 0 exactly when the activity at removal is at or below the target ({label})",
                     f"early-exit structure not recognised: exits {_s(exits0, 300)}", site)
        # R5: the activity at removal is a recorded value, not an extrapolation backwards from a later rest time:
        # a growth factor exp(+lam*T) applied to a stored activity overflows once lam*T > 709 (and the stored
        # activity has underflowed to 0.0 by then), so the answer would depend on the rest times requested
        if lhs is not None:
            grow = [x for x in _exps(lhs) if x.args[0].is_positive or (x.args[0].is_nonnegative and not x.args[0].is_zero)]
            ctx.check(not grow, "R5", f"the early-exit test uses the activity recorded at removal, with no growth factor exp(+lam*T_rest) ({label})",
                      f"the test {_s(lhs)} <= 0 multiplies stored activities by {_s(grow)}: OverflowError for lam*T > 709 "
                      f"(e.g. a 2-minute product and 24 h rest) and a different answer once the stored activity has underflowed",
                      site, sample=str(lhs))
        # R3: the only other normal exit returns the root and is guarded by the acceptance test
        new_raises = I.raises[n0:]
        rt = [(c, e) for c, e, where in new_raises if e == "RuntimeError"]
        ctx.check(len(rest) == 1 and rest[0][0] == tr, "R3", f"the returned time is the root finder's x ({label})",
                  f"returns {_s(rest)}", site)
        good = False
        for c, e in rt:
            for lit in (c.args if isinstance(c, sp.And) else [c]):
                if isinstance(lit, (sp.Gt, sp.Ge)):
                    d = lit.lhs - lit.rhs
                    r = sp.simplify(d - (100 * sp.Abs(ftr) / target - sp.Rational(1, 10)))
                    if r == 0:
                        good = True
        ctx.check(good, "R3", f"a residual above 0.1 % of the target raises RuntimeError instead of returning ({label})",
                  f"no RuntimeError exit guarded by 100*|f(t)|/target > 0.1 (conditional raises seen: {_s(rt, 200)})", site)
        # a copy of the sample (copy.copy / pickle: whichever hooks the class defines) answers like the sample itself
        if label in ("rest times [T1, T2] with T1 < T2", "a single rest time"):
            S_ = smp.cls
            hooks = {h: S_.lookup(h) for h in ("__getstate__", "__setstate__", "__copy__", "__deepcopy__", "__reduce__", "__reduce_ex__")}
            hooks = {h: v for h, v in hooks.items() if v is not None and v is not _MISSING_}
            if hooks:
                twin = None
                if "__copy__" in hooks:
                    twin = I.call(I.getattr(smp, "__copy__"), [], {})
                elif "__getstate__" in hooks or "__setstate__" in hooks:
                    state = I.call(I.getattr(smp, "__getstate__"), [], {}) if "__getstate__" in hooks else dict(I.heap[smp.id])
                    twin = I.new_obj("sample_copy", S_, {}, open_attrs=set())
                    if "__setstate__" in hooks:
                        I.call(I.getattr(twin, "__setstate__"), [state], {})
                    elif isinstance(state, dict):
                        I.heap[twin.id].update(state)
                    else:
                        raise AnalysisError("Sample.__getstate__ without __setstate__ returns something that is not a dict")
                else:
                    raise AnalysisError(f"Sample defines {sorted(hooks)}: copy protocol not modelled")
                cap.clear()
                rr_ = raises(lambda: I.call(I.getattr(twin, "decay_time"), [target], {}))
                if rr_ is not None or "f" not in cap:
                    ctx.fail("R4", f"a copied / unpickled sample answers decay_time like the original ({label})",
                             f"decay_time on the copy {'raises ' + str(rr_) if rr_ else 'does not reach the solver'}", site)
                else:
                    f_twin = I.call(cap["f"], [t], {})
                    eq(ctx, "R4", f"a copied / unpickled sample answers decay_time like the original ({label})",
                       cons(f_twin), total(t) - target, site)
                    grow_ = [x for x in _exps(sp.sympify(f_twin).subs(t, 0)) if x.args[0].is_positive or (x.args[0].is_nonnegative and not x.args[0].is_zero)]
                    ctx.check(not grow_, "R5", f"the copy holds the activity recorded at removal, not one extrapolated backwards with exp(+lam*T_rest) ({label})",
                              f"f of the copy applies {_s(grow_)} to a stored activity: products that have decayed to 0.0 by the first rest time "
                              "are lost and lam*T > 709 overflows", site)
            else:
                ctx.ok("R4", f"Sample defines no copy / pickle hooks: a copy holds the same state ({label})", site=site)
        # a second activation of the same sample replaces what decay_time uses (no stale state)
        if label == "a single rest time":
            T3 = P("T3")
            NEW = [sp.Function("Bct1", positive=True), sp.Function("Bct2", positive=True)]
            old = list(ACT)
            ACT[:] = NEW
            try:
                cap.clear()
                del WEIGHTS[:]
                I.call(I.getattr(smp, "calculate_activation"), [I.new_obj("env2")], {"exposure": P("t_exp2"), "rest_times": [T3]})
                I.call(I.getattr(smp, "decay_time"), [target], {})
                fv2 = I.call(cap["f"], [t], {}) if "f" in cap else None
            finally:
                ACT[:] = old
            stale = fv2 is None or any(sp.sympify(fv2).has(a) for a in old) or sp.sympify(fv2).has(T1)
            ctx.check(not stale, "R4", "decay_time after a second calculate_activation uses the new activities only",
                      f"f after re-activation is {_s(fv2)}", site)
            # ... also when only the abundance function differs (same environment object, same exposure, same rest times)
            from ptstat.symval import Builtin as _B
            envx = I.new_obj("env_shared")
            NEW2 = [sp.Function("Cct1", positive=True), sp.Function("Cct2", positive=True)]
            NEW3 = [sp.Function("Dct1", positive=True), sp.Function("Dct2", positive=True)]
            fv3 = None
            try:
                ACT[:] = NEW2
                del WEIGHTS[:]
                I.call(I.getattr(smp, "calculate_activation"), [envx], {"exposure": P("t_exp3"), "rest_times": [T3]})
                I.call(I.getattr(smp, "decay_time"), [target], {})
                ACT[:] = NEW3
                cap.clear()
                del WEIGHTS[:]
                I.call(I.getattr(smp, "calculate_activation"), [envx],
                       {"exposure": P("t_exp3"), "rest_times": [T3], "abundance": _B("other_abundance", lambda iso_: sp.Symbol("ab_other", positive=True))})
                I.call(I.getattr(smp, "decay_time"), [target], {})
                fv3 = I.call(cap["f"], [t], {}) if "f" in cap else None
            finally:
                ACT[:] = old
            stale3 = fv3 is None or any(sp.sympify(fv3).has(a) for a in NEW2 + old)
            ctx.check(not stale3, "R4", "decay_time after re-activation with another abundance function (same environment and exposure) uses the new activities",
                      "decay_time answers without solving for the new activation" if fv3 is None else f"f after re-activation is {_s(fv3)}", site)
    ctx.floor("R1", 7); ctx.floor("R2", 7); ctx.floor("R3", 14); ctx.floor("R4", 11); ctx.floor("R5", 7)

    # a product whose activity is exactly zero (a route that underflows at low fluence, e.g. Te-130 -> Te-132 by double
    # capture): it needs no time and must not disturb the answer for the others
    w, smp, cap, tr, ftr = setup(ctx, [sp.Integer(0), T2], [T2], zero=(1,))
    I = w.I
    L = [ln2 / th for th in THALF]
    rz = raises(lambda: I.call(I.getattr(smp, "decay_time"), [target], {}))
    ctx.check(rz is None, "R1", "a product with zero activity at removal: decay_time still answers", f"raises {rz}", site,
              witness="Sample('TeI4', 1) at fluence 1e5: the Te-130 -> Te-132 route has activity 0.0")
    if rz is None:
        cap.clear()
        I.call(I.getattr(smp, "decay_time"), [target], {})
        if "f" in cap:
            eq(ctx, "R4", "a product with zero activity at removal contributes nothing to f", cons(I.call(cap["f"], [t], {})),
               sum(WEIGHTS) * A0[0] * sp.exp(-L[0] * t) - target, site)
            init_ = cap.get("initial")
            bad_init = init_ is None or sp.sympify(cons(init_)).has(sp.zoo, sp.nan, sp.oo, -sp.oo)
            ctx.check(not bad_init, "R3", "the start value handed to the root finder is a finite time when a product has zero activity",
                      f"start value {_s(init_, 120)}", site)
    # the reported table is the caller's: converting it in place (uCi -> Bq) after the activation must not change what
    # decay_time solves (for rest-time lists that start with 0 and for lists that do not)
    for rests, facts_ in (([sp.Integer(0), T2], [T2]), ([T1, T2], [T1, T2 - T1])):
        w, smp, cap, tr, ftr = setup(ctx, rests, facts_)
        I = w.I
        rr_ = raises(lambda: I.call(I.getattr(smp, "decay_time"), [target], {}))
        if rr_ is not None or "f" not in cap:
            continue
        before_ = cons(I.call(cap["f"], [t], {}))
        table_ = I.getattr(smp, "activity")
        if isinstance(table_, dict):
            for row_ in table_.values():
                if isinstance(row_, list):
                    row_[:] = [37000 * x_ for x_ in row_]
        cap.clear()
        rr_ = raises(lambda: I.call(I.getattr(smp, "decay_time"), [target], {}))
        after_ = cons(I.call(cap["f"], [t], {})) if rr_ is None and "f" in cap else None
        if after_ is None:
            ctx.fail("R4", f"decay_time after the reported activity table was rescaled in place (rest times {rests})",
                     f"{'raises ' + str(rr_) if rr_ else 'answers without solving'}", site)
        else:
            eq(ctx, "R4", f"decay_time after the reported activity table was rescaled in place (rest times {rests}): the same f", after_, before_, site)
    # no activation: documented 0
    w, smp, cap, tr, ftr = setup(ctx, [T1], [], activate=False)
    r = w.I.call(w.I.getattr(smp, "decay_time"), [target], {})
    ctx.check(r == 0, "R1", "decay_time is 0 when nothing was activated", f"returned {_s(r)}", site)

    # find_root returns (x, f(x)) for the same x
    w = World(ctx.src, loaders=())
    I = w.I
    Ff, Fd = sp.Function("F", real=True), sp.Function("dF", real=True)
    f = Builtin("f", lambda x: Ff(x))
    df = Builtin("df", lambda x: Fd(x))
    x0 = sp.Symbol("x0", real=True)
    s_fr = fsite(ctx, "activation.find_root")
    frargs = [a.arg for a in ctx.src.func("activation.find_root").node.args.args]
    if len(frargs) < 5:
        raise AnalysisError("find_root(x, f, df, max, tol) signature not recognised")
    maxname, tolname = frargs[3], frargs[4]
    for n in (0, 1, 2):
        res = I.call(I.global_name("activation", "find_root"), [x0, f, df], {maxname: sp.Integer(n)})
        x, fx = res if not isinstance(res, Phi) else (None, None)
        if x is None:
            ctx.fail("R3", f"find_root(max={n}) returns a pair", f"returned {_s(res)}", s_fr)
            continue
        # on every arm the second component is F applied to the first
        pairs = []
        ax, afx = algebra._arms(sp.sympify(x)), algebra._arms(sp.sympify(fx))
        # evaluate arm-wise through substitution of the opaque F by a concrete injective function
        g = lambda e: e.replace(Ff, lambda a: a ** 3 + 2 * a + 1).replace(Fd, lambda a: 3 * a ** 2 + 2)
        okk, how, wit = algebra.equal(g(sp.sympify(fx)), g(Ff(sp.sympify(x))) if not sp.sympify(x).has(sp.Piecewise)
                                      else g(sp.piecewise_fold(Ff(sp.sympify(x)))), ctx.seed)
        ctx.check(okk, "R3", f"find_root(max={n}) returns (x, f(x)) for the same x on every exit",
                  f"returned value {_s(fx, 150)} is not f at the returned x {_s(x, 150)} ({how})", s_fr, witness=wit)
    newton = I.call(I.global_name("activation", "find_root"), [x0, f, df], {maxname: sp.Integer(1), tolname: sp.Integer(0)})
    eq(ctx, "R3", "one Newton step is x - f(x)/f'(x)", newton[0], x0 - Ff(x0) / Fd(x0), s_fr)
    ctx.assume("order facts about the symbolic rest times are supplied per case (T1 < T2, T2 < T1)")
