"""C15 - decay_time returns the time at which total activity reaches the target."""
from __future__ import annotations

import ast

import sympy as sp

from ptstat import AnalysisError, algebra
from ptstat.symval import SymObj, Phi, SymRaise, Builtin, Closure
from ptstat.world import World
from .common import eq, fsite, raises, _s

EXPLANATION = (
    "Sample.decay_time is interpreted from the current source with symbolic activities, half-lives, "
    "rest times (in a stated order) and target; its two closures f and df are captured at the call "
    "of the root finder and analysed as value graphs: f(t) must be the summed activity at absolute "
    "time t minus the target for any rest-time list (reference activities and reference time taken "
    "from the same index), df must be its derivative (symbolic differentiation), the early exit "
    "must be exactly 'activity at removal <= target', and the only non-raising exit after the root "
    "finder must be guarded by the 0.1 % acceptance test.  find_root is interpreted with an "
    "uninterpreted f/df and a bounded number of iterations to show that it returns (x, f(x)) for the "
    "same x on every exit.  Not decided: convergence of Newton's iteration from the heuristic start.")

TECHNIQUE = "static analysis: value graphs of closures captured by abstract interpretation, symbolic differentiation, path-condition extraction"


def setup(ctx, rest_times, facts):
    w = World(ctx.src, loaders=())
    I = w.I
    I.positive = list(facts)
    S = I.get_class("activation.Sample")
    smp = I.new_obj("sample", S, open_attrs=set())
    P = lambda n: sp.Symbol(n, positive=True)
    recs, act = [], {}
    for k in (1, 2):
        r = I.new_obj(f"rec{k}", None, {"Thalf_hrs": P(f"Th{k}")}, open_attrs=set())
        recs.append(r)
        act[r] = [P(f"I{k}_{j}") for j in range(len(rest_times))]
    w.set(smp, rest_times=list(rest_times), activity=act)
    captured = {}
    tr, ftr = sp.Symbol("t_root", real=True), sp.Symbol("f_root", real=True)

    def fake_root(I_, args, kw):
        # bind like find_root's own signature (x, f, df, ...), positional or keyword
        sig = [a.arg for a in I_.src.func("activation.find_root").node.args.args]
        bound = dict(zip(sig, args))
        bound.update(kw)
        if len(sig) < 3 or any(n not in bound for n in sig[:3]):
            raise AnalysisError("find_root is not called with a start value, a function and its derivative")
        captured["initial"], captured["f"], captured["df"] = (bound[n] for n in sig[:3])
        return (tr, ftr)
    I.stubs["activation.find_root"] = fake_root
    return w, smp, captured, tr, ftr


def run(ctx):
    P = lambda n: sp.Symbol(n, positive=True)
    target = P("target")
    T1, T2 = P("T1"), P("T2")
    site = fsite(ctx, "activation.Sample.decay_time")
    ln2 = sp.log(2)
    t = sp.Symbol("t", real=True)
    L = [ln2 / P("Th1"), ln2 / P("Th2")]

    for label, rts, facts, kmin in (("rest times [T1, T2] with T1 < T2", [T1, T2], [T2 - T1], 0),
                                    ("rest times [T1, T2] with T2 < T1", [T1, T2], [T1 - T2], 1),
                                    ("a single rest time", [T1], [], 0)):
        w, smp, cap, tr, ftr = setup(ctx, rts, facts)
        I = w.I
        n0 = len(I.raises)
        res = I.call(I.getattr(smp, "decay_time"), [target], {})
        if "f" not in cap:
            ctx.fail("R1", f"decay_time reaches the root finder ({label})", f"returned {_s(res)} without solving", site)
            continue
        To = rts[kmin]
        Ia = [P(f"I{k}_{kmin}") for k in (1, 2)]
        total = lambda tt: sum(a * sp.exp(-l * (tt - To)) for a, l in zip(Ia, L))
        fv = I.call(cap["f"], [t], {})
        # R4: f is the activity at absolute time t (from the smallest rest time and its own activities) minus target
        eq(ctx, "R4", f"f(t) = sum_k I_k(T_min) exp(-lam_k (t - T_min)) - target ({label})", fv, total(t) - target, site)
        # R2: df is the derivative of f
        dfv = I.call(cap["df"], [t], {})
        eq(ctx, "R2", f"df(t) = d f/dt ({label})", dfv, sp.diff(sp.sympify(fv), t), site)
        # R1: early exit: 0 exactly when the activity at removal (t = 0) is at or below the target
        arms = res if isinstance(res, Phi) else None
        exits0 = []
        def walk(v, conds):
            if isinstance(v, Phi):
                walk(v.a, conds + [v.cond]); walk(v.b, conds + [sp.Not(v.cond)])
            elif isinstance(v, sp.Piecewise):
                neg = []
                for ex, c in v.args:
                    walk(ex, conds + neg + ([c] if c is not sp.true else []))
                    neg = neg + [sp.Not(c)]
            else:
                exits0.append((v, conds))
        walk(res, [])
        zero = [cs for v, cs in exits0 if v == 0]
        rest = [(v, cs) for v, cs in exits0 if v != 0]
        ok = len(zero) == 1 and len(zero[0]) == 1 and isinstance(zero[0][0], (sp.Le, sp.Lt, sp.Ge, sp.Gt))
        if ok:
            c = zero[0][0]
            lhs = c.lhs - c.rhs if isinstance(c, (sp.Le, sp.Lt)) else c.rhs - c.lhs
            okz, how, wit = algebra.is_zero(lhs - (total(0) - target), ctx.seed)
            ctx.check(okz, "R1", f"returns 0 exactly when the activity at removal is at or below the target ({label})",
                      f"the early exit tests {c}, i.e. {_s(lhs)} <= 0, which is not 'activity at t=0 minus target <= 0'",
                      site, witness=wit, sample=str(c))
        else:
            ctx.fail("R1", f"returns 0 exactly when the activity at removal is at or below the target ({label})",
                     f"early-exit structure not recognised: exits {_s(exits0, 300)}", site)
        # R3: the only other normal exit returns the root and is guarded by the acceptance test
        new_raises = I.raises[n0:]
        rt = [(c, e) for c, e, where in new_raises if e == "RuntimeError"]
        ctx.check(len(rest) == 1 and rest[0][0] == tr, "R3", f"the returned time is the root finder's x ({label})",
                  f"returns {_s(rest)}", site)
        good = False
        for c, e in rt:
            for lit in (c.args if isinstance(c, sp.And) else [c]):
                if isinstance(lit, (sp.Gt, sp.Ge)):
                    d = lit.lhs - lit.rhs
                    r = sp.simplify(d - (100 * sp.Abs(ftr) / target - sp.Rational(1, 10)))
                    if r == 0:
                        good = True
        ctx.check(good, "R3", f"a residual above 0.1 % of the target raises RuntimeError instead of returning ({label})",
                  f"no RuntimeError exit guarded by 100*|f(t)|/target > 0.1 (conditional raises seen: {_s(rt, 200)})", site)
        # the answer does not depend on the rest-time list: with consistent activities f is the same function
        A0 = [P("A0_1"), P("A0_2")]
        cons = {P(f"I{k}_{j}"): A0[k - 1] * sp.exp(-L[k - 1] * rts[j]) for k in (1, 2) for j in range(len(rts))}
        eq(ctx, "R4", f"with consistent activities f(t) does not depend on the rest-time list ({label})",
           sp.sympify(fv).xreplace(cons), sum(a * sp.exp(-l * t) for a, l in zip(A0, L)) - target, site)
    ctx.floor("R1", 3); ctx.floor("R2", 3); ctx.floor("R3", 6); ctx.floor("R4", 6)

    # no activation: documented 0
    w, smp, cap, tr, ftr = setup(ctx, [T1], [])
    w.set(smp, activity={})
    r = w.I.call(w.I.getattr(smp, "decay_time"), [target], {})
    ctx.check(r == 0, "R1", "decay_time is 0 when nothing was activated", f"returned {_s(r)}", site)

    # find_root returns (x, f(x)) for the same x
    w = World(ctx.src, loaders=())
    I = w.I
    Ff, Fd = sp.Function("F", real=True), sp.Function("dF", real=True)
    f = Builtin("f", lambda x: Ff(x))
    df = Builtin("df", lambda x: Fd(x))
    x0 = sp.Symbol("x0", real=True)
    s_fr = fsite(ctx, "activation.find_root")
    frargs = [a.arg for a in ctx.src.func("activation.find_root").node.args.args]
    if len(frargs) < 5:
        raise AnalysisError("find_root(x, f, df, max, tol) signature not recognised")
    maxname, tolname = frargs[3], frargs[4]
    for n in (0, 1, 2):
        res = I.call(I.global_name("activation", "find_root"), [x0, f, df], {maxname: sp.Integer(n)})
        x, fx = res if not isinstance(res, Phi) else (None, None)
        if x is None:
            ctx.fail("R3", f"find_root(max={n}) returns a pair", f"returned {_s(res)}", s_fr)
            continue
        # on every arm the second component is F applied to the first
        pairs = []
        ax, afx = algebra._arms(sp.sympify(x)), algebra._arms(sp.sympify(fx))
        # evaluate arm-wise through substitution of the opaque F by a concrete injective function
        g = lambda e: e.replace(Ff, lambda a: a ** 3 + 2 * a + 1).replace(Fd, lambda a: 3 * a ** 2 + 2)
        okk, how, wit = algebra.equal(g(sp.sympify(fx)), g(Ff(sp.sympify(x))) if not sp.sympify(x).has(sp.Piecewise)
                                      else g(sp.piecewise_fold(Ff(sp.sympify(x)))), ctx.seed)
        ctx.check(okk, "R3", f"find_root(max={n}) returns (x, f(x)) for the same x on every exit",
                  f"returned value {_s(fx, 150)} is not f at the returned x {_s(x, 150)} ({how})", s_fr, witness=wit)
    newton = I.call(I.global_name("activation", "find_root"), [x0, f, df], {maxname: sp.Integer(1), tolname: sp.Integer(0)})
    eq(ctx, "R3", "one Newton step is x - f(x)/f'(x)", newton[0], x0 - Ff(x0) / Fd(x0), s_fr)
    ctx.assume("order facts about the symbolic rest times are supplied per case (T1 < T2, T2 < T1)")
