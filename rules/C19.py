"""C19 - Hill form is a canonical, composition-preserving normal form."""
from __future__ import annotations

import itertools
import random

import sympy as sp

from ptstat import AnalysisError
from ptstat.symval import SymObj, Phi, SymRaise
from .common import world, eq, dict_eq, fsite, raises, tuple_everywhere, _s

EXPLANATION = (
    "Formula.hill, formula(dict), _convert_to_hill_notation and _hill_key are interpreted from the "
    "current source over a universe of atoms of every kind (elements incl. C and H, isotopes incl. "
    "D and T, ions of several charge states, ions of isotopes) built by the package's own classes. "
    "Decided: the Hill form has the same atom counts and is flat; the sort key is injective on the "
    "universe and totally ordered, hence the sorted order is unique and two formulas with equal "
    "atom counts get identical structures whatever their order or grouping (checked for seeded "
    "permutations and regroupings); the order is C, H, then alphabetical by symbol with isotopes of "
    "one symbol by mass number; the structure is an immutable tuple, so that hill is idempotent and "
    "a formula already in Hill order equals its Hill form under Formula.__eq__.")


def universe(w):
    E = w.element
    atoms = [E("C"), E("H"), E("O"), E("Fe"), E("Ca"), E("Cl"), E("B"), E("He"), E("Hf"), E("Co"),
             w.isotope("C", 13), w.isotope("C", 12), w.isotope("Fe", 54), w.isotope("Fe", 56), w.isotope("H", 1),
             w.get(w.table, "D"), w.get(w.table, "T"), w.isotope("O", 18), w.isotope("U", 235), w.isotope("U", 238),
             w.ion(E("Fe"), 2), w.ion(E("Fe"), 3), w.ion(E("Fe"), -2), w.ion(E("Cl"), -1), w.ion(E("H"), 1), w.ion(E("H"), -1),
             w.ion(E("C"), 4), w.ion(E("C"), -4)]
    atoms += [w.ion(w.isotope("Fe", 56), 2), w.ion(w.isotope("Fe", 56), 3), w.ion(w.isotope("Fe", 54), 2),
              w.ion(w.get(w.table, "D"), 1), w.ion(w.isotope("H", 1), 1), w.ion(w.isotope("C", 13), 4)]
    # mass numbers of different digit counts (ordered by number, not as text), charges of two digits
    atoms += [w.isotope("Mo", 98), w.isotope("Mo", 100), w.isotope("Be", 9), w.isotope("Be", 10)]
    # symbols that come just before symbols listed above in the alphabet, met for the first time after D and T were (an
    # order kept as positions in a list that grows when D or T is first seen makes neighbours tie)
    atoms += [E("F"), E("Cf"), E("Cn"), E("Hg")]
    return atoms


def ident(I, a):
    """(symbol, mass number or 0, charge) as the package itself reports them."""
    iso = I.call(I.global_name("core", "isisotope"), [a], {})
    return (I.getattr(a, "symbol"), int(I.getattr(a, "isotope")) if iso else 0, int(I.getattr(a, "charge")))


def run(ctx):
    w = world(ctx)
    I = w.I
    U = universe(w)
    fm = I.global_name("formulas", "formula")
    s_hill = fsite(ctx, "formulas.Formula.hill")
    struct = lambda f: I.getattr(f, "structure")
    ctx.unit("atoms_in_universe", len(U))

    # ---- R2 pairwise: the order of two distinct atoms never depends on insertion order ----
    s_key = fsite(ctx, "formulas._convert_to_hill_notation", "formulas.Formula.hill")

    def conv(atoms):
        """Hill order of the atoms of a mapping, through the public route (formula(dict).hill)"""
        return struct(I.getattr(I.call(fm, [dict(atoms)], {}), "hill"))
    clashes = []
    npairs = 0
    for a, b in itertools.combinations(U, 2):
        npairs += 1
        try:
            o1 = [p[1] for p in conv({a: sp.Integer(1), b: sp.Integer(1)})]
            o2 = [p[1] for p in conv({b: sp.Integer(1), a: sp.Integer(1)})]
        except SymRaise as exc:
            ctx.fail("R2", "atoms of every kind can be ordered", f"ordering {ident(I, a)} and {ident(I, b)} raises {exc}", s_key)
            return
        if not (len(o1) == 2 and o1[0] is o2[0] and o1[1] is o2[1]):
            clashes.append((ident(I, a), ident(I, b)))
    ctx.check(not clashes, "R2", "the Hill order of two distinct atoms (symbol, isotope, charge) does not depend on insertion order",
              f"{len(clashes)} pairs keep their insertion order, e.g. {clashes[:3]}: the sort key does not separate them, so equal "
              "compositions can have different Hill forms", s_key, sample={"pairs checked": npairs})
    ctx.unit("atom_pairs", npairs)
    # the caller's mapping is the caller's: formula(counts) neither empties nor reorders it, and the same mapping gives the
    # same formula when it is used again
    by_sym = {}
    for a_ in U:
        by_sym.setdefault(str(I.getattr(a_, "symbol")), a_)
    probe_atoms = [by_sym[s_] for s_ in ("C", "H", "O", "Fe") if s_ in by_sym] or list(U)[:3]
    counts = {a_: sp.Symbol(f"n{k_}", positive=True) for k_, a_ in enumerate(probe_atoms)}
    mine = dict(counts)
    first = I.call(fm, [mine], {})
    ctx.check(list(mine.items()) == list(counts.items()), "R1", "formula(counts) leaves the caller's mapping as it was",
              f"the mapping now holds {[(ident(I, k_), v_) for k_, v_ in mine.items()]}", fsite(ctx, "formulas.formula"))
    second = I.call(fm, [mine], {})
    a1, a2 = I.getattr(first, "atoms"), I.getattr(second, "atoms")
    ctx.check(set(a1) == set(counts) == set(a2) and all(a1[k_] == counts[k_] == a2[k_] for k_ in counts), "R1",
              "the same mapping used twice gives the same composition both times", f"{ {ident(I, k_): v_ for k_, v_ in a2.items()} } the second time",
              fsite(ctx, "formulas.formula"))

    # ---- R3 order ---------------------------------------------------------------------
    order = [p[1] for p in conv({a: sp.Integer(1) for a in U})]

    def spec(a):
        sym, iso, ch = ident(I, a)
        return (0 if sym == "C" else 1 if sym == "H" else 2, sym, iso)
    seq = [spec(a) for a in order]
    bad = [(x, y) for x, y in zip(seq, seq[1:]) if x > y]
    ctx.check(not bad and len(order) == len(U), "R3",
              "order is C, then H, then alphabetical by symbol; isotopes of one symbol by mass number",
              f"out of order: {bad[:3]}", s_key, sample=[ident(I, a) for a in order[:12]])

    # the same without carbon: hydrogen still comes first (the property's convention: C first, H second, the rest alphabetically)
    noC = [a for a in U if ident(I, a)[0] != "C"]
    order2 = [p[1] for p in conv({a: sp.Integer(1) for a in noC})]
    seq2 = [spec(a) for a in order2]
    bad2 = [(x, y) for x, y in zip(seq2, seq2[1:]) if x > y]
    ctx.check(not bad2 and len(order2) == len(noC), "R3", "without carbon: H first, then alphabetical by symbol",
              f"out of order: {bad2[:3]}", s_key, sample=[ident(I, a) for a in order2[:8]])

    # ---- R1/R2/R4 on formulas ---------------------------------------------------------------
    rng = random.Random(ctx.seed)
    nperm = 40 if ctx.thorough else 6
    counts = {a: sp.Integer(i + 2) for i, a in enumerate(U)}
    base = I.getattr(I.call(fm, [dict(counts)], {}), "hill")
    ref = struct(base)
    ctx.check(tuple_everywhere(ref) and all(isinstance(p[1], SymObj) for p in ref), "R1",
              "Hill form is a flat, immutable tuple of (count, atom) pairs", f"structure {_s(ref, 200)}", s_hill)
    dict_eq(ctx, "R1", "Hill form keeps the atom counts", I.getattr(base, "atoms"), counts, s_hill)
    for n in range(nperm):
        perm = U[:]
        rng.shuffle(perm)
        # random regrouping: nest a random slice into a group, split one atom's count in two places
        seq = [(counts[a], a) for a in perm]
        i, j = sorted(rng.sample(range(1, len(seq)), 2))
        a0 = perm[0]
        seq2 = [(counts[a0] - 1, a0)] + seq[1:i] + [(sp.Integer(1), seq[i:j] + [(sp.Integer(1), a0)])] + seq[j:]
        f2 = I.call(fm, [seq2], {})
        h2 = I.getattr(f2, "hill")
        same = struct(h2) == ref and all(x[1] is y[1] for x, y in zip(struct(h2), ref))
        ctx.check(same, "R2", f"permutation/regrouping #{n}: same atom counts give the same Hill form",
                  f"Hill forms differ: {_s([ident(I, p[1]) for p in struct(h2)], 200)} vs {_s([ident(I, p[1]) for p in ref], 200)}", s_hill)
        eqv = I.lib.compare(I, __import__("ast").Eq(), h2, base)
        ctx.check(eqv is True, "R2", f"permutation/regrouping #{n}: the Hill forms are equal formulas (Formula.__eq__)",
                  f"== gives {eqv}", fsite(ctx, "formulas.Formula.__eq__"))
    hh = I.getattr(base, "hill")
    ctx.check(struct(hh) == ref and I.lib.compare(I, __import__("ast").Eq(), hh, base) is True, "R4",
              "taking the Hill form twice changes nothing", f"{_s(struct(hh), 200)}", s_hill)
    # a formula already written in Hill order, built the way the parser builds it (tuple of pairs)
    written = I.call(fm, [[(c, a) for c, a in ref]], {})
    ctx.check(I.lib.compare(I, __import__("ast").Eq(), I.getattr(written, "hill"), written) is True, "R4",
              "a formula already in Hill order equals its own Hill form", "hill != formula",
              s_hill)
    e = I.call(fm, [], {})
    ctx.check(I.lib.compare(I, __import__("ast").Eq(), I.getattr(e, "hill"), e) is True, "R4", "the empty formula is its own Hill form",
              "differs", s_hill)
    # hill must be recomputed from the current composition (no stale value after arithmetic)
    unit = I.call(fm, [{U[0]: sp.Integer(1), U[2]: sp.Integer(3)}], {})
    I.getattr(unit, "hill")
    tripled = I.lib.binop(I, __import__("ast").Mult(), sp.Integer(3), unit)
    dict_eq(ctx, "R1", "Hill form of 3*f after f.hill was read has the atoms of 3*f", I.getattr(I.getattr(tripled, "hill"), "atoms"),
            {U[0]: sp.Integer(3), U[2]: sp.Integer(9)}, s_hill)
    grown = I.call(fm, [{U[0]: sp.Integer(1)}], {})
    I.getattr(grown, "hill")
    I.call(I.getattr(grown, "__iadd__"), [unit], {})
    dict_eq(ctx, "R1", "Hill form after += has the atoms of the sum", I.getattr(I.getattr(grown, "hill"), "atoms"),
            {U[0]: sp.Integer(2), U[2]: sp.Integer(3)}, s_hill)
    # a formula that is one counted group at top level is reordered like any other
    grp = I.call(fm, [[(sp.Integer(3), [(sp.Integer(1), U[-1]), (sp.Integer(2), U[0])])]], {})
    flat = I.call(fm, [{U[-1]: sp.Integer(3), U[0]: sp.Integer(6)}], {})
    hg, hf = I.getattr(grp, "hill"), I.getattr(flat, "hill")
    ctx.check(struct(hg) == struct(hf), "R2", "a single counted group (X Y2)3 has the Hill form of X3 Y6",
              f"{_s(struct(hg), 200)} vs {_s(struct(hf), 200)}", s_hill)
    # a flat formula already in Hill order but with an atom written twice in a row is still merged
    Hh = [a for a in U if ident(I, a) == ("H", 0, 0)][0]
    Cc = [a for a in U if ident(I, a) == ("C", 0, 0)][0]
    rep = I.call(fm, [[(sp.Integer(1), Cc), (sp.Integer(3), Hh), (sp.Integer(1), Hh)]], {})
    one = I.call(fm, [{Cc: sp.Integer(1), Hh: sp.Integer(4)}], {})
    ctx.check(struct(I.getattr(rep, "hill")) == struct(I.getattr(one, "hill")), "R2", "C H3 H has the Hill form of C H4 (adjacent repeats are merged)",
              f"{_s(struct(I.getattr(rep, 'hill')), 200)}", s_hill)
    # an atom present with count zero stays in the Hill form (the counts are *exactly* those of the formula)
    zero = I.call(fm, [[(sp.Integer(0), U[0]), (sp.Integer(2), U[1]), (sp.Integer(1), U[-1])]], {})
    dict_eq(ctx, "R1", "Hill form keeps an atom whose count is zero", I.getattr(I.getattr(zero, "hill"), "atoms"),
            {U[0]: sp.Integer(0), U[1]: sp.Integer(2), U[-1]: sp.Integer(1)}, s_hill)
    # counts are carried over exactly, whatever their magnitude or number of digits
    xs = sp.symbols("x1:4", positive=True)
    generic = {U[0]: xs[0], U[1]: xs[1], U[-1]: xs[2]}
    dict_eq(ctx, "R1", "Hill form keeps symbolic (arbitrary real) counts exactly", I.getattr(I.getattr(I.call(fm, [dict(generic)], {}), "hill"), "atoms"),
            generic, s_hill)
    fine = {U[0]: sp.Rational(3, 10 ** 13), U[1]: sp.Rational(30000000000000004, 10 ** 17), U[-1]: sp.Integer(10) ** 15 + sp.Rational(1, 8)}
    got_fine = I.getattr(I.getattr(I.call(fm, [dict(fine)], {}), "hill"), "atoms")
    ctx.check(isinstance(got_fine, dict) and set(got_fine) == set(fine) and all(sp.sympify(got_fine[a]) == fine[a] for a in fine), "R1",
              "Hill form keeps very small, very large and many-digit counts exactly", f"counts {_s(got_fine)} instead of {_s(fine)}", s_hill)
    ctx.floor("R1", 7); ctx.floor("R2", 15); ctx.floor("R3", 2); ctx.floor("R4", 3)
    ctx.unit("functions_inlined", len(set(I.calls)))
