"""C02 - composition arithmetic: atoms, mass, charge, mass fractions are additive."""
from __future__ import annotations

import ast

import sympy as sp

from ptstat.world import mass_sym

from ptstat import AnalysisError
from ptstat.symval import SymObj, Phi, SymRaise, merge
from .common import world, eq, dict_eq, fsite, raises, tuple_everywhere, _s, constants_lint

EXPLANATION = (
    "Value graphs (K4) of Formula.atoms/mass/charge/mass_fraction/molecular_mass, of "
    "__add__/__iadd__/__rmul__ (both branches) and of every initializer kind of formula() are "
    "built from the current source by abstract interpretation over generic compositions whose "
    "atoms are instances of the package's own Element/Isotope/Ion classes (attribute delegation "
    "and the loader-installed mass/density properties derived from core.py, mass.py, density.py), "
    "and compared as algebraic identities with the additive specification, once per atom kind "
    "(element, isotope, D/T alias, ion of element, ion of isotope, ion of D).  Operand "
    "immutability is decided on the abstract heap and by a package-wide sweep of stores to "
    ".structure.  Not decided: bit-exact float equality of sums.")

MUTATORS = {"append", "extend", "insert", "pop", "remove", "sort", "reverse", "clear", "update"}


def run(ctx):
    def parsed(I_, args, kw):
        # the string route is C01's subject; here it only has to yield *a new* Formula
        return I_.instantiate(I_.get_class("formulas.Formula"), [], {}, name="<parsed>")
    w = world(ctx, stubs={"formulas.parse_formula": parsed})
    I, A = w.I, w.atoms
    fm = I.global_name("formulas", "formula")
    q = sp.symbols("q1:7", positive=True)
    n = sp.Symbol("n", positive=True)
    Fe, O, H1, ionI = A["element"], A["element2"], A["H1"], A["ion_isotope"]
    mk = lambda d: I.call(fm, [dict(d)], {})
    atoms = lambda f: I.getattr(f, "atoms")
    def struct(f):
        if isinstance(f, Phi):
            return merge(f.cond, struct(f.a), struct(f.b))
        return I.getattr(f, "structure")

    def alts(v):
        return alts(v.a) + alts(v.b) if isinstance(v, Phi) else [v]
    MUL, ADD = ast.Mult(), ast.Add()
    s_add, s_mul, s_iadd = (fsite(ctx, "formulas.Formula." + m) for m in ("__add__", "__rmul__", "__iadd__"))

    # ---- R1 atoms identities -------------------------------------------------
    f = mk({Fe: q[0], ionI: q[1]})
    g = mk({Fe: q[2], O: q[3]})
    before_f, before_g = struct(f), struct(g)
    h = I.lib.binop(I, ADD, f, g)
    dict_eq(ctx, "R1", "atoms(f+g)=atoms(f)+atoms(g)", atoms(h),
            {Fe: q[0] + q[2], ionI: q[1], O: q[3]}, s_add)
    ctx.check(h is not f and h is not g, "R1", "f+g is a new object", "f+g returned one of its operands", s_add)
    # n*f multi-fragment branch and single-fragment shortcut, n==1, empty
    nf = I.lib.binop(I, MUL, n, f)
    dict_eq(ctx, "R1", "atoms(n*f)=n*atoms(f) [several fragments]", atoms(nf),
            {Fe: n * q[0], ionI: n * q[1]}, s_mul)
    f1 = mk({Fe: q[4]})
    nf1 = I.lib.binop(I, MUL, n, f1)
    dict_eq(ctx, "R1", "atoms(n*f)=n*atoms(f) [single fragment]", atoms(nf1), {Fe: n * q[4]}, s_mul)
    one = I.lib.binop(I, MUL, sp.Integer(1), f)
    dict_eq(ctx, "R1", "atoms(1*f)=atoms(f)", atoms(one), {Fe: q[0], ionI: q[1]}, s_mul)
    empty = I.call(fm, [], {})
    ne = I.lib.binop(I, MUL, n, empty)
    dict_eq(ctx, "R1", "atoms(n*empty)={}", atoms(ne), {}, s_mul)
    # nested multiplication and sum: atoms(n*(f+g))
    nh = I.lib.binop(I, MUL, n, h)
    dict_eq(ctx, "R1", "atoms(n*(f+g))", atoms(nh),
            {Fe: n * (q[0] + q[2]), ionI: n * q[1], O: n * q[3]}, s_mul)
    # one species spread over several fragments (Fe_a + Fe_b, built by +, by += and as a sequence), then scaled
    fa, fb = mk({Fe: q[0]}), mk({Fe: q[2]})
    rep = I.lib.binop(I, ADD, fa, fb)
    dict_eq(ctx, "R1", "atoms(n*(Fe_a + Fe_b)) = n*(a+b) [one species in two fragments]", atoms(I.lib.binop(I, MUL, n, rep)),
            {Fe: n * (q[0] + q[2])}, s_mul)
    seq = I.call(fm, [[(q[0], Fe), (q[2], Fe), (q[4], Fe)]], {})
    dict_eq(ctx, "R1", "atoms(n*formula([(a,Fe),(b,Fe),(c,Fe)])) = n*(a+b+c)", atoms(I.lib.binop(I, MUL, n, seq)),
            {Fe: n * (q[0] + q[2] + q[4])}, s_mul)
    acc = mk({Fe: q[0]})
    I.call(I.getattr(acc, "__iadd__"), [mk({Fe: q[2]})], {})
    dict_eq(ctx, "R1", "atoms(n*(f += same species)) = n*(a+b)", atoms(I.lib.binop(I, MUL, n, acc)), {Fe: n * (q[0] + q[2])}, s_mul)
    nested = I.call(fm, [[(q[0], [(q[1], [(q[2], Fe), (q[3], O)]), (q[4], Fe)])]], {})
    dict_eq(ctx, "R1", "three levels of nesting: every enclosing count multiplies", atoms(I.lib.binop(I, MUL, n, nested)),
            {Fe: n * q[0] * (q[1] * q[2] + q[4]), O: n * q[0] * q[1] * q[3]}, s_mul)
    # two ions that differ only in the isotope are two species (as keys of atoms, in sums and in n*f)
    Fe54 = w.isotope("Fe", 54)
    ion54 = I.lib.subscript(I, I.getattr(Fe54, "ion"), I.getattr(ionI, "charge"))
    both = I.lib.binop(I, ADD, mk({ionI: q[0]}), mk({ion54: q[1]}))
    got_both = atoms(both)
    ctx.check(isinstance(got_both, dict) and len(got_both) == 2, "R1", "ions of two isotopes of one element with the same charge stay two species",
              f"atoms {_s(got_both)}", s_add)
    if isinstance(got_both, dict) and len(got_both) == 2:
        dict_eq(ctx, "R1", "atoms(Fe[56]{c}_a + Fe[54]{c}_b) keeps both counts", got_both, {ionI: q[0], ion54: q[1]}, s_add)
    # f += g
    f2 = mk({Fe: q[0], ionI: q[1]})
    fr = I.call(I.getattr(f2, "__iadd__"), [g], {})
    ctx.check(fr is f2, "R1", "f+=g returns self", "__iadd__ does not return self", s_iadd)
    dict_eq(ctx, "R1", "atoms(f+=g)=atoms(f)+atoms(g)", atoms(f2),
            {Fe: q[0] + q[2], ionI: q[1], O: q[3]}, s_iadd)
    # initializer kinds
    s_formula = fsite(ctx, "formulas.formula")
    dict_eq(ctx, "R1", "formula(Formula) keeps atoms", atoms(I.call(fm, [h], {})),
            {Fe: q[0] + q[2], ionI: q[1], O: q[3]}, s_formula)
    dict_eq(ctx, "R1", "formula(atom)={atom:1}", atoms(I.call(fm, [ionI], {})), {ionI: 1}, s_formula)
    dict_eq(ctx, "R1", "formula(dict) keeps counts", atoms(mk({O: q[0], Fe: q[1], H1: q[2]})),
            {O: q[0], Fe: q[1], H1: q[2]}, s_formula)
    seq = [(sp.Integer(2), [(sp.Integer(1), Fe), (q[0], O)]), (q[1], Fe), (q[2], [(q[3], [(q[4], H1)])])]
    dict_eq(ctx, "R1", "formula(nested sequence): counts multiply through groups, repeats add",
            atoms(I.call(fm, [seq], {})), {Fe: 2 + q[1], O: 2 * q[0], H1: q[2] * q[3] * q[4]}, s_formula)
    # the same sequence handed over as one-shot iterators (zip(counts, atoms) at the top level and inside a group)
    from ptstat.symval import GenVal
    seq_it = GenVal([(sp.Integer(2), GenVal([(sp.Integer(1), Fe), (q[0], O)])), (q[1], Fe), (q[2], [(q[3], GenVal([(q[4], H1)]))])])
    rr = raises(lambda: I.call(fm, [seq_it], {}))
    if rr is not None:
        # (an implementation may insist on real sequences; then it must say so rather than build something else)
        ctx.ok("R1", "formula(sequence given as iterators): counts multiply through groups, repeats add", site=s_formula,
               sample=f"iterators are rejected ({rr})")
    else:
        seq_it = GenVal([(sp.Integer(2), GenVal([(sp.Integer(1), Fe), (q[0], O)])), (q[1], Fe), (q[2], [(q[3], GenVal([(q[4], H1)]))])])
        dict_eq(ctx, "R1", "formula(sequence given as iterators): counts multiply through groups, repeats add",
                atoms(I.call(fm, [seq_it], {})), {Fe: 2 + q[1], O: 2 * q[0], H1: q[2] * q[3] * q[4]}, s_formula)
    ct = I.global_name("formulas", "_change_table")
    dict_eq(ctx, "R1", "_change_table keeps counts", I.call(I.global_name("formulas", "_count_atoms"),
            [I.call(ct, [struct(I.call(fm, [seq], {})), w.table], {})], {}),
            {Fe: 2 + q[1], O: 2 * q[0], H1: q[2] * q[3] * q[4]}, fsite(ctx, "formulas._change_table"))
    for label, res, operand in (("n*f", nf, f), ("n*f [single fragment]", nf1, f1), ("1*f", one, f), ("n*empty", ne, empty)):
        ctx.check(all(x is not operand for x in alts(res)), "R3", f"{label} is a new object on every path",
                  f"{label} can return its own operand, so a later += on the product rewrites the operand", s_mul)
    # ... and shares no mutable state with it: no dict / list held by the product is the very object held by the operand
    # (a shallow copy that carries a count table along is rewritten through the product's +=)
    def mutables(obj):
        return [(k_, v_) for k_, v_ in I.heap[obj.id].items() if isinstance(v_, (dict, list))]
    for label, res, operand in (("n*f", nf, f), ("n*f [single fragment]", nf1, f1), ("1*f", one, f)):
        shared = sorted(k1 for x in alts(res) if isinstance(x, SymObj) and x is not operand
                        for k1, v1 in mutables(x) for _, v2 in mutables(operand) if v1 is v2)
        ctx.check(not shared, "R3", f"{label} shares no mutable container with its operand",
                  f"the product and the operand hold the same {shared} object: a later += on either rewrites the other", s_mul)
    # the sequel spelled out: g = 1*f; g += h leaves f as it was (atoms and mass)
    f_keep = mk({Fe: q[0], ionI: q[1]})
    atoms(f_keep); I.getattr(f_keep, "mass")
    before_atoms = dict(atoms(f_keep))
    g_one = I.lib.binop(I, MUL, sp.Integer(1), f_keep)
    atoms(g_one)
    g_one = I.call(I.getattr(g_one, "__iadd__"), [mk({O: q[2]})], {})
    dict_eq(ctx, "R3", "after g = 1*f; g += h the operand f still has its own atoms", atoms(f_keep), before_atoms, s_mul)
    dict_eq(ctx, "R3", "after g = 1*f; g += h the product has the atoms of both", atoms(g_one), {Fe: q[0], ionI: q[1], O: q[2]}, s_iadd)
    ctx.floor("R1", 18)

    # ---- R2 mass / charge / fractions per atom kind --------------------------
    m = {k: mass_sym(s) for k, s in dict(element="Fe", isotope="Fe56", DT="D").items()}
    me, NA = sp.Symbol("m_e", positive=True), sp.Symbol("N_A", positive=True)
    expect_mass = {"element": m["element"], "isotope": m["isotope"], "DT": m["DT"],
                   "ion_element": m["element"] - 2 * me, "ion_isotope": m["isotope"] - 3 * me,
                   "ion_DT": m["DT"] - me}
    expect_charge = {"element": 0, "isotope": 0, "DT": 0, "ion_element": 2, "ion_isotope": 3, "ion_DT": 1, "anion": -2}
    expect_mass["anion"] = m["element"] + 2 * me
    mO = mass_sym("O")
    s_mass = fsite(ctx, "formulas.Formula.mass")
    for kind in w.KINDS + ("anion",):
        a = A[kind]
        fk = mk({a: q[0], O: q[1]})
        total = q[0] * expect_mass[kind] + q[1] * mO
        eq(ctx, "R2", f"mass [{kind}]", I.getattr(fk, "mass"), total, s_mass)
        eq(ctx, "R2", f"charge [{kind}]", I.getattr(fk, "charge"), q[0] * expect_charge[kind],
           fsite(ctx, "formulas.Formula.charge"))
        mf = I.getattr(fk, "mass_fraction")
        eq(ctx, "R2", f"mass_fraction [{kind}]", mf[a], q[0] * expect_mass[kind] / total,
           fsite(ctx, "formulas.Formula.mass_fraction"))
        eq(ctx, "R2", f"mass fractions sum to one [{kind}]", sum(mf.values()), 1,
           fsite(ctx, "formulas.Formula.mass_fraction"))
        eq(ctx, "R2", f"molecular_mass [{kind}]", I.getattr(fk, "molecular_mass"), total / NA,
           fsite(ctx, "formulas.Formula.molecular_mass"))
    # derived quantities of results whose operands were already asked for theirs (values remembered on an operand
    # must not travel into the product, the sum or the extended formula)
    fa, fb = mk({Fe: q[0], O: q[1]}), mk({H1: q[2]})
    Ma, Mb = q[0] * m["element"] + q[1] * mO, q[2] * mass_sym("H1")
    for read in ("mass", "charge", "mass_fraction", "molecular_mass"):
        I.getattr(fa, read), I.getattr(fb, read)
    prod = I.lib.binop(I, MUL, n, fa)
    eq(ctx, "R2", "mass(n*f) after f.mass was read", I.getattr(prod, "mass"), n * Ma, s_mass)
    eq(ctx, "R2", "mass fractions of n*f sum to one after f's were read", sum(I.getattr(prod, "mass_fraction").values()), 1,
       fsite(ctx, "formulas.Formula.mass_fraction"))
    ssum = I.lib.binop(I, ADD, fa, fb)
    eq(ctx, "R2", "mass(f+g) after f.mass and g.mass were read", I.getattr(ssum, "mass"), Ma + Mb, s_mass)
    I.getattr(ssum, "mass")
    I.call(I.getattr(ssum, "__iadd__"), [fb], {})
    eq(ctx, "R2", "mass(h) after h += g, h.mass having been read before", I.getattr(ssum, "mass"), Ma + 2 * Mb, s_mass)
    eq(ctx, "R2", "mass(f) is unchanged by the operations on its results", I.getattr(fa, "mass"), Ma, s_mass)
    # one atom spread over several fragments and a group (a hydrate, CH3CH2OH, f+g sharing an element): its fraction counts
    # every occurrence, and the fractions still sum to one
    rep = I.call(fm, [[(q[0], Fe), (q[1], [(q[2], Fe), (q[3], O)]), (q[4], O)]], {})
    Mrep = (q[0] + q[1] * q[2]) * m["element"] + (q[1] * q[3] + q[4]) * mO
    mfr = I.getattr(rep, "mass_fraction")
    eq(ctx, "R2", "mass_fraction of an atom that occurs in several fragments counts every occurrence", mfr[Fe],
       (q[0] + q[1] * q[2]) * m["element"] / Mrep, fsite(ctx, "formulas.Formula.mass_fraction"))
    eq(ctx, "R2", "mass fractions sum to one when atoms repeat across fragments", sum(mfr.values()), 1, fsite(ctx, "formulas.Formula.mass_fraction"))
    eq(ctx, "R2", "mass when atoms repeat across fragments", I.getattr(rep, "mass"), Mrep, s_mass)
    ssum2 = I.lib.binop(I, ADD, mk({Fe: q[0], O: q[1]}), mk({Fe: q[2]}))
    eq(ctx, "R2", "mass_fraction of f+g for an element both share", I.getattr(ssum2, "mass_fraction")[Fe],
       (q[0] + q[2]) * m["element"] / ((q[0] + q[2]) * m["element"] + q[1] * mO), fsite(ctx, "formulas.Formula.mass_fraction"))
    ctx.floor("R2", 39)

    # ---- R3 operands unchanged ----------------------------------------------
    ctx.check(struct(f) is before_f or struct(f) == before_f, "R3", "f unchanged by f+g, n*f, formula(f)",
              "an operand's structure was modified", s_add)
    ctx.check(struct(g) is before_g or struct(g) == before_g, "R3", "g unchanged by f+g, f2+=g",
              "an operand's structure was modified", s_add)
    ctx.check(struct(f1) == ((q[4], Fe),), "R3", "f unchanged by n*f (single fragment)",
              f"structure now {struct(f1)!r}", s_mul)
    # package-wide: .structure is only ever rebound as a whole, never mutated in place
    nstores = 0
    for mod in ctx.src.modules.values():
        for node in ast.walk(mod.tree):
            bad = None
            if isinstance(node, ast.Call) and isinstance(node.func, ast.Attribute) \
                    and node.func.attr in MUTATORS and _is_structure(node.func.value):
                bad = node
            if isinstance(node, (ast.Assign, ast.AugAssign, ast.Delete)):
                tg = node.targets if not isinstance(node, ast.AugAssign) else [node.target]
                for t in tg:
                    if isinstance(t, ast.Subscript) and _is_structure(t.value):
                        bad = node
                    if isinstance(t, ast.Attribute) and t.attr == "structure":
                        nstores += 1
                        if isinstance(node, ast.AugAssign):
                            bad = node
            if bad is not None:
                ctx.fail("R3", f"in-place mutation of .structure: {ast.unparse(bad)[:80]}",
                         "formula structures must be rebound, not mutated (operands and results share them)",
                         f"{ctx.src.where(mod.name, bad)} {ctx.src.enclosing_function(mod.name, bad)}")
    ctx.check(nstores >= 5, "R3", "package-wide sweep of .structure stores",
              f"only {nstores} stores to .structure found (anchor moved?)", sample={"whole-attribute stores": nstores})
    ctx.unit("structure_stores", nstores)
    # .atoms hands out a fresh mapping: editing it (as replace() does) must not change what the formula reports next
    a1 = atoms(f)
    if isinstance(a1, dict):
        a1[O] = sp.Integer(99)
        a1.pop(Fe, None)
        dict_eq(ctx, "R3", "editing the mapping returned by .atoms does not change the formula", atoms(f), {Fe: q[0], ionI: q[1]},
                fsite(ctx, "formulas.Formula.atoms"))
    ctx.floor("R3", 14)

    # ---- R4 every produced structure is immutable at every level -------------
    produced = {"f+g": h, "n*f": nf, "n*f single": nf1, "1*f": one, "formula(dict)": f, "formula(seq)": I.call(fm, [seq], {}),
                "formula(atom)": I.call(fm, [ionI], {}), "f+=g": f2, "hill": I.getattr(h, "hill"),
                "replace": I.call(I.getattr(f, "replace"), [Fe, O], {})}
    # sequences whose top level is already a tuple but whose fragments are the caller's own lists
    inner = [(q[0], Fe), (q[1], O)]
    produced["formula(tuple holding a list)"] = I.call(fm, [((q[2], inner),)], {})
    produced["formula(tuple of tuples holding a list)"] = I.call(fm, [((sp.Integer(1), ((q[2], inner),)),)], {})
    for name, obj in produced.items():
        st = struct(obj)
        ctx.check(tuple_everywhere(st), "R4", f"structure of {name} is a tuple of pairs at every level",
                  f"structure {st!r} contains a mutable or malformed container", s_formula,
                  sample=_s(st, 120))
    inner.append((q[3], H1))      # the caller goes on using its list
    dict_eq(ctx, "R4", "a formula built from a caller's nested list does not change when the caller edits that list afterwards",
            atoms(produced["formula(tuple holding a list)"]), {Fe: q[2] * q[0], O: q[2] * q[1]}, s_formula)
    ctx.floor("R4", 13)

    # ---- R5 initializer dispatch --------------------------------------------
    e0 = I.call(fm, [None], {})
    ctx.check(struct(e0) == (), "R5", "formula(None) is empty", f"structure {struct(e0)!r}", s_formula)
    e1 = I.call(fm, [""], {})
    ctx.check(struct(e1) == (), "R5", "formula('') is empty", f"structure {struct(e1)!r}", s_formula)
    for label, bad in (("a number", sp.Integer(5)), ("a malformed pair list", [(sp.Integer(1),)]),
                       ("a sequence with a non-numeric count", [("x", Fe)])):
        r = raises(lambda: I.call(fm, [bad], {}))
        ctx.check(r == "ValueError", "R5", f"formula({label}) raises ValueError",
                  f"formula({label}) " + (f"raised {r}" if r else "returned a formula"), s_formula)
    ctx.floor("R5", 5)
    constants_lint(ctx, "R6", ["electron_mass"], "the mass of an ion is the atom's mass minus charge * electron mass")
    ctx.unit("functions_inlined", len(set(I.calls)))
    ctx.unit("atom_kinds", len(w.KINDS))
    ctx.assume("sympy's algebra; the interpreter's model of Python attribute lookup "
               "(data descriptor, instance, class, __getattr__)")


def _is_structure(node):
    return isinstance(node, ast.Attribute) and node.attr == "structure"
