"""C12 - density, natural density, isotope substitution and cell volume are consistent."""
from __future__ import annotations

import ast
import itertools
import re

import sympy as sp

from ptstat import AnalysisError, algebra
from ptstat.symval import SymObj, Phi, SymRaise, Closure, BoundMethod, merge
from ptstat.symx import Frame
from ptstat.world import mass_sym
from .common import world, eq, dict_eq, fsite, raises, folder, _s, public_entry_points

EXPLANATION = (
    "Value graphs of Formula.natural_mass_ratio, the natural_density getter/setter, the density "
    "keyword/attribute/tag routes (formula(), Formula.__init__, the convert_compound and "
    "convert_mixture parse actions called on token lists of the shape the grammar produces), "
    "_isotope_substitution, Formula.volume and util.cell_volume are built from the current source "
    "and compared as algebraic identities with the specification, once per atom kind (element, "
    "isotope, D/T, ion of element, ion of isotope, ion of D).  The packing-factor constants are "
    "folded from the source and compared with the table printed in the docstring.  Not decided: "
    "float rounding.")


def nat_mass(kind):
    me = sp.Symbol("m_e", positive=True)
    return {"element": mass_sym("Fe"), "isotope": mass_sym("Fe"), "DT": mass_sym("H"),
            "ion_element": mass_sym("Fe") - 2 * me, "ion_isotope": mass_sym("Fe") - 3 * me,
            "ion_DT": mass_sym("H") - me}[kind]


def act_mass(kind):
    me = sp.Symbol("m_e", positive=True)
    return {"element": mass_sym("Fe"), "isotope": mass_sym("Fe56"), "DT": mass_sym("D"),
            "ion_element": mass_sym("Fe") - 2 * me, "ion_isotope": mass_sym("Fe56") - 3 * me,
            "ion_DT": mass_sym("D") - me}[kind]


PROBES = (("plain", "Fe"), ("convert_by_weight", "30wt% Fe // Co"), ("convert_by_volume", "30vol% Fe // Co"),
          ("convert_by_layer", "3nm Fe // 2nm Co"), ("convert_by_absmass", "3g Fe // 2g Co"),
          ("convert_mixture", "(30wt% Fe // Co)@2"))


def grammar_roles(I, w):
    """The parse actions of the grammar that formula_grammar(table) builds, identified by what they do rather than by
    their names: probe strings are parsed on the PEG model and the named functions that fire are recorded.
      convert_element  - the first function to fire on 'Fe';  convert_compound - the last one;
      convert_by_*     - the function that fires on a wt% / vol% / layer / mass mixture and on no simpler probe;
      convert_mixture  - the additional function that fires when the wt% mixture is parenthesised and tagged."""
    from ptstat import peg
    import ast as _ast
    cache = getattr(w, "_roles", None)
    if cache is not None:
        return cache
    gram = I.call(I.global_name("formulas", "formula_grammar"), [w.table], {})
    G = peg.Grammar(gram, I)
    w._roles_grammar = G
    fired = {}
    for role, text in PROBES:
        G.trace = []
        try:
            G.parse(text, all_=True)
        except (SymRaise, AnalysisError):
            pass                      # an action may fail on the probe's data (e.g. unknown density); it has fired all the same
        named = []
        for fn, node, start in G.trace:
            # named functions, bound methods and callable objects (anything but the small lambdas of the terminals)
            is_named = (isinstance(fn, Closure) and isinstance(fn.node, _ast.FunctionDef)) or isinstance(fn, BoundMethod) \
                or (isinstance(fn, SymObj) and fn.cls is not None and fn.cls.lookup("__call__") is not None)
            if is_named and not any(_same_action(fn, g) for g in named):
                named.append(fn)
        fired[role] = named
        if role == "plain":
            G._plain_trace = list(G.trace)
    G.trace = None
    roles = {}
    plain = fired["plain"]
    inp = lambda f, fs: any(_same_action(f, g) for g in fs)
    if len(plain) >= 2:
        # the element action is the first to fire after the symbol has been looked up: a callable that turns the symbol
        # text into an atom (object with state, e.g. a table lookup object) may come first; the element action is the first
        # one whose node carries the four element tokens - identified as the first action fired on the *element* node, i.e.
        # the last named action before the first action that also fires on '2Fe' with a different token count.  In practice:
        # the first named action that is not attached to a terminal (Regex/Literal) node.
        first = None
        for fn, node, start in [t for t in (getattr(G, "_plain_trace", []) or [])]:
            if inp(fn, plain) and not isinstance(node, (peg.Regex, peg.Literal)):
                first = fn
                break
        roles["convert_element"] = first if first is not None else plain[0]
        roles["convert_compound"] = plain[-1]
    for role in ("convert_by_weight", "convert_by_volume", "convert_by_layer", "convert_by_absmass"):
        new = [f for f in fired[role] if not inp(f, plain)]
        if len(new) == 1:
            roles[role] = new[0]
    if "convert_by_weight" in roles:
        new = [f for f in fired["convert_mixture"] if not inp(f, plain) and not _same_action(f, roles["convert_by_weight"])]
        if len(new) == 1:
            roles["convert_mixture"] = new[0]
    w._roles = roles
    return roles


def _same_action(f, g):
    if f is g:
        return True
    if isinstance(f, BoundMethod) and isinstance(g, BoundMethod):
        return f.fn is g.fn and f.selfval is g.selfval
    return False


def _action_qual(fn):
    """qualified name of the function that runs when the action fires (closure, bound method or callable object)"""
    if isinstance(fn, Closure):
        return fn.qual
    if isinstance(fn, BoundMethod) and isinstance(fn.fn, Closure):
        return fn.fn.qual
    if isinstance(fn, SymObj) and fn.cls is not None:
        m = fn.cls.lookup("__call__")
        if isinstance(m, Closure):
            return m.qual
    raise AnalysisError(f"parse action {fn!r} has no source function")


def action(I, w, name):
    """Parse action with the role *name* (see grammar_roles) of the grammar that formula_grammar(table) builds."""
    roles = grammar_roles(I, w)
    if name not in roles:
        raise AnalysisError(f"no parse action with the role of {name} is attached to the grammar built by formula_grammar "
                            f"(roles found: {sorted(roles)})")
    return roles[name]


def action_tokens(I, w, name, text, numbers=(), formulas=(), atoms=()):
    """The token list the action with role *name* receives when the grammar parses *text* (its last firing), with the
    numbers listed in *numbers* ({value: replacement}) and the Formula objects (in order of appearance) replaced.  The
    protocol between the grammar and its actions (groups, records, named tuples ...) is the repository's own business: the
    rules take the tokens from the grammar instead of assuming their layout."""
    from ptstat import peg
    from ptstat.symlib import NTuple
    fn = action(I, w, name)
    G = w._roles_grammar          # the grammar whose actions were given their roles (actions are closures of one grammar)
    G.tok_trace = []
    try:
        try:
            G.parse(text, all_=True)
        except (SymRaise, AnalysisError):
            import os
            if os.environ.get("VERIF_DEBUG"): import traceback; traceback.print_exc()
        got = [t for f, t in G.tok_trace if _same_action(f, fn)]
    finally:
        G.tok_trace = None
    if not got:
        raise AnalysisError(f"the action with the role of {name} does not fire on {text!r}")
    forms = list(formulas)
    nums = {sp.sympify(k): v for k, v in dict(numbers).items()}
    used = set()

    def is_formula(v):
        return isinstance(v, SymObj) and v.cls is not None and any(k.name == "Formula" for k in [v.cls] + list(v.cls.bases))

    amap = list(dict(atoms).items()) if atoms else []

    def sub(v):
        if isinstance(v, SymObj):
            for k_, rep_ in amap:
                if v is k_:
                    return rep_
            if v.cls is not None and v.cls.name in ("Element", "Isotope", "Ion", "PeriodicTable"):
                return v
        if is_formula(v):
            if not forms:
                raise AnalysisError(f"more formulas in the tokens of {text!r} than replacements")
            return forms.pop(0)
        if isinstance(v, NTuple):
            t = NTuple([sub(x) for x in v])
            t._fields, t._tname = v._fields, v._tname
            if getattr(v, "_cls", None) is not None:
                t._cls = v._cls
            return t
        if isinstance(v, peg.Toks):
            return peg.Toks([sub(x) for x in v], {k: sub(x) for k, x in v.named.items()})
        if isinstance(v, list):
            return [sub(x) for x in v]
        if isinstance(v, tuple):
            return tuple(sub(x) for x in v)
        if isinstance(v, SymObj) and v.cls is not None:
            d_ = I.heap[v.id]
            for k in list(d_):
                d_[k] = sub(d_[k])          # a record object built by a lower action: replaced in place (it is ours alone)
            return v
        if not isinstance(v, (str, bool)) and v is not None:
            try:
                e = sp.sympify(v)
            except (sp.SympifyError, TypeError):
                return v
            if e in nums:
                used.add(e)
                return nums[e]
        return v
    out = sub(got[-1])
    if forms or set(nums) - used:
        raise AnalysisError(f"tokens of {text!r} for {name}: {len(forms)} formulas / numbers {sorted(map(str, set(nums) - used))} not found")
    return out


def action_site(ctx, I, w, name):
    """where the action with that role is defined (for reports)"""
    fn = action(I, w, name)
    return fsite(ctx, _action_qual(fn))


def _generic_arm(v, p):
    """the arm of a value merged on a test of the portion against 1 that holds for a generic portion (p != 1)"""
    while isinstance(v, Phi):
        c = v.cond
        at1 = c.subs(p, 1) if hasattr(c, "subs") else c
        if at1 is sp.true or at1 is True:
            v = v.b          # the condition singles out p == 1: the other arm is the generic one
        elif at1 is sp.false or at1 is False:
            v = v.a
        else:
            raise AnalysisError(f"replace(): result depends on an unexpected condition {c}")
    return v


def run(ctx):
    w = world(ctx)
    I, A = w.I, w.atoms
    fm = I.global_name("formulas", "formula")
    q = sp.symbols("q1:4", positive=True)
    O = A["element2"]
    mO = mass_sym("O")
    d, nd = sp.Symbol("d", positive=True), sp.Symbol("nd", positive=True)
    s_ratio = fsite(ctx, "formulas.Formula.natural_mass_ratio")
    s_fm = fsite(ctx, "formulas.formula")

    # ---- R1 natural mass ratio per kind, getter/setter inverse ------------------
    # (first: two materials that carry the same *name* and different isotopes - "water" for D2O and for H2O -, asked one
    # after the other and again: a ratio is a property of the composition, whatever the formula prints as)
    kinds_ = [k_ for k_ in w.KINDS][:2]
    named = [I.call(fm, [{A[k_]: q[0], O: q[1]}], {"density": d, "name": "water"}) for k_ in kinds_]
    for rep_ in (1, 2):
        for k_, f_ in zip(kinds_, named):
            eq(ctx, "R1", f"natural mass ratio of a formula named like another one [{k_}, request {rep_}]",
               I.call(I.getattr(f_, "natural_mass_ratio"), [], {}),
               (q[0] * nat_mass(k_) + q[1] * mO) / (q[0] * act_mass(k_) + q[1] * mO), s_ratio)
    for kind in w.KINDS:
        a = A[kind]
        f = I.call(fm, [{a: q[0], O: q[1]}], {"density": d})
        want = (q[0] * nat_mass(kind) + q[1] * mO) / (q[0] * act_mass(kind) + q[1] * mO)
        got = I.call(I.getattr(f, "natural_mass_ratio"), [], {})
        eq(ctx, "R1", f"natural mass ratio [{kind}]", got, want, s_ratio)
        eq(ctx, "R1", f"natural_density = density * ratio [{kind}]", I.getattr(f, "natural_density"), d * want,
           fsite(ctx, "formulas.Formula.natural_density"))
        I.setattr(f, "natural_density", nd)
        eq(ctx, "R1", f"setting natural_density gives density = natural_density / ratio [{kind}]",
           I.getattr(f, "density"), nd / want, fsite(ctx, "formulas.Formula.natural_density.setter"))
        eq(ctx, "R1", f"natural_density reads back what was set [{kind}]", I.getattr(f, "natural_density"), nd,
           fsite(ctx, "formulas.Formula.natural_density"))
        # ... and a density assigned afterwards is what the natural density is computed from (nothing of the earlier value is kept)
        d_later = sp.Symbol("rho_later", positive=True)
        I.setattr(f, "density", d_later)
        eq(ctx, "R1", f"natural_density after natural_density = nd; density = d is d * ratio [{kind}]", I.getattr(f, "natural_density"), d_later * want,
           fsite(ctx, "formulas.Formula.natural_density"))
    # the ratio follows the composition: after an in-place extension (f += g) by something of another isotope content, the
    # natural density read or set is that of the extended formula, whatever was read or set before
    a_i, a_e = A["isotope"], A["element"]
    f = I.call(fm, [{a_i: q[0], O: q[1]}], {"density": d})
    I.getattr(f, "natural_density")                       # (a reading before the extension)
    I.call(I.getattr(f, "natural_mass_ratio"), [], {})
    g_ = I.call(fm, [{a_e: q[2]}], {})
    f = I.call(I.getattr(f, "__iadd__"), [g_], {})
    want2 = (q[0] * nat_mass("isotope") + q[1] * mO + q[2] * nat_mass("element")) / (q[0] * act_mass("isotope") + q[1] * mO + q[2] * act_mass("element"))
    eq(ctx, "R1", "natural mass ratio after f += g is that of the extended formula", I.call(I.getattr(f, "natural_mass_ratio"), [], {}), want2, s_ratio)
    eq(ctx, "R1", "natural_density after f += g = density * ratio of the extended formula", I.getattr(f, "natural_density"), d * want2,
       fsite(ctx, "formulas.Formula.natural_density"))
    I.setattr(f, "natural_density", nd)
    eq(ctx, "R1", "setting natural_density after f += g uses the ratio of the extended formula", I.getattr(f, "density"), nd / want2,
       fsite(ctx, "formulas.Formula.natural_density.setter"))
    ctx.floor("R1", 27)

    # ---- R2 the routes agree ----------------------------------------------------
    a = A["ion_isotope"]
    comp = {a: q[0], O: q[1]}
    ratio = (q[0] * nat_mass("ion_isotope") + q[1] * mO) / (q[0] * act_mass("ion_isotope") + q[1] * mO)
    f = I.call(fm, [dict(comp)], {"density": d})
    eq(ctx, "R2", "formula(x, density=d).density = d", I.getattr(f, "density"), d, s_fm)
    f = I.call(fm, [dict(comp)], {"natural_density": nd})
    eq(ctx, "R2", "formula(x, natural_density=nd).density = nd/ratio", I.getattr(f, "density"), nd / ratio, s_fm)
    f0 = I.call(fm, [dict(comp)], {})
    ctx.check(I.getattr(f0, "density") is None, "R2", "a compound without density information has density None",
              f"density is {_s(I.getattr(f0, 'density'))}", fsite(ctx, "formulas.Formula.__init__"))
    I.setattr(f0, "density", d)
    eq(ctx, "R2", "attribute assignment f.density = d", I.getattr(f0, "natural_density"), d * ratio, s_fm)
    # formula(Formula ...) keeps or overrides the density
    g = I.call(fm, [f], {})
    eq(ctx, "R2", "formula(Formula) keeps its density", I.getattr(g, "density"), nd / ratio, s_fm)
    g = I.call(fm, [f], {"density": d})
    eq(ctx, "R2", "formula(Formula, density=d) overrides", I.getattr(g, "density"), d, s_fm)
    g = I.call(fm, [f], {"natural_density": d})
    g0 = I.call(fm, [g], {"density": sp.Integer(0)})
    ctx.check(I.getattr(g0, "density") == 0, "R2", "formula(Formula, density=0) overrides too (zero is a density, not 'not given')",
              f"density {_s(I.getattr(g0, 'density'))}", s_fm)
    eq(ctx, "R2", "formula(Formula, natural_density=d) overrides", I.getattr(g, "density"), d / ratio, s_fm)
    # tags through the parse actions
    pairs = [(q[0], a), (q[1], O)]
    cc = action(I, w, "convert_compound")
    s_cc = action_site(ctx, I, w, "convert_compound")
    # the tokens are what the grammar hands the action for 'Fe3O5', 'Fe3O5@7n', 'Fe3O5@7i' and 'Fe3O5@7', with the counts, the
    # density and the first atom replaced by the generic ones
    ctoks = lambda text: action_tokens(I, w, "convert_compound", text, {3: q[0], 5: q[1], 7: d} if "@" in text else {3: q[0], 5: q[1]},
                                       atoms={A["element"]: a})
    r = I.call(cc, ["<s>", 0, ctoks("Fe3O5")], {})
    ctx.check(I.getattr(r, "density") is None, "R2", "no '@' tag: density stays unknown", f"{_s(I.getattr(r, 'density'))}", s_cc)
    dict_eq(ctx, "R2", "convert_compound keeps the parsed pairs", I.getattr(r, "atoms"), comp, s_cc)
    r = I.call(cc, ["<s>", 0, ctoks("Fe3O5@7n")], {})
    eq(ctx, "R2", "'@dn' tag is the natural density", I.getattr(r, "density"), d / ratio, s_cc)
    r = I.call(cc, ["<s>", 0, ctoks("Fe3O5@7i")], {})
    eq(ctx, "R2", "'@di' tag is the isotopic density", I.getattr(r, "density"), d, s_cc)
    r = I.call(cc, ["<s>", 0, ctoks("Fe3O5@7")], {})
    eq(ctx, "R2", "'@d' tag is the isotopic density", I.getattr(r, "density"), d, s_cc)
    cmx = action(I, w, "convert_mixture")
    s_cm = action_site(ctx, I, w, "convert_mixture")
    for tag, wantd in (("n", d / ratio), ("i", d)):
        mix = I.call(fm, [dict(comp)], {"density": sp.Symbol("d0", positive=True)})
        r = I.call(cmx, ["<s>", 0, action_tokens(I, w, "convert_mixture", f"(30wt% Fe // Co)@7{tag}", {7: d}, [mix])], {})
        eq(ctx, "R2", f"(mixture)@d{tag} sets the {'natural' if tag == 'n' else 'isotopic'} density",
           I.getattr(r, "density"), wantd, s_cm)
    mix = I.call(fm, [dict(comp)], {"density": d})
    r = I.call(cmx, ["<s>", 0, action_tokens(I, w, "convert_mixture", "(30wt% Fe // Co)", {}, [mix])], {})
    eq(ctx, "R2", "(mixture) without tag keeps the computed density", I.getattr(r, "density"), d, s_cm)
    # single-atom default
    for kind in w.KINDS:
        fa = I.call(fm, [A[kind]], {})
        eq(ctx, "R2", f"single-atom formula defaults to the atom's density [{kind}]", I.getattr(fa, "density"),
           I.getattr(A[kind], "density"), fsite(ctx, "formulas.Formula.__init__"))
    # several atoms in one counted group have no default density; one atom written as several groups has its own
    Fe_, O_ = A["element"], A["element2"]
    grp = I.call(fm, [[(sp.Integer(2), [(sp.Integer(2), Fe_), (sp.Integer(1), O_)])]], {})
    ctx.check(I.getattr(grp, "density") is None, "R2", "one counted group of several atoms has no default density",
              f"density = {_s(I.getattr(grp, 'density'))}", fsite(ctx, "formulas.Formula.__init__"))
    twice = I.call(fm, [[(sp.Integer(1), Fe_), (sp.Integer(2), Fe_)]], {})
    eq(ctx, "R2", "a single atom written as several groups keeps that atom's density", I.getattr(twice, "density"), I.getattr(Fe_, "density"),
       fsite(ctx, "formulas.Formula.__init__"))
    public_entry_points(ctx, "RW", [("formula", "formulas.formula")])
    ctx.floor("R2", 23)

    # ---- R3 isotope substitution ---------------------------------------------
    s_sub = fsite(ctx, "formulas._isotope_substitution", "formulas.Formula.replace")
    H1, D, H = A["H1"], A["DT"], A["H"]
    p = sp.Symbol("p", positive=True)
    # p is a proper fraction: 1 - p > 0 is a fact given to the interpreter, so a 'portion == 1' special case is not taken for it
    saved_pos = list(getattr(I, "positive", None) or [])
    I.positive = saved_pos + [1 - p]
    f = I.call(fm, [{H1: q[0], O: q[1], D: q[2]}], {"density": d})
    mass0 = q[0] * mass_sym("H1") + q[1] * mO + q[2] * mass_sym("D")
    for label, portion, want_atoms in (
            ("full", sp.Integer(1), {O: q[1], D: q[2] + q[0]}),
            ("partial", p, {H1: q[0] * (1 - p), O: q[1], D: q[2] + q[0] * p})):
        r = I.call(I.getattr(f, "replace"), [H1, D], {"portion": portion})
        got_atoms = I.getattr(r, "atoms")
        got_atoms = _generic_arm(got_atoms, p)
        dict_eq(ctx, "R3", f"replace ({label}): other counts kept, source moved to target", got_atoms, want_atoms, s_sub)
        mass1 = mass0 + q[0] * portion * (mass_sym("D") - mass_sym("H1"))
        eq(ctx, "R3", f"replace ({label}): density scales with the mass (cell volume kept)",
           _generic_arm(I.getattr(r, "density"), p), d * mass1 / mass0, s_sub)
    # the formula asked is left as it was: same atom objects (of the same table), same counts, same density
    before_atoms = dict(I.getattr(f, "atoms"))
    T_other = I.instantiate(I.get_class("core.PeriodicTable"), ["other_for_replace"], {}, name="T_other", open_attrs=())
    call_ = lambda o_, m_, *a_: I.call(I.getattr(o_, m_), list(a_), {})
    h1_other = call_(I.getattr(T_other, "H"), "add_isotope", sp.Integer(1))
    d_other = I.getattr(T_other, "D")
    for src_, tgt_ in ((H1, D), (h1_other, D), (H1, d_other), (h1_other, d_other)):
        raises(lambda: I.call(I.getattr(f, "replace"), [src_, tgt_], {}))
        now_atoms = I.getattr(f, "atoms")
        ctx.check(isinstance(now_atoms, dict) and len(now_atoms) == len(before_atoms) and all(any(k_ is b_ for b_ in before_atoms) for k_ in now_atoms),
                  "R3", "replace() leaves the formula it is asked of with its own atom objects", "the atoms of the formula were exchanged for other objects "
                  "(moved to another table)", s_sub)
        eq(ctx, "R3", "replace() leaves the density of the formula it is asked of", I.getattr(f, "density"), d, s_sub)
    # the same substitution asked for again after the first result was given another density: every request is computed from
    # the formula it is asked of (results are the caller's objects: nothing handed out is handed out, or copied, again)
    r1 = I.call(I.getattr(f, "replace"), [H1, D], {})
    I.setattr(r1, "density", sp.Symbol("rho_edited", positive=True))
    r2 = I.call(I.getattr(f, "replace"), [H1, D], {})
    ctx.check(r2 is not r1, "R3", "replace asked twice returns two formula objects", "the same object is handed out twice", s_sub)
    eq(ctx, "R3", "replace asked again after the first result's density was edited: density scales with the mass of the formula asked",
       _generic_arm(I.getattr(r2, "density"), p), d * (mass0 + q[0] * (mass_sym("D") - mass_sym("H1"))) / mass0, s_sub)
    rn1 = I.call(I.getattr(I.call(fm, [{H1: q[0], O: q[1]}], {}), "replace"), [H1, D], {})
    I.setattr(rn1, "density", sp.Symbol("rho_edited", positive=True))
    rn2 = I.call(I.getattr(I.call(fm, [{H1: q[0], O: q[1]}], {}), "replace"), [H1, D], {})
    ctx.check(I.getattr(rn2, "density") is None, "R3", "replace on an equal formula of unknown density, after an earlier result was given one, leaves it unknown",
              f"density = {_s(I.getattr(rn2, 'density'))}", s_sub)
    # substitution by a different element, an ion and an isotope of another element: mass scaling, not natural density
    for kind in ("element", "ion_element", "isotope"):
        tgt = A[kind]
        mt = I.getattr(tgt, "mass")
        r = I.call(I.getattr(f, "replace"), [O, tgt], {"portion": p})
        got_atoms = I.getattr(r, "atoms")
        got_atoms = _generic_arm(got_atoms, p)
        dict_eq(ctx, "R3", f"replace (O by {kind}, partial): other counts kept, source moved to target", got_atoms,
                {H1: q[0], O: q[1] * (1 - p), D: q[2], tgt: q[1] * p}, s_sub)
        eq(ctx, "R3", f"replace (O by {kind}, partial): density scales with the mass (cell volume kept)",
           _generic_arm(I.getattr(r, "density"), p), d * (mass0 + q[1] * p * (mt - mO)) / mass0, s_sub)
    r = I.call(I.getattr(f, "replace"), [H, D], {})
    dict_eq(ctx, "R3", "replace of an absent atom changes nothing", I.getattr(r, "atoms"), {H1: q[0], O: q[1], D: q[2]}, s_sub)
    eq(ctx, "R3", "replace of an absent atom keeps the density", I.getattr(r, "density"), d, s_sub)
    fn = I.call(fm, [{H1: q[0], O: q[1]}], {})
    rr = raises(lambda: I.call(I.getattr(fn, "replace"), [H1, D], {"portion": p}))
    ctx.check(rr is None and I.getattr(I.call(I.getattr(fn, "replace"), [H1, D], {}), "density") is None, "R3",
              "replace on a formula of unknown density leaves it unknown",
              f"replace raised {rr}" if rr else "density became known", s_sub)
    # a structural formula with the source atom on several sites (NH[1]2 CH2 COOH[1]): every site is substituted
    fs = I.call(fm, [[(q[0], H1), (sp.Integer(1), [(q[1], O), (q[2], H1)]), (sp.Integer(2), D)]], {"density": d})
    mass_s = (q[0] + q[2]) * mass_sym("H1") + q[1] * mO + 2 * mass_sym("D")
    for label, portion in (("full", sp.Integer(1)), ("partial", p)):
        r = I.call(I.getattr(fs, "replace"), [H1, D], {"portion": portion})
        want_atoms = {O: q[1], D: 2 + (q[0] + q[2]) * portion}
        if portion is p:
            want_atoms[H1] = (q[0] + q[2]) * (1 - p)
        dict_eq(ctx, "R3", f"replace ({label}) in a formula with the source on several sites: every site is substituted",
                _generic_arm(I.getattr(r, "atoms"), p), want_atoms, s_sub)
        eq(ctx, "R3", f"replace ({label}) in a formula with the source on several sites: density scales with the mass",
           _generic_arm(I.getattr(r, "density"), p), d * (mass_s + (q[0] + q[2]) * portion * (mass_sym("D") - mass_sym("H1"))) / mass_s, s_sub)
    I.positive = saved_pos
    ctx.floor("R3", 20)

    # ---- R4 volume -----------------------------------------------------------
    s_vol = fsite(ctx, "formulas.Formula.volume")
    Fe = A["element"]
    rFe, rO = sp.Symbol("r_Fe", positive=True), sp.Symbol("r_O", positive=True)
    w.set(Fe, covalent_radius=rFe)
    w.set(O, covalent_radius=rO)
    f = I.call(fm, [{Fe: q[0], O: q[1]}], {})
    pf = sp.Symbol("pf", positive=True)
    sphere = (q[0] * rFe ** 3 + q[1] * rO ** 3) * 4 * sp.pi / 3
    eq(ctx, "R4", "volume(packing_factor) = summed covalent spheres / packing factor * 1e-24",
       I.call(I.getattr(f, "volume"), [pf], {}), sphere / pf * sp.Rational(1, 10 ** 24), s_vol)
    eq(ctx, "R4", "volume(packing_factor=pf) keyword form", I.call(I.getattr(f, "volume"), [], {"packing_factor": pf}),
       sphere / pf * sp.Rational(1, 10 ** 24), s_vol)
    try:
        PF = folder(ctx).const("formulas", "PACKING_FACTORS")
    except AnalysisError:
        # the table is computed by package code rather than written as literals: take it from the interpreter
        PF = {}
        for k_, v_ in I.global_name("formulas", "PACKING_FACTORS").items():
            e_ = sp.sympify(v_)
            if not e_.is_number:
                raise AnalysisError(f"PACKING_FACTORS[{k_!r}] is not a number: {v_}")
            PF[k_] = float(e_.evalf(30))
    exact = {"cubic": sp.pi / 6, "bcc": sp.pi * sp.sqrt(3) / 8, "hcp": sp.pi / sp.sqrt(18),
             "fcc": sp.pi / sp.sqrt(18), "diamond": sp.pi * sp.sqrt(3) / 16}
    doc = ast.get_docstring(ctx.src.func("formulas.Formula.volume").node) or ""
    printed = dict(re.findall(r"^\s*(cubic|bcc|hcp|fcc|diamond)\s.*?([0-9]\.[0-9]{5})\s*$", doc, re.M))
    if len(printed) < 5:
        raise AnalysisError("packing factor table not found in Formula.volume docstring")
    for name in sorted(exact):
        ctx.check(name in PF and abs(PF[name] - float(exact[name])) < 1e-12 and abs(PF[name] - float(printed[name])) < 6e-6,
                  "R4", f"packing factor '{name}' = geometric value = docstring table",
                  f"PACKING_FACTORS[{name!r}] = {PF.get(name)}; geometry {float(exact[name]):.6f}; docstring {printed[name]}",
                  "periodictable/formulas.py PACKING_FACTORS", sample={"value": PF.get(name), "doc": printed[name]})
        eq(ctx, "R4", f"volume('{name}') uses that factor", I.call(I.getattr(f, "volume"), [name], {}),
           sphere / I.global_name("formulas", "PACKING_FACTORS")[name] * sp.Rational(1, 10 ** 24), s_vol)
    hv = I.call(I.getattr(f, "volume"), [], {})
    eq(ctx, "R4", "default packing is hcp", hv, sphere / exact["hcp"] * sp.Rational(1, 10 ** 24), s_vol)
    rr = raises(lambda: I.call(I.getattr(f, "volume"), ["nosuch"], {}))
    ctx.check(rr == "KeyError", "R4", "unknown lattice name raises KeyError", f"got {rr}", s_vol)
    # lattice route
    a_, b_, c_ = sp.symbols("a b c", positive=True)
    al, be, ga = sp.symbols("alpha beta gamma", positive=True)
    cosd = lambda x: sp.cos(x * sp.pi / 180)
    def cell(a, b, c, x, y, z):
        return a * b * c * sp.sqrt(1 - cosd(x) ** 2 - cosd(y) ** 2 - cosd(z) ** 2 + 2 * cosd(x) * cosd(y) * cosd(z))
    s_cv = fsite(ctx, "util.cell_volume")
    cv = I.global_name("util", "cell_volume")
    eq(ctx, "R4", "cell_volume(a,b,c,alpha,beta,gamma) = documented triclinic formula",
       I.call(cv, [a_, b_, c_, al, be, ga], {}), cell(a_, b_, c_, al, be, ga), s_cv)
    eq(ctx, "R4", "cell_volume(a): b, c default to a and the angles to 90 degrees", I.call(cv, [a_], {}), a_ ** 3, s_cv)
    eq(ctx, "R4", "cell_volume(a, b, c, alpha): beta, gamma default to alpha",
       I.call(cv, [a_, b_, c_, al], {}), cell(a_, b_, c_, al, al, al), s_cv)
    eq(ctx, "R4", "cell_volume(a, c=c, gamma=g): alpha, beta default to 90 degrees",
       I.call(cv, [a_], {"c": c_, "gamma": ga}), cell(a_, a_, c_, 90, 90, ga), s_cv)
    # documented defaults for every subset of the given angles: alpha -> 90, beta -> alpha, gamma -> alpha
    for given in itertools.product((False, True), repeat=3):
        kw = {n: v for n, v, g in zip(("alpha", "beta", "gamma"), (al, be, ga), given) if g}
        x = al if given[0] else 90
        y = be if given[1] else x
        z = ga if given[2] else x
        eq(ctx, "R4", f"cell_volume defaults with {sorted(kw) or 'no angle'} given (alpha->90, beta->alpha, gamma->alpha)",
           I.call(cv, [a_, b_, c_], dict(kw)), cell(a_, b_, c_, x, y, z), s_cv)
    rr = raises(lambda: I.call(cv, [], {}))
    ctx.check(rr == "TypeError", "R4", "cell_volume without a raises TypeError", f"got {rr}", s_cv)
    eq(ctx, "R4", "Formula.volume(a, b, c, alpha, beta, gamma) = cell volume * 1e-24",
       I.call(I.getattr(f, "volume"), [a_, b_, c_, al, be, ga], {}), cell(a_, b_, c_, al, be, ga) * sp.Rational(1, 10 ** 24), s_vol)
    eq(ctx, "R4", "Formula.volume(a=a, c=c) keyword lattice form",
       I.call(I.getattr(f, "volume"), [], {"a": a_, "c": c_}), a_ * a_ * c_ * sp.Rational(1, 10 ** 24), s_vol)
    ctx.floor("R4", 28)
    ctx.unit("functions_inlined", len(set(I.calls)))
    ctx.unit("atom_kinds", len(w.KINDS))
    ctx.assume("token lists handed to convert_compound/convert_mixture have the shape [pairs..., None] | "
               "[pairs..., count, 'n'|'i'] (checked against the grammar under C01)")
