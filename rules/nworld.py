"""Neutron world: generic atoms carrying Neutron records as nsf.init leaves them."""
from __future__ import annotations

import sympy as sp

from ptstat.world import World
from .common import world


def neutron_world(ctx, arrays=(), energy_dependent=(), **kw):
    """World whose atoms Fe, O, H1, ion of Fe56 ... have .neutron records.

    Returns (w, data) with data[atom] = dict(q, m, b, s) symbols.
    b = br - i*bi with bi >= 0 (sign fact C03-R7 checked on the tables)."""
    w = world(ctx, arrays=arrays, **kw)
    I = w.I
    NCls = I.get_class("nsf.Neutron")
    data = {}
    for tag in ("element", "element2", "H1", "isotope", "ion_element", "ion_isotope", "DT", "ion_DT", "H"):
        atom = w.atoms[tag]
        base = atom
        while I.hasattr(base, "element") and tag.startswith("ion"):
            base = I.getattr(base, "element")
            break
        if "neutron" in I.heap[base.id]:
            continue
        t = base.name.replace("#", "")
        nsf = I.instantiate(NCls, [], {}, name=f"nsf_{tag}")
        br = sp.Symbol(f"br_{tag}", real=True)
        bi = sp.Symbol(f"bi_{tag}", nonnegative=True)
        s = sp.Symbol(f"s_{tag}", positive=True)
        el = base
        if I.hasattr(base, "isotope") and "isotope" in I.heap[base.id]:
            el = I.getattr(base, "element")
        # every field the loader fills in (the cross sections that the documented equations do not use are there as well,
        # as opaque positive numbers: code that starts using them changes the result)
        w.set(nsf, b_c=br, b_c_complex=br - sp.I * bi, total=s,
              coherent=sp.Symbol(f"coh_{tag}", positive=True), incoherent=sp.Symbol(f"inc_{tag}", positive=True),
              absorption=sp.Symbol(f"abs_{tag}", positive=True),
              _number_density=I.getattr(el, "number_density"),
              is_energy_dependent=False)
        w.set(base, neutron=nsf)
    if energy_dependent:
        _energy_tables(ctx, w, energy_dependent)
    return w


ED_ENERGIES = (sp.Integer(1), sp.Integer(2), sp.Integer(4))      # eV, increasing like the package's tables


def ed_rows(tag):
    """the generated rows (energy eV, Re, Im, |a|) of the energy table of atom *tag*, in the package's order (increasing energy)"""
    return [(e, sp.Symbol(f"FPr_{tag}_{k + 1}", real=True), sp.Symbol(f"FPi_{tag}_{k + 1}", real=True), sp.Integer(0))
            for k, e in enumerate(ED_ENERGIES)]


def _energy_tables(ctx, w, tags):
    """Energy-dependent records are produced by the package's own energy_dependent_init from a generated table (concrete,
    increasing energies; symbolic scattering lengths), so that whatever the code stores for the lookup is what its readers
    expect - the rules never look at the stored representation."""
    from ptstat import AnalysisError
    from ptstat.symval import SymRaise
    I = w.I
    NCls = I.get_class("nsf.Neutron")
    gen = {}
    for tag in tags:
        atom = w.atoms[tag]
        if "isotope" in I.heap[atom.id] and I.hasattr(atom, "element") and not tag.startswith("ion"):
            key = (I.getattr(I.getattr(atom, "element"), "symbol"), I.getattr(atom, "isotope"))
        else:
            key = (I.getattr(atom, "symbol"), None)
        gen[key] = ed_rows(tag)
        w.set(I.heap[atom.id]["neutron"], is_energy_dependent=True)
    # the initialiser also mixes natural Lu from Lu-175 and Lu-176 (the real tables always hold Lu-176)
    lu = {}
    for A_ in (175, 176, None):
        a = w.element("Lu") if A_ is None else w.isotope("Lu", A_)
        if A_ is None:
            w.give_mass_density(a, "Lu")
        else:
            w.give_iso_mass(a, f"Lu{A_}")
        if "neutron" not in I.heap[a.id]:
            rec = I.instantiate(NCls, [], {}, name=f"nsf_Lu{A_ or ''}")
            w.set(rec, b_c=sp.Symbol(f"br_Lu{A_ or ''}", real=True),
                  b_c_complex=sp.Symbol(f"br_Lu{A_ or ''}", real=True) - sp.I * sp.Symbol(f"bi_Lu{A_ or ''}", nonnegative=True),
                  total=sp.Symbol(f"s_Lu{A_ or ''}", positive=True), is_energy_dependent=A_ != 175,
                  coherent=sp.Symbol(f"coh_Lu{A_ or ''}", positive=True), incoherent=sp.Symbol(f"inc_Lu{A_ or ''}", positive=True),
                  absorption=sp.Symbol(f"abs_Lu{A_ or ''}", positive=True))
            w.set(a, neutron=rec)
    gen.setdefault(("Lu", sp.Integer(176)), ed_rows("Lu176"))
    I.symconst["nsf_tables.ENERGY_DEPENDENT_TABLES"] = gen
    I.module_cache.pop(("nsf_tables", "ENERGY_DEPENDENT_TABLES"), None)
    try:
        I.call(I.global_name("nsf", "energy_dependent_init"), [w.table], {})
    except SymRaise as exc:
        raise AnalysisError(f"nsf.energy_dependent_init on a generated three-row table raises {exc}")


def kernel(ctx):
    """The package function whose result neutron_scattering returns (its last step is a tail call): found through the
    source, not by name."""
    import ast
    fns = ctx.src.func("nsf.neutron_scattering")
    callees = []
    for node in ast.walk(fns.node):
        if isinstance(node, ast.Return) and isinstance(node.value, ast.Call) and isinstance(node.value.func, ast.Name):
            r = ctx.src.resolve(fns.module, node.value.func.id)
            if r and r[0] == "func" and r[1] not in callees:
                callees.append(r[1])
    if len(callees) > 1:
        # early exits may hand back the result of another helper (the values for a vacuum): the kernel is the tail call that
        # ends the function
        last = fns.node.body[-1]
        if isinstance(last, ast.Return) and isinstance(last.value, ast.Call) and isinstance(last.value.func, ast.Name):
            r = ctx.src.resolve(fns.module, last.value.func.id)
            if r and r[0] == "func":
                callees = [r[1]]
    if len(callees) != 1:
        from ptstat import AnalysisError
        raise AnalysisError(f"expected neutron_scattering to return the result of one package function, found {callees}")
    return callees[0]


def kernel_roles(ctx, I, ns, comp, rho, lam):
    """(kernel qual, {role: parameter name}) - the kernel's parameters identified by what neutron_scattering hands them: the
    wavelength itself, the only argument that scales with the density, the complex sum of b_c, the sum of sigma_s."""
    import sympy as sp
    from ptstat import AnalysisError
    from ptstat.symval import SymRaise
    kq = kernel(ctx)
    ksig = [a.arg for a in ctx.src.func(kq).node.args.args]
    seen_call = {}

    def spy(I_, args, kw):
        bound = dict(zip(ksig, args)); bound.update(kw)
        seen_call.update(bound)
        raise SymRaise("StopIteration", "kernel reached")
    I.stubs[kq] = spy
    try:
        I.call(ns, [dict(comp)], {"density": rho, "wavelength": lam})
    except SymRaise:
        pass
    finally:
        del I.stubs[kq]
    roles = {}
    for pname, val in seen_call.items():
        try:
            e = sp.sympify(val)
        except Exception:
            continue
        names = {str(x) for x in e.free_symbols}
        if e == lam:
            roles["wavelength"] = pname
        elif "rho" in names:
            roles["number_density"] = pname
        elif any(n.startswith(("br_", "bi_")) for n in names):
            roles["b_c"] = pname
        elif any(n.startswith("s_") for n in names):
            roles["sigma_s"] = pname
    if set(roles) != {"wavelength", "number_density", "b_c", "sigma_s"}:
        raise AnalysisError(f"cannot identify the arguments neutron_scattering passes to {kq}: {sorted(roles)} of {ksig}")
    return kq, roles


def lookup_nodes(I, rec):
    """(wavelength nodes, complex values) of an energy-dependent Neutron record, observed through the lookup the calculators
    use - scattering_by_wavelength at a symbolic wavelength - whatever the initialiser stored; None when the scattering
    length is not a single interpolation."""
    from ptstat.symlib import interp_f
    from ptstat.symval import SymRaise
    lam = sp.Symbol("lam_probe", positive=True)
    try:
        bce, _ = I.call(I.getattr(rec, "scattering_by_wavelength"), [lam], {})
    except SymRaise:
        return None
    e = sp.sympify(bce)
    apps = [a for a in e.atoms(sp.Function) if a.func == interp_f]
    if len(apps) != 1 or e != apps[0] or apps[0].args[0] != lam:
        return None
    return list(apps[0].args[1].args), list(apps[0].args[2].args)
