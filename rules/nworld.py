"""Neutron world: generic atoms carrying Neutron records as nsf.init leaves them."""
from __future__ import annotations

import sympy as sp

from ptstat.world import World
from .common import world


def neutron_world(ctx, arrays=(), energy_dependent=(), **kw):
    """World whose atoms Fe, O, H1, ion of Fe56 ... have .neutron records.

    Returns (w, data) with data[atom] = dict(q, m, b, s) symbols.
    b = br - i*bi with bi >= 0 (sign fact C03-R7 checked on the tables)."""
    w = world(ctx, arrays=arrays, **kw)
    I = w.I
    NCls = I.get_class("nsf.Neutron")
    data = {}
    for tag in ("element", "element2", "H1", "isotope", "ion_element", "ion_isotope", "DT", "ion_DT", "H"):
        atom = w.atoms[tag]
        base = atom
        while I.hasattr(base, "element") and tag.startswith("ion"):
            base = I.getattr(base, "element")
            break
        if "neutron" in I.heap[base.id]:
            continue
        t = base.name.replace("#", "")
        nsf = I.instantiate(NCls, [], {}, name=f"nsf_{tag}")
        br = sp.Symbol(f"br_{tag}", real=True)
        bi = sp.Symbol(f"bi_{tag}", nonnegative=True)
        s = sp.Symbol(f"s_{tag}", positive=True)
        el = base
        if I.hasattr(base, "isotope") and "isotope" in I.heap[base.id]:
            el = I.getattr(base, "element")
        w.set(nsf, b_c=br, b_c_complex=br - sp.I * bi, total=s,
              _number_density=I.getattr(el, "number_density"),
              is_energy_dependent=False)
        if tag in energy_dependent:
            from ptstat.symval import Vec
            XP = Vec(sp.symbols(f"XP_{tag}_1:4", positive=True))
            FP = Vec([sp.Symbol(f"FPr_{tag}_{k}", real=True) + sp.I * sp.Symbol(f"FPi_{tag}_{k}", real=True) for k in (1, 2, 3)])
            w.set(nsf, nsf_table=(XP, FP), is_energy_dependent=True)
        w.set(base, neutron=nsf)
    return w
