"""C09 - lazy loading is invisible: served values do not depend on access order."""
from __future__ import annotations

import ast

import sympy as sp

from ptstat import AnalysisError
from ptstat.lazy import LazyWorld, Explorer, GROUP_INIT, _short
from ptstat.symval import SymObj, PropertyVal, Closure, SymRaise
from .common import fsite, _s

EXPLANATION = (
    "Typestate closure (K7): the package __init__ (its core.delayed_load registrations) and core.delayed_load "
    "itself (getter, setter and clearprops closures, class-level properties on Element/Isotope/Ion) are "
    "interpreted from the current source, the loaders run on probe tables, and for each registered group "
    "every finite history of first-touch events on the public table - reads of each registered name through "
    "elements, isotopes, ions and isotope ions with and without data, and a direct module.init(elements) - is "
    "explored breadth-first to closure of the reachable abstract states; the outcome of every read on every "
    "transition (value digest or AttributeError) is compared with what the canonical history serves for that "
    "atom and name.  Further: every public attribute a lazy loader writes on atoms or atom classes is "
    "registered, with the isotope=/ion= flag of each class it is written on; registered name sets are "
    "disjoint; no module touches a table at import time other than through a registered loader.  Not "
    "decided: the numbers served (C06, C07, C20) - only which source serves each name.")

TECHNIQUE = "static analysis: typestate closure over an abstract machine extracted from core.delayed_load and the loaders (abstract interpretation), effect sets of the loaders vs registrations"

LEVEL_NOTE = ("Trusted: the interpreter's model of Python attribute lookup (data descriptor, instance, class, __getattr__), of "
              "property/setattr/delattr on classes and of closures; probe tables instead of the real tables (which source serves a name does not depend on the numbers).")


def run(ctx):
    lw = LazyWorld(ctx.src)
    I = lw.I
    regs = lw.registrations
    ctx.unit("registered_groups", len(regs))
    total_states = total_trans = 0
    samples = []
    for reg in regs:
        site = f"periodictable/__init__.py core.delayed_load({reg.names})"
        ex = Explorer(lw, reg, private=0).run()
        total_states += ex.states
        total_trans += ex.transitions
        samples += [{"group": reg.key, "history": h} for h in ex.samples[:2]]
        seen = set()
        for hk, labels, msg, cause in sorted(ex.failures, key=lambda f: len(f[0])):
            k = tuple(hk)
            if k in seen:
                continue
            seen.add(k)
            ctx.fail("R1", f"group {reg.key}: history [{' ; '.join(hk)}]",
                     f"after [{' ; '.join(labels[:-1])}] {msg}", site, witness=labels)
        if not ex.failures:
            ctx.ok("R1", f"group {reg.key}: every read in every history serves what the canonical order serves", site=site,
                   sample={"states": ex.states, "transitions": ex.transitions, "example history": ex.samples[-1] if ex.samples else []})
        # hasattr probes agree with the canonical outcome (hasattr is a read that swallows AttributeError)
    # cross-group: loading one group (by a read or by a direct init) leaves what the other groups serve unchanged
    canon = {}
    for reg in regs:
        lw.restore(lw.boot_snapshot)
        A = lw.atoms(lw.P)
        lw.read(A["Fe"], reg.names[0])
        canon[reg.key] = {(an, nm): lw.read(a, nm) for an, a in A.items() for nm in reg.names}
    npairs = 0
    for g1 in regs:
        for how in ("read", "init"):
            for g2 in regs:
                if g2.key == g1.key:
                    continue
                lw.restore(lw.boot_snapshot)
                A = lw.atoms(lw.P)
                try:
                    if how == "read":
                        lw.read(A["Fe[56]"], g1.names[0])
                    else:
                        lw.init_call(g1.key, lw.P)()
                except SymRaise:
                    continue
                bad = [(an, nm, lw.read(A[an], nm)) for (an, nm), want in canon[g2.key].items() if lw.read(A[an], nm) != want]
                npairs += 1
                if bad:
                    ctx.fail("R3", f"loading {g1.key} ({how}) then reading {g2.key}",
                             f"after {g1.key} was loaded by a {how}, {bad[0][0]}.{bad[0][1]} serves {_short(bad[0][2], 70)} instead of "
                             f"{_short(canon[g2.key][(bad[0][0], bad[0][1])], 70)}", f"periodictable/__init__.py core.delayed_load({g2.names})")
    ctx.ok("R3", "loading any group (by a read or a direct init) does not change what the other groups serve", site="periodictable/__init__.py",
           sample={"ordered pairs x 2 ways": npairs})
    ctx.extra["states"] = total_states
    ctx.extra["transitions"] = total_trans
    ctx.extra["traces_validated_against_impl"] = 0
    ctx.samples[:0] = samples[:6]
    ctx.floor("R1", 7)

    _same_file_key(ctx, lw)
    # ---- R2 registration covers what the loaders write ---------------------------------------------
    by_loader = {}
    for reg in regs:
        # one loader per (function, module initialiser it stands for): closures made by one helper share their qualified name
        by_loader.setdefault((reg.loader.qual, GROUP_INIT.get(reg.key)), []).append(reg)
    atom_classes = ("Element", "Isotope", "Ion")
    for (lq, ginit), rs in by_loader.items():
        if ginit is not None and lq.count(".") > 1:
            lq = f"{lq} [{ginit[0]}.{ginit[1]}]"
        lw.restore(lw.boot_snapshot)
        before = {oid: set(d) for oid, d in I.heap.items()}
        cbefore = {c: dict(I.classes["core." + c].attrs) for c in atom_classes}
        I.call(rs[0].loader, [], {})
        written = {}          # name -> set of classes it was written on (instance or class level)
        for oid, d in I.heap.items():
            new = set(d) - before.get(oid, set())
            if not new:
                continue
            owner = next((o for o in _objs(I) if o.id == oid), None)
            if owner is None or owner.cls is None or owner.cls.name not in atom_classes:
                continue
            for nm in new:
                written.setdefault(nm, set()).add(owner.cls.name)
        for c in atom_classes:
            for nm, v in I.classes["core." + c].attrs.items():
                if cbefore[c].get(nm, None) is not v and not (isinstance(cbefore[c].get(nm), PropertyVal) and nm not in I.classes["core." + c].attrs):
                    if not (isinstance(v, PropertyVal) and isinstance(v.fget, Closure) and v.fget.qual.startswith("core.delayed_load")):
                        written.setdefault(nm, set()).add(c + " (class)")
        registered = {nm: r for r in rs for nm in r.names}
        site = f"periodictable/__init__.py {lq}"
        for nm, classes in sorted(written.items()):
            if nm.startswith("_"):
                continue
            r = registered.get(nm)
            ctx.check(r is not None, "R2", f"loader {lq.split('.')[-1]}: attribute '{nm}' it writes on atoms is registered for delayed loading",
                      f"'{nm}' is written on {sorted(classes)} by the loader but not registered: reading it before the group's first touch "
                      f"raises AttributeError, afterwards it is served", site)
            if r is None:
                continue
            for c in classes:
                base = c.split(" ")[0]
                flag = {"Element": r.element, "Isotope": r.isotope, "Ion": r.ion}[base]
                # instance data on isotopes/ions is only reached first through that class's own pending property
                needs = base in ("Isotope", "Ion") or "(class)" in c
                ctx.check(flag or not needs, "R2", f"'{nm}' is written on {c}: registered with {base.lower()}=True",
                          f"'{nm}' is written on {c} but registered with {base.lower()}=False: the first read through an {base} is delegated "
                          f"to the element and serves the element's value", site)
        ctx.unit("loader_written_attributes", len([n for n in written if not n.startswith("_")]))
    ctx.floor("R2", 12)

    # ---- R3 groups are independent -------------------------------------------------------------------
    allnames = [nm for r in regs for nm in r.names]
    ctx.check(len(allnames) == len(set(allnames)), "R3", "registered names are pairwise distinct across groups",
              f"duplicates {[n for n in allnames if allnames.count(n) > 1]}", "periodictable/__init__.py")
    for reg in regs:
        ctx.check(reg.key in GROUP_INIT or any(n in GROUP_INIT for n in reg.names), "R3", f"group {reg.key}: loader module known to the analysis",
                  "unknown lazy group: the analysis has no init function for it", "periodictable/__init__.py")
    # ---- R4 no table effect at import time outside registered loaders ---------------------------------
    for mname, m in ctx.src.modules.items():
        for st in m.tree.body:
            for node in ast.walk(st) if not isinstance(st, (ast.FunctionDef, ast.ClassDef)) else []:
                if isinstance(node, ast.Call):
                    fn = node.func
                    nm = fn.attr if isinstance(fn, ast.Attribute) else fn.id if isinstance(fn, ast.Name) else ""
                    if nm in ("init", "init_spectral_lines", "energy_dependent_init") and mname != "__init__":
                        ctx.fail("R4", f"{mname}: module-level call {ast.unparse(node)[:50]}",
                                 "a table is initialised at import time, outside the delayed-load machinery", ctx.src.where(mname, node))
                if isinstance(node, ast.Assign):
                    for t in node.targets:
                        if isinstance(t, ast.Attribute) and isinstance(t.value, ast.Name) and t.value.id in ("Element", "Isotope", "Ion"):
                            ctx.fail("R4", f"{mname}: module-level write {ast.unparse(t)}",
                                     "an atom class is modified at import time", ctx.src.where(mname, node))
    eager_calls = [st.value for st in ctx.src.module("__init__").tree.body
                   if isinstance(st, ast.Expr) and isinstance(st.value, ast.Call) and ast.unparse(st.value.func).endswith(".init")]
    eager = [ast.unparse(c) for c in eager_calls]
    on_public = all(len(c.args) + len(c.keywords) == 1 and isinstance((c.args + [k.value for k in c.keywords])[0], ast.Name)
                    and (c.args + [k.value for k in c.keywords])[0].id == "elements" for c in eager_calls)
    ctx.check(sorted(ast.unparse(c.func) for c in eager_calls) == ["density.init", "mass.init"] and on_public, "R4",
              "only mass and density are loaded eagerly at import (the prerequisites of the lazy loaders), on the public table",
              f"eager: {eager}", "periodictable/__init__.py")
    ctx.floor("R4", 1)


def _objs(I):
    if not hasattr(I, "_objcache") or len(I._objcache) != len(I.heap):
        import gc
        from ptstat.symval import SymObj as SO
        I._objcache = {o.id: o for o in gc.get_objects() if isinstance(o, SO) and o.id in I.heap}
    return I._objcache.values()


def _same_file_key(ctx, lw):
    """Atoms whose symbols differ only in case (the neutron 'n' and nitrogen 'N') would name the same data file: what each
    serves from its x-ray record (table, scattering factors) is what it serves alone, whichever of them was asked first."""
    import sympy as sp
    I = lw.I
    syms = {}
    for z in range(0, 119):
        try:
            e = I.lib.subscript(I, lw.P, sp.Integer(z))
        except SymRaise:
            continue
        syms.setdefault(str(I.heap[e.id].get("symbol")).lower(), []).append(z)
    clashes = [zs for zs in syms.values() if len(zs) > 1]
    site = "periodictable/xsf.py Xray (data file named by the lower-cased symbol)"
    lw.restore(lw.boot_snapshot)
    base = lw.snapshot()

    def served(z, what):
        a = I.lib.subscript(I, lw.P, sp.Integer(z))
        try:
            x = I.getattr(a, "xray")
            v = I.getattr(x, what)
            if what == "scattering_factors":
                v = I.call(v, [], {"energy": sp.Rational(1, 50)})
            return ("value", lw.digest(v))
        except SymRaise as e:
            return ("raises " + e.exc,)
    n = 0
    for zs in clashes:
        for what in ("sftable", "scattering_factors"):
            alone = {}
            for z in zs:
                lw.restore(base)
                alone[z] = served(z, what)
            for first in zs:
                for second in zs:
                    if first == second:
                        continue
                    lw.restore(base)
                    served(first, what)
                    got = served(second, what)
                    n += 1
                    ctx.check(got == alone[second], "R3", f"x-ray {what} of element {second} after element {first} (same lower-cased symbol) was asked first",
                              f"serves {_short(got, 90)} instead of {_short(alone[second], 90)}", site)
    lw.restore(base)
    ctx.check(n >= 4, "R3", "self-check: the table has atoms whose symbols differ only in case (n / N)", f"{clashes}", site)
