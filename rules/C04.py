"""C04 - neutron results obey density, cell-size, grouping, unit and vector invariances."""
from __future__ import annotations

import ast

import sympy as sp

from ptstat.world import mass_sym

from ptstat import AnalysisError, algebra
from ptstat.symval import SymRaise
from ptstat.taint import tainted_names, reductions_over
from spec import neutron as spec
from .common import eq, fsite, folder, _s, constants_lint, public_entry_points
from .nworld import neutron_world

EXPLANATION = (
    "Derived from the value graphs of neutron_scattering/_calculate_scattering built from the current "
    "source (no extra oracle): degree of homogeneity of each of the seven outputs in the density "
    "(1, 1, 1, 1, 1, 1, -1) and in a common scale of all counts (0); identity of the results for "
    "regrouped/reordered structures; identity of energy= with the converted wavelength=; the "
    "conversion functions as symbolic identities (E->lambda->E, E*lambda^2, v*lambda) and the folded "
    "constants against the documented anchor 1.798 A = 2200 m/s = 25.3 meV; a dataflow (taint) pass "
    "showing that no reduction or indexing is applied along the wavelength axis and that the array "
    "branch equals the scalar branch element-wise; and a syntactic sign analysis (abs, max(.,0), "
    "squares, products of non-negatives) of the imaginary/incoherent SLD, the cross sections and the "
    "penetration depth.  Not decided: float rounding.")


def _run(ctx):
    from .common import array_hazard_sweep
    array_hazard_sweep(ctx, "R5", ("nsf",), "a vector call then disagrees with the scalar calls, and energy= with the equivalent wavelength=, once the caller's array has been changed")
    lam = sp.Symbol("lam", positive=True)
    rho = sp.Symbol("rho", positive=True)
    w = neutron_world(ctx)
    I, A = w.I, w.atoms
    ns = I.global_name("nsf", "neutron_scattering")
    q = sp.symbols("q1:4", positive=True)
    Fe, O, H = A["element"], A["element2"], A["H"]
    comp = {Fe: q[0], O: q[1], H: q[2]}
    site = fsite(ctx, "nsf.neutron_scattering")
    from .nworld import kernel, kernel_roles
    kq, kroles = kernel_roles(ctx, I, ns, comp, rho, lam)
    cs = fsite(ctx, kq)
    M = q[0] * mass_sym("Fe") + q[1] * mass_sym("O") + q[2] * mass_sym("H")
    nz = [rho * M]
    got = spec.unpack(I.call(ns, [dict(comp)], {"density": rho, "wavelength": lam}))
    try:
        main = {k: algebra.main_arm(got[k], nz) for k in spec.OUTPUTS}
    except AnalysisError:
        main = dict(got)          # a guard that is not an exact zero test: analyse the guarded expression as a whole

    # R1 homogeneity
    for k in spec.OUTPUTS:
        want = -1 if k == "penetration" else 1
        d = algebra.homogeneity(main[k], [rho], ctx.seed, nonzero=nz)
        ctx.check(d == want, "R1", f"{k} has degree {want} in the density",
                  f"{k} scales as density**{d}; expected degree {want}", cs, sample={"degree": str(d)})
        d = algebra.homogeneity(main[k], list(q), ctx.seed, nonzero=nz)
        ctx.check(d == 0, "R1", f"{k} is unchanged when every count is multiplied by the same constant",
                  f"{k} has degree {d} in a common scale of the counts (depends on the size of the formula unit)", cs,
                  sample={"degree": str(d)})
    ctx.floor("R1", 14)

    # R2 grouping / order independence
    from .common import attr_reads_through
    f = ctx.src.func("nsf.neutron_scattering")
    first = (f.node.args.posonlyargs + f.node.args.args)[0].arg
    reads = attr_reads_through(ctx, "nsf.neutron_scattering", first)
    ctx.check(reads <= {"atoms", "density"} and "atoms" in reads, "R2",
              "the calculation reads the compound only through .atoms and .density",
              f"neutron_scattering also reads {sorted(reads - {'atoms', 'density'})} of the compound "
              "(structure/grouping can influence the result)", site, sample=sorted(reads))
    n = sp.Symbol("n", positive=True)
    grouped = [(n, [(q[0], Fe), (q[1], O)]), (q[2], H), (q[1], O)]
    flat = [(q[2], H), (n * q[1] + q[1], O), (n * q[0], Fe)]
    g1 = spec.unpack(I.call(ns, [grouped], {"density": rho, "wavelength": lam}))
    g2 = spec.unpack(I.call(ns, [flat], {"density": rho, "wavelength": lam}))
    Mg = n * q[0] * mass_sym("Fe") + (n + 1) * q[1] * mass_sym("O") + q[2] * mass_sym("H")
    for k in spec.OUTPUTS:
        eq(ctx, "R2", f"{k}: grouped/reordered formula = flat formula with the same atoms", g1[k], g2[k], site,
           nonzero=[rho * Mg])
    ctx.floor("R2", 8)

    # R3 energy= agrees with wavelength=
    E = sp.Symbol("E", positive=True)
    EF = I.global_name("nsf", "ENERGY_FACTOR")
    ge = spec.unpack(I.call(ns, [dict(comp)], {"density": rho, "energy": E}))
    gw = spec.unpack(I.call(ns, [dict(comp)], {"density": rho, "wavelength": sp.sqrt(EF / E)}))
    for k in spec.OUTPUTS:
        eq(ctx, "R3", f"{k}: energy=E equals wavelength=neutron_wavelength(E)", ge[k], gw[k], site, nonzero=nz)
    gb = spec.unpack(I.call(ns, [dict(comp)], {"density": rho, "energy": E, "wavelength": lam}))
    eq(ctx, "R3", "energy= takes precedence over wavelength= (documented)", gb["abs_xs"], ge["abs_xs"], site, nonzero=nz)
    ctx.floor("R3", 8)   # (7 more below, with an energy-dependent isotope)

    # R4 conversions
    nw = I.global_name("nsf", "neutron_wavelength")
    ne = I.global_name("nsf", "neutron_energy")
    nv = I.global_name("nsf", "neutron_wavelength_from_velocity")
    VF = I.global_name("nsf", "VELOCITY_FACTOR")
    v = sp.Symbol("v", positive=True)
    eq(ctx, "R4", "neutron_energy(neutron_wavelength(E)) = E", I.call(ne, [I.call(nw, [E], {})], {}), E,
       fsite(ctx, "nsf.neutron_energy"))
    eq(ctx, "R4", "neutron_wavelength(neutron_energy(lambda)) = lambda", I.call(nw, [I.call(ne, [lam], {})], {}), lam,
       fsite(ctx, "nsf.neutron_wavelength"))
    eq(ctx, "R4", "E * lambda(E)^2 = ENERGY_FACTOR", E * I.call(nw, [E], {}) ** 2, EF, fsite(ctx, "nsf.neutron_wavelength"))
    eq(ctx, "R4", "v * lambda(v) = VELOCITY_FACTOR", v * I.call(nv, [v], {}), VF,
       fsite(ctx, "nsf.neutron_wavelength_from_velocity"))
    # E = m v^2 / 2 consistency of the two factors: ENERGY_FACTOR = VELOCITY_FACTOR^2 * m_n*u/(2 eV) * 1e3
    mn, u, eV = sp.Symbol("m_n", positive=True), sp.Symbol("u", positive=True), sp.Symbol("eV", positive=True)
    eq(ctx, "R4", "the energy and velocity factors describe the same neutron (E = m v^2/2 in meV)",
       EF, VF ** 2 * mn * u / (2 * eV) * 1000, "periodictable/nsf.py ENERGY_FACTOR/VELOCITY_FACTOR")
    F = folder(ctx)
    efn, vfn = F.const("nsf", "ENERGY_FACTOR"), F.const("nsf", "VELOCITY_FACTOR")
    a1 = vfn / 2200.0
    ctx.check(abs(a1 - 1.798) < 5e-4, "R4", "documented anchor: 2200 m/s is 1.798 A (4 s.f.)",
              f"VELOCITY_FACTOR/2200 = {a1:.6g}", "periodictable/nsf.py VELOCITY_FACTOR", sample=a1)
    a2 = efn / 1.798 ** 2
    ctx.check(abs(a2 - 25.3) < 0.05, "R4", "documented anchor: 1.798 A is 25.3 meV (3 s.f.)",
              f"ENERGY_FACTOR/1.798^2 = {a2:.6g}", "periodictable/nsf.py ENERGY_FACTOR", sample=a2)
    aw = F.const("nsf", "ABSORPTION_WAVELENGTH")
    ctx.check(aw == 1.798, "R4", "ABSORPTION_WAVELENGTH is the documented 1.798 A", f"is {aw}", "periodictable/nsf.py")
    ctx.floor("R4", 8)

    # R5 element-wise in the wavelength
    wv = neutron_world(ctx, arrays=[lam])
    Iv, Av = wv.I, wv.atoms
    compv = {Av["element"]: q[0], Av["element2"]: q[1], Av["H"]: q[2]}
    gv = spec.unpack(Iv.call(Iv.global_name("nsf", "neutron_scattering"), [compv], {"density": rho, "wavelength": lam}))
    for k in spec.OUTPUTS:
        eq(ctx, "R5", f"{k}: array branch, element i = scalar call at wavelength i", gv[k], got[k], site, nonzero=nz)
    for qual, seeds in (("nsf.neutron_scattering", {"wavelength", "energy"}),
                        (kq, {kroles["wavelength"], kroles["b_c"], kroles["sigma_s"]}),
                        ("nsf.Neutron.scattering_by_wavelength", {"wavelength"}),
                        ("nsf.Neutron.scattering", {"wavelength"})):
        fn = ctx.src.func(qual)
        t = tainted_names(fn.node, seeds)
        bad = reductions_over(fn.node, t, allow=("max", "min") if False else ())
        ctx.check(not bad, "R5", f"no reduction or indexing along the wavelength axis in {qual}",
                  "wavelength-dependent value is reduced/indexed: " + "; ".join(ast.unparse(b)[:60] for b in bad),
                  fsite(ctx, qual), sample={"wavelength-dependent names": sorted(t)})
    # the same with the wavelengths as an explicit numpy vector [lam1, lam2] and an energy-dependent isotope: arrays are
    # objects here, so in-place updates of the caller's grid and state kept between calls are visible
    from ptstat.symval import Vec
    we = neutron_world(ctx, energy_dependent=("H1",))
    Ie, Ae = we.I, we.atoms
    compe = {Ae["element"]: q[0], Ae["element2"]: q[1], Ae["H1"]: q[2]}
    lams = sp.symbols("lam1 lam2", positive=True)
    nse = Ie.global_name("nsf", "neutron_scattering")
    scal = [spec.unpack(Ie.call(nse, [dict(compe)], {"density": rho, "wavelength": l})) for l in lams]
    Me = q[0] * mass_sym("Fe") + q[1] * mass_sym("O") + q[2] * mass_sym("H1")
    grid = Vec(lams)
    for call_no in (1, 2):
        gvec = spec.unpack(Ie.call(nse, [dict(compe)], {"density": rho, "wavelength": grid}))
        ctx.check(list(grid.items) == list(lams), "R5", f"the caller's wavelength array is left untouched (call {call_no})",
                  f"the array now holds {_s(grid.items)}", site)
        for k in spec.OUTPUTS:
            v = gvec[k]
            items = list(v.items) if isinstance(v, Vec) else [v, v]
            if len(items) != 2:
                ctx.fail("R5", f"{k}: one value per wavelength (call {call_no})", f"returned {_s(v)}", site)
                continue
            for j in (0, 1):
                eq(ctx, "R5", f"{k}: explicit wavelength vector, element {j} = scalar call at that wavelength (call {call_no})",
                   items[j], scal[j][k], site, nonzero=[rho * Me])
    # ... and as a vector of whole numbers (an integer array: a result built "like" the input must not inherit its dtype)
    whole = (sp.Integer(3), sp.Integer(4))
    scal_i = [spec.unpack(Ie.call(nse, [dict(compe)], {"density": rho, "wavelength": l})) for l in whole]
    gveci = spec.unpack(Ie.call(nse, [dict(compe)], {"density": rho, "wavelength": Vec(whole)}))
    for k in spec.OUTPUTS:
        v = gveci[k]
        items = list(v.items) if isinstance(v, Vec) else [v, v]
        for j in (0, 1):
            if len(items) == 2:
                eq(ctx, "R5", f"{k}: vector of whole-number wavelengths, element {j} = scalar call at that wavelength",
                   items[j], scal_i[j][k], site, nonzero=[rho * Me])
    # ... the same for a compound without an energy-dependent isotope (every per-atom term is a scalar there)
    comps_ = {Ae["element"]: q[0], Ae["element2"]: q[1]}
    scal_s = [spec.unpack(Ie.call(nse, [dict(comps_)], {"density": rho, "wavelength": l})) for l in whole]
    gvecs = spec.unpack(Ie.call(nse, [dict(comps_)], {"density": rho, "wavelength": Vec(whole)}))
    for k in spec.OUTPUTS:
        v = gvecs[k]
        items = list(v.items) if isinstance(v, Vec) else [v, v]
        for j in (0, 1):
            if len(items) == 2:
                eq(ctx, "R5", f"{k}: vector of whole-number wavelengths, compound of energy-independent atoms, element {j} = scalar call",
                   items[j], scal_s[j][k], site, nonzero=[rho * (q[0] * mass_sym("Fe") + q[1] * mass_sym("O"))])
    # a vector of one wavelength (or one energy) is still a vector: one-element vectors come back, not scalars
    for how, kw1, ref in (("wavelength=[lam]", {"wavelength": Vec([lams[0]])}, {"wavelength": lams[0]}),
                          ("energy=[E]", {"energy": Vec([E])}, {"energy": E})):
        one = spec.unpack(Ie.call(nse, [dict(comps_)], dict(kw1, density=rho)))
        ref_ = spec.unpack(Ie.call(nse, [dict(comps_)], dict(ref, density=rho)))
        for k in spec.OUTPUTS:
            v = one[k]
            ctx.check(isinstance(v, Vec) and len(v.items) == 1, "R5", f"{k}: {how} returns a vector of one entry",
                      f"returned {_s(v)} ({'a scalar' if not isinstance(v, Vec) else 'length %d' % len(v.items)})", site)
            if isinstance(v, Vec) and len(v.items) == 1:
                eq(ctx, "R5", f"{k}: {how}, the entry = scalar call", v.items[0], ref_[k], site,
                   nonzero=[rho * (q[0] * mass_sym("Fe") + q[1] * mass_sym("O"))])
    # R3 again, for a compound with an energy-dependent isotope (its scattering length is looked up in a table: the
    # lookup must be the same whichever of energy= / wavelength= named the beam)
    EFe = Ie.global_name("nsf", "ENERGY_FACTOR")
    gee = spec.unpack(Ie.call(nse, [dict(compe)], {"density": rho, "energy": E}))
    gwe = spec.unpack(Ie.call(nse, [dict(compe)], {"density": rho, "wavelength": sp.sqrt(EFe / E)}))
    for k in spec.OUTPUTS:
        eq(ctx, "R3", f"{k}: energy=E equals wavelength=neutron_wavelength(E) with an energy-dependent isotope", gee[k], gwe[k], site,
           nonzero=[rho * Me])
    # the SLD-only entry points name the beam the same way (module function, deprecated alias, Formula method)
    slds = ("sld_re", "sld_im", "sld_inc")
    fme = Ie.call(Ie.global_name("formulas", "formula"), [dict(compe)], {"density": rho})
    routes = [("nsf.neutron_sld", lambda **kw: Ie.call(Ie.global_name("nsf", "neutron_sld"), [dict(compe)], dict(kw, density=rho))),
              ("Formula.neutron_sld", lambda **kw: Ie.call(Ie.getattr(fme, "neutron_sld"), [], dict(kw)))]
    if ctx.src.has_func("nsf.neutron_sld_from_atoms"):
        routes.append(("nsf.neutron_sld_from_atoms", lambda **kw: Ie.call(Ie.global_name("nsf", "neutron_sld_from_atoms"), [dict(compe)], dict(kw, density=rho))))
    for rname, route in routes:
        se = route(energy=E)
        sw = route(wavelength=sp.sqrt(EFe / E))
        for k, a_, b_, ref in zip(slds, se, sw, (gee[k_] for k_ in slds)):
            eq(ctx, "R3", f"{k}: {rname}(energy=E) equals {rname}(wavelength=neutron_wavelength(E)) with an energy-dependent isotope", a_, b_,
               fsite(ctx, rname if rname.startswith("nsf.") else "formulas.Formula.neutron_sld"), nonzero=[rho * Me])
            eq(ctx, "R3", f"{k}: {rname}(energy=E) is neutron_scattering(energy=E)'s value", a_, ref,
               fsite(ctx, rname if rname.startswith("nsf.") else "formulas.Formula.neutron_sld"), nonzero=[rho * Me])
    ctx.floor("R5", 55)
    ctx.floor("R3", 27)

    # R6 signs: on the scattering kernel itself with opaque inputs, so that the structure
    # (abs, max(.,0), squares) is what decides the sign - not the particular composition
    # the kernel is the package function whose result neutron_scattering returns (tail call), found through the call graph
    callees = [kq]
    kern = I.global_name(*kq.split(".", 1))
    N = sp.Symbol("N", positive=True)
    B = sp.Symbol("B", complex=True)
    ss = sp.Symbol("sigma_s", nonnegative=True)
    roles = kroles
    kout = spec.unpack(I.call(kern, [], {roles["number_density"]: N, roles["wavelength"]: lam, roles["b_c"]: B, roles["sigma_s"]: ss}))
    for k in ("sld_im", "sld_inc", "coh_xs", "abs_xs", "inc_xs", "penetration"):
        ctx.check(algebra.nonneg(kout[k]), "R6", f"{k} >= 0 for positive number density and wavelength, any complex b_c",
                  f"sign of {_s(kout[k], 160)} is not determined by abs/max/squares", fsite(ctx, callees[0]),
                  sample=_s(kout[k], 160))
    public_entry_points(ctx, "RW", [("neutron_sld", "nsf.neutron_sld"), ("neutron_scattering", "nsf.neutron_scattering")])
    ctx.floor("R6", 6)
    constants_lint(ctx, "R4", ["plancks_constant", "electron_volt", "neutron_mass", "atomic_mass_constant"],
                   "lambda = h / sqrt(2 m_n E): the wavelength/energy/velocity conversions")
    ctx.unit("functions_inlined", len(set(I.calls)))
    ctx.assume("Im b_c <= 0 and sigma_s > 0 for every atom (table facts checked under C03-R7)")


def run(ctx):
    from spec.neutron import ConditionalResult
    try:
        _run(ctx)
    except ConditionalResult as cr:
        # a result whose *shape* depends on the data (None for some values of the data, numbers otherwise) wherever it turns up
        ctx.fail("R1", "neutron results have the same shape for every atom with neutron data",
                 f"the shape of a result depends on the data: {str(cr)[:300]} (an atom with b_c = 0, such as natural Sm, is not 'missing')",
                 fsite(ctx, "nsf.neutron_scattering"))
