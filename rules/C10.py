"""C10 - private tables are isolated from the public table and from each other."""
from __future__ import annotations

import ast

import sympy as sp

from ptstat import AnalysisError
from ptstat.lazy import LazyWorld, Explorer, GROUP_INIT, _short
from ptstat.symval import SymObj, PropertyVal, Closure, SymRaise
from ptstat.world import World
from .common import world, fsite, raises, _s, callees_in_common, eq

EXPLANATION = (
    "The typestate machine of C09 is extended with private tables: for each lazy group every interleaving of "
    "module.init(T) on private tables (one in the quick tier, two in the thorough tier) with reads of the "
    "public table through elements, isotopes and ions and with init(elements) is explored to closure of the "
    "abstract states; every read of the public table must serve what the canonical history serves, a freshly "
    "initialised private table must serve the same values as the public one, and no mutable object may be "
    "reachable from the data of both tables (identity analysis on the abstract heap after both are loaded: "
    "a shared object means that mutating one table's data changes the other's).  The propagation of table= "
    "through formula(), mix_by_weight/volume, parse_formula's per-table grammar cache, neutron_scattering and "
    "the D2O routines is decided on the value graph with a recording stub for the parser.  Pickles restore "
    "into their own table: C08-R3.")

TECHNIQUE = "static analysis: typestate closure with private tables, alias (identity) analysis on the abstract heap, dataflow of the table argument"

LEVEL_NOTE = ("Trusted: the interpreter's model of Python attribute lookup, class-level properties and closures; probe tables instead of the "
              "real tables.  Known findings (documented in DESIGN.md section 6) are listed in known_findings.json by group / construct.")


def _two_grammars(ctx, I3, w3, TB, pf3, texts, syms):
    rr4 = raises(lambda: [I3.call(pf3, [t_], {"table": tb_}) for tb_ in (w3.table, TB) for t_ in texts])
    if rr4 is not None:
        ctx.fail("R4", "strings parsed for T after a grammar for another table was built hold T's atoms", f"parsing raises {rr4}", fsite(ctx, "formulas.formula_grammar"))
    else:
        for t_ in texts:
            for tb_, nm_ in ((w3.table, "T"), (TB, "the second table"), (w3.table, "T again")):
                p_ = I3.call(pf3, [t_], {"table": tb_})
                want_ = {id(I3.heap[tb_.id].get(s_)) for s_ in syms[t_]}
                got_ = I3.getattr(p_, "atoms")
                ctx.check(isinstance(got_, dict) and set(map(id, got_)) == want_, "R4",
                          f"{t_!r} parsed for {nm_} (grammars of two tables alive) holds that table's own atoms",
                          f"atoms {sorted(map(repr, got_)) if isinstance(got_, dict) else got_} are not all atoms of the table asked for: part of the grammar is shared between tables",
                          fsite(ctx, "formulas.formula_grammar"), witness=t_)


def run(ctx):
    lw = LazyWorld(ctx.src)
    I = lw.I
    nprivate = 2 if ctx.thorough else 1
    total_states = total_trans = 0
    for reg in lw.registrations:
        mod, fn = GROUP_INIT[reg.key]
        site = fsite(ctx, f"{mod}.{fn}")
        ex = Explorer(lw, reg, private=nprivate, max_states=6000).run()
        total_states += ex.states
        total_trans += ex.transitions
        seen = set()
        pf_reported = False
        for hk, labels, msg, cause in sorted(ex.failures, key=lambda f: len(f[0])):
            if cause == "private-first":
                if not pf_reported:
                    pf_reported = True
                    ctx.fail("R1", f"private-first: {mod}.{fn}(T) before the public {reg.key} group is first touched",
                             f"after [{' ; '.join(labels[:-1])}] {msg}: initialising a private table first discards the public table's pending loader, "
                             f"so the public table is never loaded", site, witness=labels)
                continue
            k = tuple(hk)
            if k in seen:
                continue
            seen.add(k)
            ctx.fail("R1", f"group {reg.key}: history [{' ; '.join(hk)}]", f"after [{' ; '.join(labels[:-1])}] {msg}", site, witness=labels)
        if not ex.failures:
            ctx.ok("R1", f"group {reg.key}: no interleaving of init(T) with public reads changes what the public table serves", site=site,
                   sample={"states": ex.states, "transitions": ex.transitions, "example": ex.samples[-1] if ex.samples else []})
        elif not seen and pf_reported:
            ctx.ok("R1", f"group {reg.key}: apart from private-first histories every interleaving serves the canonical values", site=site,
                   sample={"states": ex.states, "transitions": ex.transitions})
        # a freshly initialised private table serves the public values
        diffs = ex.private_serves_canonical()
        ctx.check(not diffs, "R1", f"group {reg.key}: a freshly initialised private table serves the same values as the public one",
                  f"{diffs[:3]}", site)
        diffs0 = ex.private_serves_canonical(public_first=False)
        ctx.check(not diffs0, "R1", f"group {reg.key}: a private table initialised before the public group was ever touched serves the table's own values",
                  f"{diffs0[:3]}", site)
        # R3 no shared mutable data
        shared = ex.shared_mutables()
        kinds = {}
        for an, nm, dig, obj in shared:
            what = obj.cls.name if isinstance(obj, SymObj) and obj.cls else type(obj).__name__
            kinds.setdefault((nm, what), []).append(an)
        for (nm, what), ans in sorted(kinds.items()):
            ctx.fail("R3", f"group {reg.key}: a mutable {what} object is shared between tables through '{nm}'",
                     f"the same {what} object is served by the public and by a private table for {sorted(set(ans))[:4]}: "
                     f"mutating one table's data changes the other's", site, witness=sorted(set(ans)))
        if not shared:
            ctx.ok("R3", f"group {reg.key}: no mutable object is reachable from the data of both tables", site=site)
        # ... and initialising a later table does not replace the objects already served (data edited in place would be lost)
        lost_all = ex.stable_across_later_init()
        lost = [x for x in lost_all if not x[4]]
        ctx.check(not lost, "R3", f"group {reg.key}: the atoms' own objects served by the public and by an earlier private table survive the "
                  "initialisation of a later table",
                  f"after {mod}.{fn}(T2), {lost[0][0]}.{lost[0][1]}.{lost[0][2]} is {lost[0][3]}: per-atom data edited in place on that table is "
                  f"silently replaced ({len(lost)} attributes)" if lost else "", site)
        lost_d = [x for x in lost_all if x[4]]
        if lost_d:
            # the class-level default: one construct, reported once per group
            ctx.fail("R3", f"group {reg.key}: the class-level default object served for data-less atoms is replaced by every later {mod}.{fn}(T)",
                     f"after {mod}.{fn}(T2), {lost_d[0][0]}.{lost_d[0][1]}.{lost_d[0][2]} is {lost_d[0][3]}: the default is a class attribute that each "
                     f"init re-creates, so what a data-less atom of any table serves changes when another table is initialised", site)
    # cross-group: init(T) of one group must not disturb what the public table serves for the other groups
    canon = {}
    for reg in lw.registrations:
        lw.restore(lw.boot_snapshot)
        A = lw.atoms(lw.P)
        canon[reg.key] = {(an, nm): lw.read(a, nm) for an in ("Fe", "H[1]", "Cu", "He") if an in A for a in [A[an]] for nm in reg.names}
    for reg in lw.registrations:
        mod, fn = GROUP_INIT[reg.key]
        lw.restore(lw.boot_snapshot)
        T = lw.new_private(f"Tx_{reg.key}")
        base = lw.snapshot()
        for other in lw.registrations:
            if other.key == reg.key or GROUP_INIT[other.key] == (mod, fn):
                continue
            lw.restore(base)
            try:
                lw.init_call(reg.key, T)()
            except SymRaise:
                continue
            A = lw.atoms(lw.P)
            bad = [(an, nm, lw.read(A[an], nm)) for (an, nm), want in canon[other.key].items() if lw.read(A[an], nm) != want]
            ctx.check(not bad, "R1", f"{mod}.{fn}(T) does not disturb the public {other.key} group",
                      f"after {mod}.{fn}(T) on a private table, elements.{bad[0][0]}.{bad[0][1]} serves {_short(bad[0][2], 60)} instead of "
                      f"{_short(canon[other.key][(bad[0][0], bad[0][1])], 60)}" if bad else "", fsite(ctx, f"{mod}.{fn}"))
    ctx.extra["states"] = total_states
    ctx.extra["transitions"] = total_trans
    ctx.extra["traces_validated_against_impl"] = 0
    ctx.floor("R1", 16)
    ctx.floor("R3", 8)

    # ---- eager groups: mass and density on a private table --------------------------------------------
    lw.restore(lw.boot_snapshot)
    A = lw.atoms(lw.P)
    before = {an: lw.digest(I.heap[a.id]) for an, a in A.items()}
    T = lw.new_private("Tm")
    after = {an: lw.digest(I.heap[a.id]) for an, a in lw.atoms(lw.P).items()}
    ctx.check(before == after, "R2", "mass.init(T) and density.init(T) leave the public table's atoms untouched",
              f"changed: {[k for k in before if before[k] != after.get(k)]}", fsite(ctx, "mass.init"))
    AT = lw.atoms(T)
    same = all(lw.read(AT[an], nm) == lw.read(A[an], nm) for an in AT for nm in ("mass", "density") if an in A)
    ctx.check(same, "R2", "a fresh private table serves the same masses and densities as the public one", "differs", fsite(ctx, "mass.init"))
    ctx.check(all(AT[an] is not A[an] for an in AT), "R2", "the private table has its own atom objects", "atoms shared", fsite(ctx, "core.PeriodicTable.__init__"))

    # ---- R4 table= propagation ---------------------------------------------------------------------------
    calls = []

    def parsed(I_, args, kw):
        calls.append(kw.get("table", args[1] if len(args) > 1 else None))
        return I_.instantiate(I_.get_class("formulas.Formula"), [], {"structure": ((sp.Integer(1), holder["atom"]),), "density": sp.Integer(1)},
                              name="<parsed>")
    holder = {}
    w = world(ctx, stubs={"formulas.parse_formula": parsed})
    holder["atom"] = w.atoms["element"]
    Iw = w.I
    Tt = w.table
    fm = Iw.global_name("formulas", "formula")
    for label, thunk in (
            ("formula(str, table=T)", lambda: Iw.call(fm, ["H2O"], {"table": Tt})),
            ("mix_by_weight(str, q, str, q, table=T)", lambda: Iw.call(Iw.global_name("formulas", "mix_by_weight"), ["A", sp.Integer(1), "B", sp.Integer(2)], {"table": Tt})),
            ("mix_by_volume(str, q, str, q, table=T)", lambda: Iw.call(Iw.global_name("formulas", "mix_by_volume"), ["A", sp.Integer(1), "B", sp.Integer(2)], {"table": Tt}))):
        del calls[:]
        rr = raises(thunk)
        ctx.check(rr is None and calls and all(c is Tt for c in calls), "R4", f"{label}: every string is parsed with table T",
                  f"parser called with tables {[('T' if c is Tt else c) for c in calls]}" + (f"; raised {rr}" if rr else ""),
                  fsite(ctx, "formulas.formula"))
    # parse_formula keeps one grammar per table
    w2 = world(ctx)
    I2 = w2.I
    built = []
    def fake_grammar(I_, a, k):
        tab = list(I_.bound("formulas.formula_grammar", a, k).values())[0]
        built.append(tab)
        from ptstat.symval import Builtin
        return I_.new_obj("grammar", None, {nm_: Builtin(nm_, lambda s_, *x, **y: [(tab, s_)]) for nm_ in ("parseString", "parse_string")}, open_attrs=set())
    I2.stubs["formulas.formula_grammar"] = fake_grammar
    pf = I2.global_name("formulas", "parse_formula")
    T2 = I2.instantiate(I2.get_class("core.PeriodicTable"), ["second"], {}, name="T2", open_attrs=())
    r1 = I2.call(pf, ["X"], {"table": w2.table})
    r2 = I2.call(pf, ["X"], {"table": T2})
    r3 = I2.call(pf, ["Y"], {"table": w2.table})
    ctx.check(r1[0] is w2.table and r2[0] is T2 and r3[0] is w2.table and built == [w2.table, T2], "R4",
              "parse_formula uses (and caches) one grammar per table", f"grammars built for {len(built)} tables; served {r1[0]}, {r2[0]}",
              fsite(ctx, "formulas.parse_formula"))
    # the grammar's symbol lookups use the table it was built for
    # (decided on the grammar model: a string parsed with the grammar built for T yields T's own atom objects, while the
    # public table is a different object)
    w3 = world(ctx)
    I3 = w3.I
    I3.module_cache[("core", "PUBLIC_TABLE")] = I3.new_obj("other_public_table", None, {}, open_attrs=set())
    rr3 = raises(lambda: I3.call(I3.global_name("formulas", "parse_formula"), ["Fe2O3"], {"table": w3.table}))
    if rr3 is not None:
        ctx.fail("R4", "formula_grammar resolves symbols only through its table parameter", f"parsing with table=T raises {rr3}",
                 fsite(ctx, "formulas.formula_grammar"))
    else:
        parsed3 = I3.call(I3.global_name("formulas", "parse_formula"), ["Fe2O3"], {"table": w3.table})
        own = set(map(id, (w3.element("Fe"), w3.element("O"))))
        got3 = I3.getattr(parsed3, "atoms")
        ctx.check(isinstance(got3, dict) and set(map(id, got3)) == own, "R4", "formula_grammar resolves symbols only through its table parameter",
                  f"atoms {sorted(map(repr, got3)) if isinstance(got3, dict) else got3} are not the atoms of the table the grammar was built for",
                  fsite(ctx, "formulas.formula_grammar"))
    # ... also after a grammar for another table was built in between (nothing of a grammar is shared between tables): a plain
    # compound, a mixture by weight, a nested mixture and a grouped compound are parsed for T, then for a second table, then
    # again for T
    TB = I3.instantiate(I3.get_class("core.PeriodicTable"), ["second"], {}, name="TB", open_attrs=())
    pf3 = I3.global_name("formulas", "parse_formula")
    texts = ("Fe2O3", "5wt% NaCl // H2O@1", "20wt% (10wt% NaCl@2 // H2O@1) // Fe2O3@5", "Ca(OH)2")
    syms = {"Fe2O3": ("Fe", "O"), "5wt% NaCl // H2O@1": ("Na", "Cl", "H", "O"), "20wt% (10wt% NaCl@2 // H2O@1) // Fe2O3@5": ("Na", "Cl", "H", "O", "Fe"),
            "Ca(OH)2": ("Ca", "O", "H")}
    from ptstat import symval as _sv
    _sv.OPTIONS["unit_groups"] = True          # only which atoms appear matters here, never nesting
    try:
        _two_grammars(ctx, I3, w3, TB, pf3, texts, syms)
    finally:
        _sv.OPTIONS["unit_groups"] = False
    # the contrast-matching routines: a compound given as a *string* with table=T is parsed with T (observed at the parser)
    from . import C16 as _c16
    w16, seen16 = _c16.setup(ctx)
    I16 = w16.I
    fm16 = I16.global_name("formulas", "formula")
    other16 = I16.new_obj("other_public_table", None, {}, open_attrs=set())
    for fname in ("D2O_sld", "D2O_match", "neutron_scattering", "neutron_sld"):
        _c16.COMPOUND_STRINGS.clear()
        _c16.COMPOUND_STRINGS["<compound>"] = [lambda tab: I16.call(fm16, [{w16.atoms["H1"]: sp.Integer(2), w16.atoms["element2"]: sp.Integer(1)}],
                                                                    {"density": sp.Symbol("rho", positive=True)})]
        saved16 = I16.module_cache[("core", "PUBLIC_TABLE")]
        I16.module_cache[("core", "PUBLIC_TABLE")] = other16
        try:
            rr16 = raises(lambda: I16.call(I16.global_name("nsf", fname), ["<compound>"], {"table": w16.table}))
        finally:
            I16.module_cache[("core", "PUBLIC_TABLE")] = saved16
        tabs16 = _c16.COMPOUND_STRINGS["<compound>"][1:]
        _c16.COMPOUND_STRINGS.clear()
        ctx.check(bool(tabs16) and all(tb is w16.table for tb in tabs16), "R4", f"nsf.{fname}('<string>', table=T): the string is parsed with T",
                  f"parsed with {[getattr(tb, 'name', tb) for tb in tabs16]}" + (f" (raises {rr16})" if rr16 else ""), fsite(ctx, f"nsf.{fname}"))
    _contrast_sequence(ctx)
    # the sequence prefix route
    f = ctx.src.func("formulas.formula")
    seq_calls = [n for n in ast.walk(f.node) if isinstance(n, ast.Call) and ast.unparse(n.func).endswith("Sequence")]
    for n in seq_calls:
        passes = any(k.arg == "table" for k in n.keywords) or any(isinstance(a_, ast.Name) and a_.id == "table" for a_ in n.args)
        ctx.check(passes, "R4", "formula(): the 'aa:'/'dna:'/'rna:' prefix route passes table= on",
                  "fasta.Sequence(...) is built without the table argument: formula('aa:A', table=T) contains atoms of the public table",
                  f"{ctx.src.where('formulas', n)} formulas.formula")
    ctx.floor("R4", 29)
    # building one table leaves the module-level element data as it was: the next table gets the same elements
    wa = world(ctx)
    Ia = wa.I
    Tb = Ia.instantiate(Ia.get_class("core.PeriodicTable"), ["later"], {}, name="Tb", open_attrs=())
    diff = []
    for sym_ in ("H", "He", "Fe", "O", "U", "Cu"):
        a_, b_ = Ia.heap[wa.element(sym_).id], Ia.heap[Ia.getattr(Tb, sym_).id]
        for k_ in ("ions", "name", "number", "symbol"):
            if a_.get(k_) != b_.get(k_):
                diff.append((sym_, k_, a_.get(k_), b_.get(k_)))
    ctx.check(not diff, "R3", "a table created later has the same element data (symbol, name, oxidation states) as one created earlier",
              f"{diff[:3]}", fsite(ctx, "core.PeriodicTable.__init__"))


def _clone_table(I, T, suffix):
    """a second table: a copy of every object reachable from table T whose neutron data are different numbers (the symbols
    of the scattering lengths and cross sections are renamed).  Returns {id of the original: copy}."""
    from ptstat.symval import SymObj
    memo = {}
    renamed = {}

    def sym(x):
        if x not in renamed:
            renamed[x] = sp.Symbol(x.name + suffix, **{k: v for k, v in x.assumptions0.items() if k in ("real", "positive", "nonnegative")}) \
                if x.name.split("_")[0] in ("br", "bi", "s", "coh", "inc", "abs") else x
        return renamed[x]

    def cp(v):
        if isinstance(v, SymObj):
            if v.id not in memo:
                o = memo[v.id] = I.new_obj(v.name + suffix, v.cls, None, v.open_attrs, v.sym_kw)
                I.heap[o.id] = {k: cp(x) for k, x in list(I.heap[v.id].items())}
            return memo[v.id]
        if isinstance(v, dict):
            return {cp(k): cp(x) for k, x in v.items()}
        if isinstance(v, list):
            return [cp(x) for x in v]
        if type(v) is tuple:
            return tuple(cp(x) for x in v)
        if isinstance(v, sp.Basic) and v.free_symbols:
            return v.xreplace({x: sym(x) for x in v.free_symbols})
        return v
    cp(T)
    return memo


def _contrast_sequence(ctx):
    """Two tables with different neutron data, the same compound and the same beam, one after the other: what each table's
    contrast calculation returns is what it returns when it is the only one ever run in the process (nothing computed from the
    atoms of one table may be handed to the other)."""
    from . import C16 as _c16
    results = {}
    for order in ("second table alone", "first table, then second table", "first table alone", "second table, then first table"):
        w, _seen = _c16.setup(ctx)
        I, A = w.I, w.atoms
        memo = _clone_table(I, w.table, "_T2")
        T2 = memo[w.table.id]
        fm = I.global_name("formulas", "formula")
        q = sp.symbols("q1:5", positive=True)
        rho, d = sp.symbols("rho frac_d", positive=True)
        tags = ("H1", "H", "DT", "element2")
        comp1 = {A[t]: q[i] for i, t in enumerate(tags)}
        comp2 = {memo[A[t].id]: q[i] for i, t in enumerate(tags)}
        out = {}
        for fname, extra in (("D2O_sld", {"volume_fraction": sp.Symbol("frac_vf", positive=True), "D2O_fraction": d}), ("D2O_match", {})):
            fn = I.global_name("nsf", fname)
            call1 = lambda: I.call(fn, [I.call(fm, [dict(comp1)], {"density": rho})], dict(extra, wavelength=sp.Integer(6)))   # default table
            call2 = lambda: I.call(fn, [I.call(fm, [dict(comp2)], {"density": rho})], dict(extra, wavelength=sp.Integer(6), table=T2))
            seq = {"second table alone": (call2,), "first table, then second table": (call1, call2),
                   "first table alone": (call1,), "second table, then first table": (call2, call1)}[order]
            rr = raises(lambda: [c() for c in seq[:-1]])
            if rr:
                ctx.fail("R4", f"nsf.{fname}: {order}", f"raises {rr}", fsite(ctx, f"nsf.{fname}"))
                continue
            try:
                out[fname] = seq[-1]()
            except SymRaise as e:
                out[fname] = e
        results[order] = out
    for alone, after in (("second table alone", "first table, then second table"), ("first table alone", "second table, then first table")):
        for fname in ("D2O_sld", "D2O_match"):
            a_, b_ = results[alone].get(fname), results[after].get(fname)
            if a_ is None or b_ is None:
                continue
            site = fsite(ctx, f"nsf.{fname}")
            what = f"nsf.{fname} at one beam: {after} = {alone}"
            if isinstance(a_, SymRaise) or isinstance(b_, SymRaise):
                ctx.check(isinstance(a_, SymRaise) and isinstance(b_, SymRaise) and a_.exc == b_.exc, "R4", what,
                          f"{_sh(a_)} alone, {_sh(b_)} in sequence", site)
                continue
            fa, fb = _flat(a_), _flat(b_)
            if len(fa) != len(fb):
                ctx.fail("R4", what, f"returns {_sh(fb)} in sequence, {_sh(fa)} alone", site)
                continue
            for k_, (x, y) in enumerate(zip(fa, fb)):
                if not eq(ctx, "R4", f"{what} (value {k_})", y, x, site, what="the value returned after the other table used the same beam"):
                    break


def _flat(v):
    if isinstance(v, (tuple, list)):
        return [y for x in v for y in _flat(x)]
    return [v]


def _sh(v):
    return str(v)[:160]
