"""C01 - a formula string denotes exactly the composition its documented grammar says."""
from __future__ import annotations

import ast
import re
from fractions import Fraction

import sympy as sp

from ptstat import AnalysisError, relang, peg
from ptstat.symval import SymObj, Phi, SymRaise
from ptstat.world import World
from spec import grammar_gen as G
from .common import fsite, raises, folder, _s, public_entry_points, eq

EXPLANATION = (
    "K10: formulas.formula_grammar is interpreted from the current source with the pyparsing combinators bound to a "
    "PEG intermediate representation (node identity, skip-whitespace flags, attached parse actions as closures of "
    "the repository).  K9: every token regex of the extracted grammar is compared as a regular language (DFA "
    "equivalence / inclusion with shortest witness) with the terminals of the EBNF block of formula_grammar.rst, "
    "and every ordered choice between regular alternatives is checked for prefix hazards.  Structure: isotope, ion "
    "and count are optional, refuse leading blanks and occur in the documented order; the top level ends at end of "
    "text.  Then the PEG model is run on seeded derivations of the documented grammar (nesting depth <= 3, every "
    "table symbol, isotope and ion tags, integer and decimal counts, all separator spellings, '@' tags) - parse "
    "actions evaluated by the abstract interpreter - and atom counts, net charge and density are compared with the "
    "reading of the derivation; a fixed list of malformations (and malformations of generated strings) must raise, "
    "also when repeated.  Lookups use the table the grammar was built for.  Not decided: strings outside the "
    "documented grammar; the model of pyparsing's combinators is trusted.")

TECHNIQUE = ("static analysis: grammar extraction by abstract interpretation (PEG IR), regular-language equivalence of tokens (DFA), "
             "bounded derivation sweep on the extracted model")

LEVEL_NOTE = ("Trusted: the PEG model of pyparsing's And/MatchFirst/Optional/ZeroOrMore/OneOrMore/Group/Suppress/NotAny/Forward/"
              "StringEnd, whitespace skipping and parse-action return conventions (checked against pyparsing 3.x source); CPython's "
              "re._parser for the regex ASTs.")


def ebnf(ctx):
    rst = ctx.src.data_file("doc/sphinx/guide/formula_grammar.rst")
    rules = dict(re.findall(r"^\s{4}(\w+)\s*::\s*(.+?)\s*$", rst, re.M))
    need = ("symbol", "isotope", "ion", "density", "count", "number", "fraction", "separator", "element", "group", "compound")
    missing = [n for n in need if n not in rules]
    if missing:
        raise AnalysisError(f"EBNF rules {missing} not found in formula_grammar.rst")
    return rules


def ebnf_regex(text):
    """regex for an EBNF terminal definition built from character classes, quoted literals, ?, *, | and parentheses"""
    out = re.sub(r"'([^']*)'", lambda m: re.escape(m.group(1)), text)
    return out.replace(" ", "")


def build(ctx):
    w = World(ctx.src, loaders=("mass.init", "density.init"))
    I = w.I
    for sym, As in G.ISOTOPES.items():
        for A in As:
            w.isotope(sym, A)
    gram = I.call(I.global_name("formulas", "formula_grammar"), [w.table], {})
    if not isinstance(gram, peg.PE):
        raise AnalysisError("formula_grammar did not return a parser element")
    return w, gram


def find(nodes, cls, pred=lambda n: True):
    return [n for n in nodes if isinstance(n, cls) and pred(n)]


def _is_tag(n, opener):
    return isinstance(n, peg.Optional) and isinstance(n.expr, peg.And) and any(
        isinstance(e, peg.Suppress) and isinstance(e.expr, peg.Literal) and e.expr.s == opener for e in n.expr.exprs)


def count_token(nodes):
    """The regex(es) of the count token, found by role: the optional last part of  symbol [..]? {..}? count?
    (an ordered choice of regexes, or a single one) - not by variable name or by the number of alternatives."""
    def flat(n_):
        # the parts of a sequence, with nested sequences opened up (symbol + (isotope + ion) + count is the same production)
        out = []
        for e in n_.exprs:
            if isinstance(e, peg.And):
                out.extend(flat(e))
            else:
                out.append(e)
        return out
    for n in find(nodes, peg.And):
        ex = flat(n)
        if len(ex) == 4 and isinstance(ex[0], peg.Regex) and ex[0].actions and _is_tag(ex[1], "[") and _is_tag(ex[2], "{") \
                and isinstance(ex[3], peg.Optional):
            inner = ex[3].expr
            for c in (inner.exprs if isinstance(inner, peg.And) else [inner]):
                if isinstance(c, peg.Regex):
                    return [c]
                if isinstance(c, peg.MatchFirst) and all(isinstance(e, peg.Regex) for e in c.exprs):
                    return list(c.exprs)
    return None


def ident(I, a):
    iso = I.call(I.global_name("core", "isisotope"), [a], {})
    return (I.getattr(a, "symbol"), int(I.getattr(a, "isotope")) if iso else 0, int(I.getattr(a, "charge")))


_NOTSET = object()


def run(ctx):
    F = folder(ctx)
    rules = ebnf(ctx)
    w, gram = build(ctx)
    I = w.I
    gr = peg.Grammar(gram, I)
    nodes = gr.nodes()
    ctx.unit("peg_nodes", len(nodes))
    ctx.unit("parse_actions", sum(len(n.actions) for n in nodes))
    site = fsite(ctx, "formulas.formula_grammar")
    regs = {n.pattern: n for n in find(nodes, peg.Regex)}

    # ---- R1 token languages --------------------------------------------------------------------------
    number = ebnf_regex(rules["number"])
    fraction = ebnf_regex(rules["fraction"])
    ion_body = re.fullmatch(r"'\{'\s*(.*)\s*'\}'", rules["ion"]).group(1).replace("number", "(" + number + ")").replace(" ", "")
    doc = {"isotope number": number, "ion tag body": ion_body, "fraction": fraction, "whole number": number}

    def code_for(role):
        # roles are recognised by the delimiters around the regex in the extracted grammar, not by variable names
        for n in find(nodes, peg.And):
            lits = [e.expr.s if isinstance(e, peg.Suppress) and isinstance(e.expr, peg.Literal) else None for e in n.exprs]
            rx = [e for e in n.exprs if isinstance(e, peg.Regex)]
            if role == "isotope number" and "[" in lits and "]" in lits and rx:
                return rx[0].pattern
            if role == "ion tag body" and "{" in lits and "}" in lits and rx:
                return rx[0].pattern
        return None
    cnt = count_token(nodes)
    if cnt is None:
        raise AnalysisError("the count token (last optional part of the element production) was not found in the grammar")
    code = {"isotope number": code_for("isotope number"), "ion tag body": code_for("ion tag body")}
    if len(cnt) == 2:
        for p in (e.pattern for e in cnt):
            code["fraction" if relang.inclusion_witness(r"[1-9]", p) is not None else "whole number"] = p
    else:
        # one regex (or several) for the whole count: compared with the union of the documented terminals
        del doc["fraction"], doc["whole number"]
        doc["count"] = "(" + fraction + ")|(" + number + ")"
        code["count"] = "(" + ")|(".join(e.pattern for e in cnt) + ")"
    for role, dpat in doc.items():
        cpat = code.get(role)
        if cpat is None:
            raise AnalysisError(f"token '{role}' not found in the extracted grammar")
        wit = relang.difference_witness(cpat, dpat)
        ctx.check(wit is None, "R1", f"token '{role}': the grammar's regex and the documented terminal accept the same strings",
                  f"/{cpat}/ and the documented {dpat} differ on {wit!r} "
                  f"({'accepted by the code only' if wit is not None and re.fullmatch(cpat, wit) else 'accepted by the documentation only'})",
                  site, witness=wit, sample={"code": cpat, "documented": dpat})
    sym_nodes = [n for n in find(nodes, peg.Regex) if n.actions and relang.inclusion_witness(n.pattern, r"[A-Za-z]*") is None]
    if len(sym_nodes) != 1:
        raise AnalysisError(f"expected one symbol token with a lookup action, found {len(sym_nodes)}")
    sym_pat = sym_nodes[0].pattern
    wit = relang.inclusion_witness(sym_pat, ebnf_regex(rules["symbol"]))
    ctx.check(wit is None, "R1", "symbol token: accepts only documented symbols [A-Z][a-z]*", f"accepts {wit!r}", site, witness=wit)
    base = F.const("core", "element_base")
    table_syms = [v[1] for z, v in base.items() if z > 0] + ["D", "T"]
    miss = [s_ for s_ in table_syms if not re.fullmatch(sym_pat, s_)]
    ctx.check(not miss, "R1", "symbol token: accepts every symbol of the table", f"does not accept {miss[:5]}", site, sample={"symbols": len(table_syms)})
    # greedy symbol regex never splits a table symbol: no table symbol is a proper prefix hazard for the regex itself
    ctx.check(all(re.match(sym_pat, s_ + "2").group() == s_ for s_ in table_syms), "R1", "symbol token consumes the whole symbol", "", site)
    ctx.floor("R1", 7)

    # ---- R2 ordered-choice hazards ---------------------------------------------------------------------
    nh = 0
    for n in find(nodes, peg.MatchFirst):
        rx = [(i, e) for i, e in enumerate(n.exprs) if isinstance(e, peg.Regex)]
        for (i, a), (j, b) in ((x, y) for x in rx for y in rx if x[0] < y[0]):
            hz = relang.prefix_hazard(a.pattern, b.pattern)
            nh += 1
            ctx.check(hz is None, "R2", f"ordered choice /{a.pattern}/ | /{b.pattern}/: the earlier alternative never stops inside a string of the later one",
                      f"on {hz[1]!r} the first alternative matches only {hz[0]!r}" if hz else "", site, witness=hz)
    ctx.floor("R2", 1)

    # ---- R3 structure: tags are optional, adjacent, in the documented order; parse ends at end of text ----
    def is_tag(n, opener):
        return isinstance(n, peg.Optional) and isinstance(n.expr, peg.And) and any(
            isinstance(e, peg.Suppress) and isinstance(e.expr, peg.Literal) and e.expr.s == opener for e in n.expr.exprs)
    def flat_seq(n_):
        out = []
        for e in n_.exprs:
            out.extend(flat_seq(e) if isinstance(e, peg.And) else [e])
        return out
    el = None
    for n in find(nodes, peg.And):
        ex = flat_seq(n)          # (nested sequences opened up: symbol + (isotope + ion) + count is the same production)
        if len(ex) == 4 and ex[0] is sym_nodes[0] and is_tag(ex[1], "[") and is_tag(ex[2], "{"):
            el = ex
    ctx.check(el is not None, "R3", "element is symbol, optional isotope tag, optional ion tag, optional count - in that order",
              "no sequence symbol [..]? {..}? count? found in the grammar", site)
    if el is not None:
        for nm, part in (("isotope tag", el[1]), ("ion tag", el[2]), ("count", el[3])):
            inner = part.expr if isinstance(part, peg.Optional) else None
            first = inner.exprs[0] if isinstance(inner, peg.And) else None
            ctx.check(isinstance(first, peg.NotAny) and isinstance(first.expr, peg.White), "R3",
                      f"{nm} must follow without a blank (negative lookahead for whitespace)",
                      f"the {nm} may be separated from its atom by blanks, so it can bind to the wrong atom or swallow the next group's count", site)
            ctx.check(not part.skip, "R3", f"{nm} does not skip blanks before matching", f"{nm} skips leading blanks", site)
        # absent tags: count 1, no isotope, no charge - observed on a bare symbol (what the optional parts hand on is internal)
        rr_bare = raises(lambda: I.getattr(I.call(I.global_name("formulas", "formula"), ["Fe"], {"table": w.table}), "atoms"))
        if rr_bare is not None:
            ctx.fail("R3", "absent tags default to count 1, no isotope, no charge", f"reading 'Fe' raises {rr_bare}", site)
        bare = I.call(I.global_name("formulas", "formula"), ["Fe"], {"table": w.table}) if rr_bare is None else None
        ba = I.getattr(bare, "atoms") if bare is not None else None
        ctx.check(rr_bare is not None or isinstance(ba, dict) and len(ba) == 1 and next(iter(ba)) is w.element("Fe") and sp.sympify(next(iter(ba.values()))) == 1, "R3",
                  "absent tags default to count 1, no isotope, no charge", f"'Fe' is read as {_s(ba)}", site)
    top = gram
    ends = isinstance(top, peg.And) and isinstance(top.exprs[-1], peg.StringEnd)
    ctx.check(ends, "R3", "the top-level rule ends with end-of-text", "trailing text is not rejected", site)
    ctx.floor("R3", 8)

    # ---- R4/R5 derivation sweep on the extracted model ----------------------------------------------------
    fm = I.global_name("formulas", "formula")
    gen = G.Gen(ctx.seed, base)
    n_valid = 400 if ctx.thorough else 120
    nbad = 0
    fixed = [("NaCl 2H2O", {("Na", 0, 0): 1, ("Cl", 0, 0): 1, ("H", 0, 0): 4, ("O", 0, 0): 2}, None),
             ("HO ((CH2)2O)6 H", {("H", 0, 0): 26, ("O", 0, 0): 7, ("C", 0, 0): 12}, None),
             ("(Ca3(PO4)2)2", {("Ca", 0, 0): 6, ("P", 0, 0): 4, ("O", 0, 0): 16}, None),
             ("Na{+} 2Cl{-}", {("Na", 0, 1): 1, ("Cl", 0, -1): 2}, None),
             ("CaCO3+(3HO1.5)2", {("Ca", 0, 0): 1, ("C", 0, 0): 1, ("O", 0, 0): 12, ("H", 0, 0): 6}, None),
             ("2D2O + H2O@1n", {("D", 2, 0): 4, ("O", 0, 0): 3, ("H", 0, 0): 2}, (Fraction(1), "natural")),
             ("Fe[56] 2O", {("Fe", 56, 0): 1, ("O", 0, 0): 2}, None),
             ("2H2O", {("H", 0, 0): 4, ("O", 0, 0): 2}, None), ("(NaCl)3", {("Na", 0, 0): 3, ("Cl", 0, 0): 3}, None),
             ("Fe Fe", {("Fe", 0, 0): 2}, None), ("Fe+2Fe", {("Fe", 0, 0): 3}, None), ("(Fe)2", {("Fe", 0, 0): 2}, None),
             # the ends of a composition series: a count written as zero multiplies like any other count
             ("Fe0.00Ni1.00", {("Fe", 0, 0): 0, ("Ni", 0, 0): 1}, None), ("NaCl+0.0H2O", {("Na", 0, 0): 1, ("Cl", 0, 0): 1, ("H", 0, 0): 0, ("O", 0, 0): 0}, None),
             ("Fe0.5Ni0.5", {("Fe", 0, 0): Fraction(1, 2), ("Ni", 0, 0): Fraction(1, 2)}, None)]
    nfixed = len(fixed)
    cases = fixed + [gen.compound(depth=3 if k % 4 == 0 else 2) for k in range(n_valid)]
    from .C12 import action_site
    s_act = action_site(ctx, I, w, "convert_element")
    shown = 0
    for text, atoms, dens in cases:
        try:
            f = I.call(fm, [text], {"table": w.table})
        except SymRaise as exc:
            nbad += 1
            if shown < 5:
                shown += 1
                ctx.fail("R4", f"string of the documented grammar is accepted: {text!r}", f"formula({text!r}) raises {exc.exc}: {exc.msg}", site, witness=text)
            continue
        got = {}
        for a, c in I.getattr(f, "atoms").items():
            got[ident(I, a)] = got.get(ident(I, a), 0) + Fraction(int(sp.sympify(c).p), int(sp.sympify(c).q)) if sp.sympify(c).is_Rational else c
        want = {k: Fraction(v) for k, v in atoms.items()}
        if got != want:
            nbad += 1
            if shown < 5:
                shown += 1
                d = {k: (str(got.get(k)), str(want.get(k))) for k in set(got) | set(want) if got.get(k) != want.get(k)}
                ctx.fail("R5", f"atom counts of {text!r}", f"parsed counts differ from the reading of the string (parsed, expected): {d}", s_act, witness=text)
            continue
        ch = sum(k[2] * v for k, v in want.items())
        gch = I.getattr(f, "charge")
        if sp.sympify(gch) != sp.Rational(ch.numerator, ch.denominator):
            nbad += 1
            if shown < 5:
                shown += 1
                ctx.fail("R5", f"net charge of {text!r}", f"charge {gch}, expected {ch}", s_act, witness=text)
            continue
        if dens is None:
            # no '@' tag: only a single-atom formula has a density (that atom's); everything else is unknown
            gd = I.getattr(f, "density")
            if len(want) == 1:
                only = [a for a in I.getattr(f, "atoms")][0]
                okd = sp.simplify(sp.sympify(gd) - sp.sympify(I.getattr(only, "density"))) == 0 if gd is not None and I.getattr(only, "density") is not None \
                    else gd is I.getattr(only, "density")
            else:
                okd = gd is None
            if not okd:
                nbad += 1
                if shown < 5:
                    shown += 1
                    ctx.fail("R5", f"density of the untagged string {text!r}",
                             f"density = {_s(gd)}: a string without '@' has the atom's density only when it names a single atom, otherwise none",
                             fsite(ctx, "formulas.Formula.__init__"), witness=text)
                continue
        if dens is not None:
            attr = "natural_density" if dens[1] == "natural" else "density"
            gd = sp.nsimplify(I.getattr(f, attr)) if dens[1] != "natural" else None
            if dens[1] == "natural":
                ok = sp.simplify(I.getattr(f, "natural_density") - sp.Rational(dens[0].numerator, dens[0].denominator)) == 0
            else:
                ok = sp.simplify(I.getattr(f, "density") - sp.Rational(dens[0].numerator, dens[0].denominator)) == 0
            if not ok:
                nbad += 1
                if shown < 5:
                    shown += 1
                    ctx.fail("R5", f"density tag of {text!r}", f"{attr} = {I.getattr(f, attr)}, expected {dens[0]}", action_site(ctx, I, w, "convert_compound"), witness=text)
                continue
    ctx.check(nbad == 0, "R5", f"derivation sweep: atom counts, net charge and density of {len(cases)} strings of the documented grammar",
              f"{nbad} of {len(cases)} strings are read differently from what the grammar describes", site,
              sample={"strings": len(cases), "examples": [c[0] for c in cases[nfixed:nfixed + 5]]})
    ctx.unit("derivations", len(cases))

    # ---- R6 malformed strings are rejected, also the second time ---------------------------------------------
    mal = list(G.MALFORMED)
    rng = gen.rng
    for text, atoms, dens in cases[nfixed:nfixed + (60 if ctx.thorough else 25)]:
        m = re.search(r"[A-Z][a-z]?", text)
        variants = [text[:m.start()] + "Xx" + text[m.end():], text + ")", "(" + text, text.replace("[", "[0", 1) if "[" in text else text + "[0]",
                    text + "{9+}" if not text.rstrip("0123456789.nia@").endswith("}") and "@" not in text else text + "@"]
        mal.append(rng.choice(variants))
    accepted = []
    for text in mal:
        for attempt in (1, 2):
            r = raises(lambda: I.call(fm, [text], {"table": w.table}))
            if r is None:
                accepted.append((text, attempt))
                break
    for text, attempt in accepted[:6]:
        ctx.fail("R6", f"malformed string {text!r} is rejected", f"formula({text!r}) returns a formula" + (" on the second request" if attempt == 2 else ""),
                 site, witness=text)
    ctx.check(not accepted, "R6", f"all {len(mal)} malformed strings (unknown symbol, undefined isotope or charge, brackets, counts, tags) raise, twice",
              f"{len(accepted)} malformed strings are accepted", site, sample={"strings": len(mal), "examples": mal[:6]})
    ctx.unit("malformed_strings", len(mal))

    # ---- R9 a string denotes its composition every time it is read: nothing done to an earlier result shows in a later one ----
    O_, H_ = w.element("O"), w.element("H")
    saved_public = I.module_cache.get(("core", "PUBLIC_TABLE"), _NOTSET)
    I.module_cache[("core", "PUBLIC_TABLE")] = w.table        # requests without table= go to the default table
    from ptstat import symval as _sv9
    _sv9.OPTIONS["unit_groups"] = True                        # only compositions and densities are compared, never nesting
    for text, tkw in (("Fe2O3@5.2", {"table": w.table}), ("30wt% Fe2O3@5 // H2O@1", {"table": w.table}), ("H2O", {"table": w.table}),
                      ("Fe2O3@5.2", {}), ("5g Fe2O3@5 // 50mL H2O@1", {})):
        fa = I.call(fm, [text], dict(tkw))
        d_before = I.getattr(fa, "density")
        atoms_before = dict(I.getattr(fa, "atoms"))
        I.setattr(fa, "density", sp.Integer(77))
        I.setattr(fa, "name", "edited")
        I.call(I.getattr(fa, "__iadd__"), [I.call(fm, [{H_: sp.Integer(40)}], {})], {})
        fb = I.call(fm, [text], dict(tkw))
        text = text if tkw else text + " [default table]"
        ctx.check(fb is not fa, "R9", f"formula({text!r}) read twice gives two formula objects", "the second request returns the object handed out before", site, witness=text)
        db = I.getattr(fb, "density")
        same_d = (db is None and d_before is None) or (db is not None and d_before is not None and sp.simplify(sp.sympify(db) - sp.sympify(d_before)) == 0)
        ctx.check(same_d, "R9", f"density of {text!r} read again after the first result was edited",
                  f"density {_s(db)} instead of {_s(d_before)}: the earlier result's edits show in a later reading of the same string", site, witness=text)
        ab = dict(I.getattr(fb, "atoms"))
        same_a = set(ab) == set(atoms_before) and all(sp.simplify(sp.sympify(ab[k_]) - sp.sympify(atoms_before[k_])) == 0 for k_ in ab)
        ctx.check(same_a, "R9", f"atoms of {text!r} read again after the first result was extended with +=",
                  "the earlier result's += shows in a later reading of the same string", site, witness=text)
        ctx.check(I.getattr(fb, "name") != "edited", "R9", f"name of {text!r} read again after the first result was renamed",
                  "the earlier result's name shows in a later reading", site, witness=text)
    # ... and nothing of an earlier reading survives a change of the table it was read with: a density given as '@<d>n'
    # (natural density) is resolved with the masses the table has when the string is read
    text = "D2O@1n"
    raised_ = raises(lambda: I.call(fm, [text], {"table": w.table}))
    if raised_ is None:
        f_old = I.call(fm, [text], {"table": w.table})
        d_old = I.getattr(f_old, "density")
        d_atom = [a_ for a_ in I.getattr(f_old, "atoms") if a_ is not O_][0]
        h_heap = I.heap[I.getattr(d_atom, "element").id] if I.hasattr(d_atom, "element") else None
        if h_heap is not None and d_old is not None:
            m_before = h_heap.get("_mass")
            h_heap["_mass"] = sp.Symbol("m_H_edited", positive=True)
            try:
                f_new = I.call(fm, [text], {"table": w.table})
                f_ref = I.call(fm, [dict(I.getattr(f_new, "atoms"))], {"natural_density": sp.Integer(1)})
                eq(ctx, "R9", "density of 'D2O@1n' read again after the mass of natural hydrogen was edited in the table",
                   I.getattr(f_new, "density"), I.getattr(f_ref, "density"), site, what="the density resolved from the natural density")
            finally:
                if m_before is None:
                    I.heap[I.getattr(d_atom, "element").id].pop("_mass", None)
                else:
                    I.heap[I.getattr(d_atom, "element").id]["_mass"] = m_before
    _sv9.OPTIONS["unit_groups"] = False
    if saved_public is _NOTSET:
        I.module_cache.pop(("core", "PUBLIC_TABLE"), None)
    else:
        I.module_cache[("core", "PUBLIC_TABLE")] = saved_public
    ctx.floor("R9", 20)

    public_entry_points(ctx, "RW", [("formula", "formulas.formula")])
    # ---- R7 the grammar looks symbols up in its own table ---------------------------------------------------------
    w2, gram2 = build(ctx)
    f2 = w2.I.call(w2.I.global_name("formulas", "formula"), ["Fe[56]{2+}2O3"], {"table": w2.table})
    own = all(w2.I.getattr(a, "table") == "verif" and (w2.I.getattr(a, "element") if False else True) for a in w2.I.getattr(f2, "atoms"))
    atoms2 = list(w2.I.getattr(f2, "atoms"))
    fe = w2.I.heap[w2.I.heap[w2.element("Fe").id]["_isotopes"][56].id]["ion"]
    ctx.check(any(a is w2.I.lib.subscript(w2.I, fe, sp.Integer(2)) for a in atoms2) and any(a is w2.element("O") for a in atoms2), "R7",
              "a formula parsed with table=T holds T's own atom objects", "atoms are not the table's objects", site)
    g = ctx.src.func("formulas.formula_grammar")
    # (a structural cross-check of the behavioural rule above: the grammar builder does not name the public table itself;
    # default_table(<argument>) is a function of the argument and is not counted)
    glob = [n for n in ast.walk(g.node) if isinstance(n, ast.Name) and n.id in ("PUBLIC_TABLE", "elements")]
    ctx.check(not glob, "R7", "formula_grammar resolves symbols only through its table parameter", f"{[ast.unparse(x) for x in glob]}", site)
    from ptstat import symval
    symval.OPTIONS["unit_groups"] = True      # only compositions are compared in R8, never nesting
    try:
        _mixtures(ctx)
    finally:
        symval.OPTIONS["unit_groups"] = False
    ctx.assume("the n/i suffix of the density tag is described in the guide's text, not in its EBNF block")


# ---- R8 the mixture productions of the documented grammar --------------------------------------------------------------
SI = {"n": sp.Rational(1, 10 ** 9), "u": sp.Rational(1, 10 ** 6), "m": sp.Rational(1, 1000), "c": sp.Rational(1, 100),
      "k": sp.Integer(1000), "": sp.Integer(1)}


def _mixtures(ctx):
    """quantity :: count unit part ('//' count unit part)*   percentage :: count 'wt%|vol%' part ('//' count '%' part)* '//' part
    Every documented unit is accepted in every position, with and without a blank before it, and the parts are present in
    the stated proportion (masses for mass units and wt%, volumes = mass/density for volume and length units and vol%)."""
    import re as _re
    from ptstat import algebra
    rst = ctx.src.data_file("doc/sphinx/guide/formula_grammar.rst")
    units = {}
    for kind in ("mass", "volume", "length"):
        m = _re.search(rf"^\s*{kind}\s*::\s*(.+)$", rst, _re.M)
        if not m:
            raise AnalysisError(f"unit list '{kind}' not found in formula_grammar.rst")
        units[kind] = _re.findall(r"'([^']+)'", m.group(1))
    w, gram = build(ctx)
    I = w.I
    fm = I.global_name("formulas", "formula")
    site = fsite(ctx, "formulas.formula_grammar")
    E = w.element
    mass = lambda sym: I.getattr(E(sym), "mass")
    M1 = mass("Na") + mass("Cl")          # part 1: NaCl@2
    M2 = 2 * mass("H") + mass("O")        # part 2: H2O@1
    d1, d2 = sp.Integer(2), sp.Integer(1)

    def grams(q, u):
        if u in units["mass"]:
            return q * SI[u[:-1]], None
        return None, q * SI[u[:-1]] * 1000     # litres -> cm^3

    def check(text, want_ratio, label, quantity="mass"):
        """want_ratio = (amount of part 1)/(amount of part 2) in mass or volume"""
        try:
            f = I.call(fm, [text], {"table": w.table})
        except SymRaise as exc:
            ctx.fail("R8", label, f"{text!r} is a derivation of the documented grammar but is rejected ({exc.exc} {exc.msg})", site, witness=text)
            return
        at = I.getattr(f, "atoms")
        if E("Na") not in at or E("O") not in at:
            ctx.fail("R8", label, f"{text!r}: parts missing from the result: {sorted(ident(I, a)[0] for a in at)}", site, witness=text)
            return
        m1, m2 = at[E("Na")] * M1, at[E("O")] * M2
        got = (m1 / m2) if quantity == "mass" else (m1 / d1) / (m2 / d2)
        ok, how, wit = algebra.equal(got, want_ratio, seed=ctx.seed)
        ctx.check(ok, "R8", label, f"{text!r}: {quantity} ratio of the parts is {_s(got)}, stated {_s(want_ratio)} ({how})", site,
                  witness=text, sample=text)

    n = 0
    for u in units["mass"] + units["volume"]:
        for blank in ("", " "):
            for pos in (0, 1):
                other = "g"
                q = (sp.Integer(3), sp.Integer(2))
                us = (u, other) if pos == 0 else (other, u)
                text = f"3{blank}{us[0]} NaCl@2 // 2{blank}{us[1]} H2O@1"
                amounts = []
                for qi, ui, di in zip(q, us, (d1, d2)):
                    g, cm3 = grams(qi, ui)
                    amounts.append(g if g is not None else cm3 * di)
                check(text, amounts[0] / amounts[1], f"quantity with unit '{u}' in position {pos + 1}{' after a blank' if blank else ''}")
                n += 1
    for u in units["length"]:
        for blank in ("", " "):
            for pos in (0, 1):
                us = (u, "nm") if pos == 0 else ("nm", u)
                text = f"3{blank}{us[0]} NaCl@2 // 2{blank}{us[1]} H2O@1"
                check(text, (3 * SI[us[0][:-1]]) / (2 * SI[us[1][:-1]]),
                      f"layer thickness with unit '{u}' in position {pos + 1}{' after a blank' if blank else ''}", quantity="volume")
                n += 1
    for tag, quantity in (("wt%", "mass"), ("vol%", "volume")):
        for blank in ("", " "):
            check(f"30{blank}{tag} NaCl@2 // H2O@1", sp.Rational(30, 70), f"percentage '{tag}'{' after a blank' if blank else ''}: two parts", quantity)
            check(f"30{blank}{tag} NaCl@2 // 20% H2O@1 // Fe", sp.Rational(30, 20), f"percentage '{tag}'{' after a blank' if blank else ''}: three parts", quantity)
            n += 2
    # a single part is a mixture too ("quantity :: count unit part"): the material itself, in the stated amount
    for text in ("5g NaCl@2", "5 mg NaCl@2", "2mL NaCl@2", "2 uL NaCl@2", "3nm NaCl@2", "3 cm NaCl@2"):
        try:
            f = I.call(fm, [text], {"table": w.table})
            at = I.getattr(f, "atoms") if isinstance(f, SymObj) else None
            ok1 = isinstance(at, dict) and set(at) == {E("Na"), E("Cl")}
            ctx.check(ok1, "R8", f"a single quantified part: {text!r} is NaCl", f"result {_s(f)} atoms {_s(at)}", site, witness=text)
            if ok1:
                ok_ratio, how, wit = algebra.equal(at[E("Na")], at[E("Cl")], seed=ctx.seed)
                ctx.check(ok_ratio, "R8", f"a single quantified part: {text!r} keeps the 1:1 composition", f"{_s(at)}", site, witness=text)
        except SymRaise as exc:
            ctx.fail("R8", f"a single quantified part: {text!r} is NaCl", f"rejected ({exc.exc} {exc.msg})", site, witness=text)
        n += 1
    # a parenthesised mixture is a part
    nested = ["20vol% (10 wt% NaCl@2.16 // H2O@1) // D2O@1n", "5g (10 wt% NaCl@2.16 // H2O@1) // 5g D2O@1n", "(10 wt% NaCl@2.16 // H2O@1)@1.1"]
    # every unit as the first thing inside a parenthesised part
    for u in units["mass"] + units["volume"]:
        nested.append(f"5g (1{u} H2O@1 // 1g NaCl@2) // 1g Fe")
    for u in units["length"]:
        nested.append(f"20vol% (1{u} H2O@1 // 1nm NaCl@2) // Fe")
    for text in nested:
        try:
            f = I.call(fm, [text], {"table": w.table})
            at = I.getattr(f, "atoms")
            ctx.check(E("Na") in at and E("O") in at, "R8", f"a parenthesised mixture as a part: {text!r}",
                      f"atoms {sorted(ident(I, a)[0] for a in at)}", site, witness=text)
        except SymRaise as exc:
            ctx.fail("R8", f"a parenthesised mixture as a part: {text!r}", f"rejected ({exc.exc} {exc.msg})", site, witness=text)
        n += 1
    ctx.floor("R8", 85)
    ctx.unit("mixture_strings", n)
