"""Helpers shared by the rule sets."""
from __future__ import annotations

import ast

import sympy as sp

from ptstat import AnalysisError
from ptstat import algebra
from ptstat.fold import Folder
from ptstat.symval import SymObj, Phi, SymRaise
from ptstat.world import World


def fsite(ctx, qual, *fallbacks):
    """Where *qual* is defined, for reports.  Private helpers (leading underscore) are only ever used as a *site*: when one
    has been renamed or inlined the report points at the first fallback (or the module) instead - the obligation itself
    never depends on the helper's name.  A missing public anchor is an analysis error."""
    for q in (qual,) + fallbacks:
        try:
            f = ctx.src.func(q)
            return f"{ctx.src.where(f.module, f.node)} {f.qual}"
        except AnalysisError:
            continue
    if qual.rsplit(".", 1)[-1].startswith("_") and not qual.rsplit(".", 1)[-1].startswith("__"):
        return f"periodictable/{qual.split('.')[0]}.py ({qual.split('.', 1)[1]})"
    raise AnalysisError(f"anchor function {qual} not found")


def callees_in_common(ctx, *callers, exclude=()):
    """package functions called (directly) by every one of *callers* - how a shared private helper is found without its name"""
    cg = ctx.src.callgraph()
    sets = []
    for c in callers:
        q = ctx.src.func(c).qual
        sets.append(set(cg.successors(q)) if q in cg else set())
    common = set.intersection(*sets) if sets else set()
    return sorted(x for x in common if x not in {ctx.src.func(e).qual for e in exclude if ctx.src.has_func(e)})


def attr_reads_through(ctx, qual, param, depth=3, _seen=None):
    """Attributes read from the object bound to parameter *param* of *qual*, following plain aliases and the package
    functions the object is handed to (positionally or by keyword), at most *depth* calls deep.  A syntactic, flow-insensitive
    over-approximation: a name counts as the object from its first binding on."""
    import ast
    _seen = set() if _seen is None else _seen
    f = ctx.src.func(qual)
    if (f.qual, param) in _seen:
        return set()
    _seen.add((f.qual, param))
    names = {param}
    changed = True
    while changed:
        changed = False
        for node in ast.walk(f.node):
            if isinstance(node, ast.Assign) and isinstance(node.value, ast.Name) and node.value.id in names:
                for t in node.targets:
                    if isinstance(t, ast.Name) and t.id not in names:
                        names.add(t.id); changed = True
    reads = set()
    for node in ast.walk(f.node):
        if isinstance(node, ast.Attribute) and isinstance(node.value, ast.Name) and node.value.id in names \
                and isinstance(node.ctx, ast.Load):
            reads.add(node.attr)
    # a call whose result re-binds the name (x = convert(x, ...)) is the conversion that produces the object, not a use of it
    rebinding = {id(node.value) for node in ast.walk(f.node)
                 if isinstance(node, ast.Assign) and isinstance(node.value, ast.Call)
                 and any(isinstance(t, ast.Name) and t.id in names for t in node.targets)}
    if depth > 0:
        for callee, call in ctx.src.calls_in(f):
            if id(call) in rebinding:
                continue
            cf = ctx.src.func(callee)
            a = cf.node.args
            pos = [x.arg for x in a.posonlyargs + a.args]
            if cf.cls and pos and pos[0] in ("self", "cls") and isinstance(call.func, ast.Attribute):
                pos = pos[1:]
            for i, arg in enumerate(call.args):
                if isinstance(arg, ast.Name) and arg.id in names and i < len(pos):
                    reads |= attr_reads_through(ctx, callee, pos[i], depth - 1, _seen)
            for kw in call.keywords:
                if kw.arg and isinstance(kw.value, ast.Name) and kw.value.id in names:
                    reads |= attr_reads_through(ctx, callee, kw.arg, depth - 1, _seen)
    return reads


def world(ctx, **kw) -> World:
    w = World(ctx.src, **kw)
    w.standard_atoms()
    ctx.unit("classes_modelled", len(w.I.classes))
    return w


def folder(ctx) -> Folder:
    if not hasattr(ctx, "_folder"):
        ctx._folder = Folder(ctx.src)
    return ctx._folder


def public_entry_points(ctx, rule, pairs):
    """The package-level spellings (periodictable.formula, periodictable.neutron_sld, ...) are the module functions: whatever
    is passed - positionally or by keyword - reaches the module function under the same parameter, the result is handed back
    as it is, and every request is a new request (nothing is remembered between calls).  Decided by calling the wrapper in
    the interpreter with the module function replaced by a recorder."""
    from ptstat.symx import Interp
    from ptstat.symval import SymRaise
    import sympy as _sp
    for name, target in pairs:
        if not ctx.src.has_func(f"__init__.{name}"):
            r_ = ctx.src.resolve("__init__", name)
            if r_ and r_[0] == "func" and ctx.src.func(r_[1]).qual == ctx.src.func(target).qual:
                ctx.ok(rule, f"periodictable.{name} is {target} itself", site=fsite(ctx, target))
                continue
            raise AnalysisError(f"periodictable.{name} is not a function of the package __init__ nor the module function")
        site = fsite(ctx, f"__init__.{name}")
        tq = ctx.src.func(target).qual
        I = Interp(ctx.src)
        # the module function as the module binds it (a decorated function is what its decorator returned: its call signature
        # is that of the returned function, not of the text under the decorator)
        from ptstat.symval import Closure as _Closure, Builtin as _Builtin
        tmod, tname = target.split(".", 1)
        eff = I.global_name(tmod, tname)
        tnode = eff.node if isinstance(eff, _Closure) and hasattr(eff.node, "args") else ctx.src.func(tq).node
        params = [a.arg for a in tnode.args.posonlyargs + tnode.args.args]
        calls = []

        def bind(args, kw, _params=params, _vararg=tnode.args.vararg is not None):
            b_ = dict(zip(_params, args))
            b_.update(kw)
            if _vararg:
                b_["*"] = tuple(args[len(_params):])
            return b_

        def recorder(*args, _calls=calls, **kw):
            _calls.append(bind(list(args), dict(kw)))
            return I.new_obj(f"result{len(_calls)}")
        I.module_cache[(tmod, tname)] = _Builtin(target, recorder)
        I.stubs[tq] = lambda I_, args, kw: recorder(*args, **kw)        # (reached by its qualified name as well)
        wrapper = I.global_name("__init__", name)
        vals = {p_: _sp.Symbol(f"arg_{p_}") for p_ in params}
        forms = [([vals[p_] for p_ in params[:k]], {}) for k in range(1, len(params) + 1)]
        if params:
            forms += [([vals[params[0]]], {p_: vals[p_]}) for p_ in params[1:]]
        if tnode.args.vararg is not None:
            extra = [_sp.Symbol(f"extra{i}") for i in range(4)]
            forms.append(([vals[p_] for p_ in params] + extra, {}))
            forms.append((["H2O", extra[0], "D2O", extra[1]], {}))
        if tnode.args.kwarg is not None:
            forms.append(([vals[p_] for p_ in params[:1]] or ["H2O"], {"density": _sp.Symbol("kw_density"), "name": "mix"}))
        # the first argument is most often a formula string: the same forms again with a string in that place
        if params:
            sv = dict(vals)
            sv[params[0]] = "H2O"
            forms += [(["H2O"] + [sv[p_] for p_ in params[1:k]], {}) for k in range(1, min(len(params), 3) + 1)]
            forms += [(["H2O"], {p_: sv[p_]}) for p_ in params[1:3]]
        if not forms:
            raise AnalysisError(f"{target} has no parameters to forward")
        bad = None
        for args, kw in forms:
            want = bind(list(args), dict(kw))
            for attempt in (1, 2):
                n0 = len(calls)
                try:
                    res = I.call(wrapper, list(args), dict(kw))
                except (SymRaise, AnalysisError) as exc:
                    bad = (args, kw, f"raises {exc}")
                    break
                if len(calls) != n0 + 1:
                    bad = (args, kw, f"request {attempt} with the same arguments does not reach {target}" if attempt == 2 else f"{target} is not called exactly once")
                    break
                got = calls[-1]
                if set(got) != set(want) or any(got[k_] is not want[k_] and got[k_] != want[k_] for k_ in want):
                    bad = (args, kw, f"{target} receives {_s(got, 200)} instead of {_s(want, 200)}")
                    break
                if not (hasattr(res, "name") and getattr(res, "name", "") == f"result{len(calls)}"):
                    bad = (args, kw, f"the result of request {attempt} is not what {target} returned for it ({_s(res, 60)})")
                    break
            if bad:
                break
        ctx.check(bad is None, rule, f"periodictable.{name}(...) is {target}(...): same parameters, same result object, every request anew",
                  (f"called as {name}({', '.join([str(a) for a in bad[0]] + [f'{k}={v}' for k, v in bad[1].items()])}): {bad[2]}" if bad else ""),
                  site, witness=(str(bad[:2]) if bad else None), sample={"call forms": len(forms)})


def table_data(ctx, module, name):
    """A module-level data table as plain Python data: folded from its literal when it is one, otherwise (built or
    post-processed by package code at import: arrays, records ...) evaluated by the interpreter and converted back."""
    try:
        return folder(ctx).const(module, name)
    except AnalysisError:
        pass
    from ptstat.symx import Interp
    from ptstat.symval import Vec as _Vec
    from ptstat.symlib import NTuple as _NT
    I = Interp(ctx.src)
    v = I.global_name(module, name)

    def plain(x):
        if isinstance(x, _Vec):
            return [plain(i) for i in x.items]
        if isinstance(x, _NT):
            return tuple(plain(i) for i in x)
        if isinstance(x, dict):
            return {plain(k): plain(i) for k, i in x.items()}
        if isinstance(x, (list, tuple)):
            return type(x)(plain(i) for i in x) if type(x) in (list, tuple) else [plain(i) for i in x]
        if isinstance(x, (str, bool)) or x is None:
            return x
        try:
            e = sp.sympify(x)
        except (sp.SympifyError, TypeError):
            raise AnalysisError(f"{module}.{name} holds {x!r}, which is not plain data")
        if e.is_Integer:
            return int(e)
        if e.is_number and e.is_real:
            return float(e)
        if e is sp.nan:
            return float("nan")
        if e.is_number:
            return complex(e)
        raise AnalysisError(f"{module}.{name} holds the non-numeric value {x}")
    return plain(v)


def points(ctx):
    return 200 if ctx.thorough else 8


def eq(ctx, rule, key, got, want, site="", what="", nonzero=()):
    """Obligation: value graph *got* equals the specified expression *want*."""
    from ptstat.symval import SymObj as _SO
    if got is None or isinstance(got, (str, _SO, dict, list)) and not isinstance(want, type(got)):
        # not a number at all (None where a value is specified, an object, ...): the obligation fails, it is not an analysis problem
        if got is None and want is None:
            ctx.ok(rule, key, site=site, sample={"extracted": "None", "specified": "None"})
            return True
        ctx.fail(rule, key, f"{what or 'extracted value'} is {_s(got, 120)} where {_s(want, 160)} is specified", site=site)
        return False
    try:
        ok, how, wit = algebra.equal(got, want, seed=ctx.seed, points=points(ctx), nonzero=nonzero)
    except AnalysisError as exc:
        raise AnalysisError(f"{rule} {key}: {exc}")
    if ok:
        ctx.ok(rule, key, site=site, sample={"extracted": _s(got), "specified": _s(want), "decided_by": how})
    else:
        ctx.fail(rule, key, f"{what or 'extracted value'} {_s(got)} differs from the specified {_s(want)} ({how})",
                 site=site, witness=wit)
    return ok


def _s(e, n=300):
    s = str(e)
    return s if len(s) <= n else s[:n] + "..."


def dict_eq(ctx, rule, key, got: dict, want: dict, site=""):
    """Obligation: two {atom: count} maps agree (same keys, counts identical)."""
    if not isinstance(got, dict):
        ctx.fail(rule, key, f"expected an atom->count mapping, extracted {got!r}", site)
        return False
    if set(got) != set(want):
        ctx.fail(rule, key, f"atoms {sorted(map(repr, got))} differ from expected {sorted(map(repr, want))}", site)
        return False
    for a in want:
        ok, how, wit = algebra.equal(got[a], want[a], seed=ctx.seed, points=points(ctx))
        if not ok:
            ctx.fail(rule, key, f"count of {a!r} is {_s(got[a])}, expected {_s(want[a])} ({how})", site, wit)
            return False
    ctx.ok(rule, key, site=site, sample={"atoms": {repr(k): _s(v) for k, v in got.items()}})
    return True


def raises(fn, *exc):
    """Run *fn*; return the exception name if it raised one of *exc* (any if empty), else None."""
    try:
        fn()
    except SymRaise as e:
        if not exc or e.exc in exc:
            return e.exc
        return "other:" + e.exc
    return None


def tuple_everywhere(struct):
    """K11 container kind: structure is a tuple of (count, atom|structure) pairs at every level."""
    if isinstance(struct, Phi):
        return tuple_everywhere(struct.a) and tuple_everywhere(struct.b)
    if not isinstance(struct, tuple):
        return False
    for pair in struct:
        if not isinstance(pair, tuple) or len(pair) != 2:
            return False
        frag = pair[1]
        if isinstance(frag, SymObj):
            continue
        if not tuple_everywhere(frag):
            return False
    return True


def constants_lint(ctx, rule, names, why):
    """Obligation per constant: the value folded from constants.py is the CODATA/AME reference within 1e-6 relative."""
    from spec.constants import REFERENCE, REL
    F = folder(ctx)
    for n in names:
        ref, unit = REFERENCE[n]
        try:
            v = F.const("constants", n)
        except Exception as exc:
            raise AnalysisError(f"constants.{n} cannot be folded from the source ({exc})")
        ok = isinstance(v, (int, float)) and abs(float(v) - ref) <= REL * abs(ref)
        ctx.check(ok, rule, f"constants.{n} is the reference value {ref:g} {unit} within 1e-6 ({why})",
                  f"constants.{n} = {v!r}; reference {ref!r} {unit} (relative difference "
                  f"{abs(float(v) - ref) / abs(ref):.2g})" if isinstance(v, (int, float)) else f"constants.{n} = {v!r}",
                  "periodictable/constants.py " + n, sample={"value": v, "reference": ref})


def array_hazard_sweep(ctx, rule, modules, what):
    """No function of the given modules updates in place, keeps, or hands to a helper that does, an array its caller
    supplied (parameters named wavelength / energy / Q / ... and whatever local names alias them).  Pure syntax: runs before
    anything is interpreted, so that it stands even if a later part of the analysis cannot follow the code."""
    import ast as _ast
    from ptstat.taint import caller_array_hazards
    nfun = 0
    by_module = {}
    for qual, fn in ctx.src.funcs.items():
        if fn.module in modules and isinstance(fn.node, _ast.FunctionDef):
            by_module.setdefault(fn.module, {})[fn.node.name] = fn.node
    for qual, fn in ctx.src.funcs.items():
        if fn.module in modules and isinstance(fn.node, _ast.FunctionDef):
            nfun += 1
            for why, node in caller_array_hazards(fn.node, module_funcs=by_module.get(fn.module)):
                ctx.fail(rule, f"{qual}: {why}", f"{_ast.unparse(node)[:80]}: {what}", f"{ctx.src.where(fn.module, node)} {qual}")
    ctx.ok(rule, f"no function of {', '.join(sorted(modules))} updates a caller-supplied array in place or keeps a reference to it",
           site=", ".join(f"periodictable/{m}.py" for m in sorted(modules)), sample={"functions": nfun})
