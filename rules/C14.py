"""C14 - activation equals the solution of the documented capture/decay chains."""
from __future__ import annotations

import ast
import re

import sympy as sp

from ptstat import AnalysisError, algebra
from ptstat.symval import SymObj, Phi, SymRaise, Builtin, TextFile
from ptstat.world import World
from spec import activation as spec
from .common import eq, fsite, raises, folder, _s, table_data

EXPLANATION = (
    "The value graph of activation.activity() is built from the current source for a generic isotope "
    "with one symbolic reaction record per chain type ('act', 'b', '2n'; thermal and fast), symbolic "
    "mass, flux, cadmium ratio, fast ratio, exposure and rest time.  Each branch's expression is "
    "shown to satisfy its reaction chain written as an ODE system with zero initial product "
    "(residual identically zero, initial conditions) - not compared with a closed form; the "
    "small-argument arm is compared with the Taylor series of the exact arm; the guards on the fast "
    "ratio and the cadmium ratio, the half-life/decay constants, the rest-time decay, linearity in "
    "mass and the routing of mass fractions and abundances in Sample.calculate_activation are "
    "decided on the same graphs.  The reader activation.init is interpreted on a probe row whose "
    "cells are distinct tags to extract its column -> attribute map, and all rows of activation.dat "
    "are linted (exhaustive).  Not decided: floating-point sign/accuracy after cancellation, "
    "monotonicity in exposure, coincident rates.")

TECHNIQUE = "static analysis: value-graph extraction and ODE-residual identities (sympy), reader-shape extraction, exhaustive data lint"


def new_record(I, AR, vals, name):
    """An activation record with the given fields; whatever else the class's constructor insists on (explicit parameters
    without defaults, e.g. of a dataclass) gets an opaque positive value."""
    vals = dict(vals)
    init = AR.lookup("__init__")
    node = getattr(init, "node", None)
    if node is not None and not node.args.kwarg:
        a = node.args
        pos = [x.arg for x in a.posonlyargs + a.args][1:]
        required = pos[:len(pos) - len(a.defaults)] + [x.arg for x, d in zip(a.kwonlyargs, a.kw_defaults) if d is None]
        for nm in required:
            vals.setdefault(nm, sp.Symbol("rec_" + nm, positive=True))
    return I.instantiate(AR, [], vals, name=name)


def make(ctx, reaction, fast, Cd, fast_ratio):
    """World with one isotope carrying one activation record of the given kind."""
    w = World(ctx.src, loaders=())
    I = w.I
    iso = w.isotope("Fe", 56)
    AR = I.get_class("activation.ActivationResult")
    P = lambda n: sp.Symbol(n, positive=True)
    rec = new_record(I, AR, dict(
        fast=fast, thermalXS=P("xs"), resonance=P("res"), Thalf_hrs=P("Th"), reaction=reaction,
        Thalf_parent=P("Thp"), thermalXS_parent=P("xsp"), resonance_parent=P("resp"),
        daughter="X", isotope="Fe-56", comments="", Thalf_str="1 h", isomer="", symbol="Fe", A=sp.Integer(56), Z=sp.Integer(26),
        abundance=P("abund"), gT=sp.Integer(1), percentIT=sp.Integer(0)), "record")
    w.set(iso, neutron_activation=[rec], isotope=sp.Symbol("A", positive=True))
    Env = I.get_class("activation.ActivationEnvironment")
    env = I.instantiate(Env, [], dict(fluence=P("phi"), Cd_ratio=Cd, fast_ratio=fast_ratio), name="env")
    return w, iso, rec, env


def _overflow(ctx, branch_exprs, site):
    """R6 'never fail to compute for physical inputs': every exponential of the end-of-irradiation activity is evaluated, for
    every row of activation.dat of the branch's kind, at the corners of the stated domain (fluence 1e2..1e16, exposure
    1e-3..1e4 h, Cd ratio, fast ratio); an argument above 709.78 is an input on which math.exp/expm1 raise OverflowError."""
    import itertools
    import math
    text = ctx.src.data_file("periodictable/activation.dat")
    rows = [r.split("\t") for r in text.split("\n") if r.strip() != ""]
    data = [r for r in rows if r[0].strip() not in ("", "xx")]
    strip = lambda c_: c_[1:-1] if c_.startswith('"') else c_
    names = table_data(ctx, "activation", "COLUMN_NAMES")
    col = {nm: i for i, nm in enumerate(names)}
    num = lambda r, nm: float(strip(r[col[nm]])) if strip(r[col[nm]]).strip() else 0.0
    P = lambda n: sp.Symbol(n, positive=True)
    syms = [P(n) for n in ("phi", "xs", "res", "Th", "Thp", "xsp", "resp", "t", "c", "fr")]
    nargs = nrows = 0
    worst = None
    for (label, reaction, fast), y in branch_exprs.items():
        args = sorted({e.args[0] for e in sp.sympify(y).atoms(sp.exp)}, key=str)
        if not args:
            continue
        fns = [sp.lambdify(syms, a_, modules="math") for a_ in args]
        kind = lambda r: "b" if strip(r[col["reaction"]]) == "b" else "2n" if strip(r[col["reaction"]]) == "2n" else "act"
        mine = [r for r in data if kind(r) == reaction and (strip(r[col["fast"]]) == "y") == bool(fast)]
        for r in mine:
            nrows += 1
            vals = [num(r, n) for n in ("thermalXS", "resonance", "Thalf_hrs", "Thalf_parent", "thermalXS_parent", "resonance_parent")]
            if vals[2] <= 0:
                continue
            for phi, tt, cc, fr in itertools.product((1e2, 1e16), (1e-3, 1e4), (1e-9, 19.0), (1.0, 50.0)):
                for a_, fn in zip(args, fns):
                    nargs += 1
                    try:
                        v = fn(phi, vals[0], vals[1], vals[2], vals[3] or 1.0, vals[4], vals[5], tt, cc, fr)
                    except (OverflowError, ZeroDivisionError, ValueError):
                        continue
                    if isinstance(v, complex) or v != v:
                        continue
                    if v > 709.78 and (worst is None or v > worst[0]):
                        worst = (v, strip(r[col["isotope"]]), strip(r[col["daughter"]]), label, reaction, phi, tt, str(a_)[:120])
    if worst is None:
        ctx.ok("R6", "no exponential of the end-of-irradiation activity can overflow on the stated domain (all rows x domain corners)",
               site=site, sample={"rows": nrows, "arguments_evaluated": nargs})
    else:
        v, iso_, dau, label, reaction, phi, tt, a_ = worst
        ctx.fail("R6", "no exponential of the end-of-irradiation activity can overflow on the stated domain (all rows x domain corners)",
                 f"exp/expm1 of {a_} = {v:.4g} > 709.78 for {iso_} -> {dau} ('{reaction}', {label}) at fluence {phi:g}, exposure {tt:g} h: "
                 "OverflowError instead of an activity", site, witness=f"{iso_} fluence={phi:g} exposure={tt:g}")
    ctx.floor("R6", 1)


strip = lambda c_: c_[1:-1] if c_.startswith('"') else c_


def _parents(ctx, names, col_of, site):
    """The records the package's own reader serves for the whole of activation.dat (interpreted, not executed): in every
    'b' / '2n' record the parent half-life is the half-life of a capture product of the same element - the record of the
    intermediate nuclide - whatever the layout of the file and however the reader finds it."""
    w = World(ctx.src, loaders=())
    I = w.I
    text = ctx.src.data_file("periodictable/activation.dat")
    lines = text.split("\n")
    nrow = 0
    for ln in lines:
        r = ln.split("\t")
        if len(r) < len(names) or r[0].strip() in ("", "xx"):
            continue
        try:
            a_ = int(r[col_of["A"]])
        except (ValueError, KeyError):
            continue
        w.isotope(strip(r[col_of["symbol"]]), a_)
        nrow += 1
    if nrow < 400:
        raise AnalysisError(f"activation.dat: only {nrow} data rows could be located through the documented column names symbol / A")
    I.builtins["open"] = Builtin("open", lambda *a, **k: TextFile([l_ + "\n" for l_ in lines], "activation.dat"))
    I.stubs["core.get_data_path"] = lambda I_, a, k: "/data"
    try:
        I.call(I.global_name("activation", "init"), [w.table], {})
    except SymRaise as exc:
        ctx.fail("R5", "activation.init reads the package's activation.dat", f"raises {exc}", site)
        return
    by_el = {}
    for oid, h in I.heap.items():
        recs = h.get("neutron_activation") if isinstance(h, dict) else None
        if isinstance(recs, list) and "isotope" in h and "element" in h:
            by_el.setdefault(h["element"].id, []).extend(I.heap[r_.id] for r_ in recs)
    bad, nchain = [], 0
    fl = lambda v: float(sp.sympify(v))
    for recs in by_el.values():
        direct = [r_ for r_ in recs if r_.get("reaction") not in ("b", "2n")]
        for r_ in recs:
            if r_.get("reaction") in ("b", "2n"):
                nchain += 1
                try:
                    tp = fl(r_.get("Thalf_parent"))
                    ok = any(abs(fl(p_.get("Thalf_hrs")) - tp) <= 1e-6 * fl(p_.get("Thalf_hrs")) for p_ in direct)
                except (TypeError, ValueError):
                    ok = False
                if not ok:
                    bad.append(f"{r_.get('isotope')} => {r_.get('daughter')} ('{r_.get('reaction')}'): parent half-life {r_.get('Thalf_parent')} h")
    ctx.check(not bad and nchain >= 80, "R5", "every 'b' / '2n' record: the parent half-life served is the half-life of a capture product of the same element",
              f"{len(bad)} of {nchain} records: {bad[:4]}", "periodictable/activation.dat (through activation.init)", sample={"records": nrow, "chains": nchain})


def run(ctx):
    P = lambda n: sp.Symbol(n, positive=True)
    t, T, m = P("t"), P("T"), P("mass")
    c = P("c")
    ln2 = sp.log(2)
    lam, lam_p = ln2 / P("Th"), ln2 / P("Thp")
    site = fsite(ctx, "activation.activity")
    rates = sp.Rational(3600, 10 ** 24)

    def params(fast, Cd, fr):
        epi = 1 / Cd if Cd != 0 else 0
        flux = P("phi") / fr if fast else P("phi")
        ixs = P("xs") + epi * P("res")
        exs = P("xsp") + epi * P("resp")
        root = flux * ixs * sp.Rational(1, 10 ** 24) * m / P("A") * sp.Rational("1.6278e19")
        return flux * ixs * rates, P("phi") * exs * rates, root

    branch_exprs = {}
    # ---- R1 chains ----------------------------------------------------------------
    for fast, Cd, fr, label in ((False, 1 + c, 0, "thermal, Cd ratio >= 1"), (True, 0, P("fr"), "fast, no epithermal"),
                                (False, 0, 0, "thermal, Cd ratio 0")):
        k1, k2, root = params(fast, Cd, fr)
        for reaction in ("act", "b", "2n"):
            w, iso, rec, env = make(ctx, reaction, fast, Cd, fr)
            I = w.I
            res = I.call(I.global_name("activation", "activity"), [iso, m, env, t, [sp.Integer(0), T]], {})
            ctx.check(isinstance(res, dict) and rec in res, "R1", f"'{reaction}' ({label}): one result row per record",
                      f"result {_s(res)}", site)
            if not (isinstance(res, dict) and rec in res):
                continue
            y = sp.sympify(res[rec][0])
            if reaction == "act":
                arms = algebra._arms(y)
                exact = [ex for ex, cs in arms if ex.has(sp.exp)]
                small = [ex for ex, cs in arms if not ex.has(sp.exp)]
                if len(exact) != 1:
                    raise AnalysisError(f"expected one exact burn-up arm, found {len(exact)}")
                ye = exact[0]
                eq(ctx, "R1", f"'act' ({label}): N1' = k1 N0 - (k2+lam) N1 with burn-up of target and product",
                   spec.residual_act(ye, t, lam, k1, k2, root), 0, site)
                eq(ctx, "R1", f"'act' ({label}): no product before exposure", ye.subs(t, 0), 0, site)
                if small:
                    diff_ = ye - small[0]
                    for order in (0, 1, 2):
                        coeff = sp.diff(diff_, t, order).subs(t, 0)
                        ok, how, wit = algebra.is_zero(coeff, ctx.seed)
                        ctx.check(ok, "R2", f"small-argument arm agrees with the exact arm at order t^{order} ({label})",
                                  f"the t^{order} Taylor coefficients of the exact and the small-argument arm differ "
                                  f"by {_s(coeff, 200)}", site, witness=wit, sample={"small arm": _s(small[0], 200)})
                else:
                    for order in (0, 1, 2):
                        ctx.ok("R2", f"no separate small-argument arm: nothing to agree with at order t^{order} ({label})", site=site)
            elif reaction == "b":
                eq(ctx, "R1", f"'b' ({label}): daughter fed by the decay of the activated parent",
                   spec.residual_b(y, t, lam, lam_p, root), 0, site)
                eq(ctx, "R1", f"'b' ({label}): no product before exposure", sp.limit(y, t, 0), 0, site)
            else:
                eq(ctx, "R1", f"'2n' ({label}): two-step capture chain", spec.residual_2n(y, t, lam, lam_p, k1, k2), 0, site)
                eq(ctx, "R1", f"'2n' ({label}): y(0) = 0", y.subs(t, 0), 0, site)
                eq(ctx, "R1", f"'2n' ({label}): y'(0) = 0", sp.diff(y, t).subs(t, 0), 0, site)
                eq(ctx, "R1", f"'2n' ({label}): y''(0) = lam k2 root", sp.diff(y, t, 2).subs(t, 0), lam * k2 * root, site)
            branch_exprs[(label, reaction, fast)] = y
            # R3: rest decay and mass linearity
            yT = sp.sympify(res[rec][1])
            eq(ctx, "R3", f"'{reaction}' ({label}): rest time T multiplies by 2^(-T/T_half)", yT, y * 2 ** (-T / P("Th")), site)
            deg = algebra.homogeneity(y if reaction != "act" else ye, [m], ctx.seed)
            ctx.check(deg == 1, "R3", f"'{reaction}' ({label}): activity is proportional to the sample mass",
                      f"degree {deg} in mass", site)
    # the same record activated again in another environment (another thermal/fast ratio, another Cd ratio, another fluence):
    # what comes back is what that environment gives on its own - nothing computed for one environment is kept for the next
    Env_ = None
    for reaction, fast in (("act", True), ("act", False), ("b", False), ("2n", False)):
        seqs = ((dict(fluence=P("phi"), Cd_ratio=0, fast_ratio=P("fr")), dict(fluence=P("phi"), Cd_ratio=0, fast_ratio=P("fr2"))) if fast else
                (dict(fluence=P("phi"), Cd_ratio=1 + c, fast_ratio=0), dict(fluence=P("phi"), Cd_ratio=2 + c, fast_ratio=0)),
                (dict(fluence=P("phi"), Cd_ratio=1 + c, fast_ratio=0) if not fast else dict(fluence=P("phi"), Cd_ratio=0, fast_ratio=P("fr")),
                 dict(fluence=P("phi2"), Cd_ratio=1 + c, fast_ratio=0) if not fast else dict(fluence=P("phi2"), Cd_ratio=0, fast_ratio=P("fr"))))
        for e1, e2 in seqs:
            alone = None
            for order in ("alone", "after another environment"):
                w_, iso_, rec_, _env = make(ctx, reaction, fast, e1["Cd_ratio"], e1["fast_ratio"])
                I_ = w_.I
                Env_ = I_.get_class("activation.ActivationEnvironment")
                env2 = I_.instantiate(Env_, [], dict(e2), name="env2")
                if order != "alone":
                    env1 = I_.instantiate(Env_, [], dict(e1), name="env1")
                    I_.call(I_.global_name("activation", "activity"), [iso_, m, env1, t, [sp.Integer(0)]], {})
                r_ = I_.call(I_.global_name("activation", "activity"), [iso_, m, env2, t, [sp.Integer(0)]], {})
                v_ = sp.sympify(r_[rec_][0]) if isinstance(r_, dict) and rec_ in r_ else None
                if order == "alone":
                    alone = v_
                elif alone is not None and v_ is not None:
                    changed = [k_ for k_ in e1 if e1[k_] != e2[k_]][0]
                    eq(ctx, "R1", f"'{reaction}' ({'fast' if fast else 'thermal'}): activated again with another {changed}, the result is that environment's own",
                       v_, alone, site, what="the activity returned after the record was used in another environment")
    ctx.floor("R1", 32)
    ctx.floor("R2", 9)
    overflow_site = site

    # ---- R3 guards ------------------------------------------------------------------
    w, iso, rec, env = make(ctx, "act", True, 0, 0)
    I = w.I
    res = I.call(I.global_name("activation", "activity"), [iso, m, env, t, [sp.Integer(0)]], {})
    ctx.check(res == {}, "R3", "fast reactions are omitted when the fast ratio is 0", f"result {_s(res)}", site)
    w, iso, rec, env = make(ctx, "act", False, 0, 0)
    no_attr = w.isotope("Fe", 57)
    res = w.I.call(w.I.global_name("activation", "activity"), [no_attr, m, env, t, [sp.Integer(0)]], {})
    ctx.check(res == {}, "R3", "an isotope without activation data gives no products", f"result {_s(res)}", site)
    Env = I.get_class("activation.ActivationEnvironment")
    s_env = "periodictable/activation.py ActivationEnvironment.epithermal_reduction_factor"
    for Cd, want, label in ((sp.Integer(0), 0, "Cd ratio 0"), (sp.Rational(1, 2), 0, "Cd ratio below 1"),
                            (sp.Integer(1), 1, "Cd ratio exactly 1"), (1 + c, 1 / (1 + c), "Cd ratio above 1")):
        e = I.instantiate(Env, [], dict(Cd_ratio=Cd), name="e")
        eq(ctx, "R3", f"epithermal factor: {label}", I.getattr(e, "epithermal_reduction_factor"), want, s_env)
    # two records of one isotope that agree in daughter and reaction are two products
    w, iso, rec, env = make(ctx, "act", False, 0, 0)
    I = w.I
    AR = I.get_class("activation.ActivationResult")
    rec2 = new_record(I, AR, dict(I.heap[rec.id], thermalXS=P("xs2")), "record2")
    w.set(iso, neutron_activation=[rec, rec2])
    res = I.call(I.global_name("activation", "activity"), [iso, m, env, t, [sp.Integer(0)]], {})
    ctx.check(isinstance(res, dict) and len(res) == 2, "R3", "two table rows with the same isotope, daughter and reaction stay two products",
              f"{len(res) if isinstance(res, dict) else res} product(s) reported for two rows", site)
    ctx.floor("R3", 25)

    # ---- R4 calculate_activation ------------------------------------------------------
    _r4(ctx)
    # ---- R5 reader and data -----------------------------------------------------------
    _r5(ctx)
    # (after the reader rules: R6 reads the data file by the documented column names)
    _overflow(ctx, branch_exprs, overflow_site)
    ctx.assume("exp/expm1/log are the mathematical functions (float rounding is not modelled)")


def _r4(ctx):
    from .common import world
    P = lambda n: sp.Symbol(n, positive=True)
    calls = []

    G = lambda iso_: sp.Symbol("K_" + iso_.name.replace("#", ""), positive=True)      # activity per gram at removal (opaque)
    decay = lambda iso_, T_: sp.exp(-sp.log(2) / P("Th_" + iso_.name.replace("#", "")) * T_)
    sig = [a.arg for a in ctx.src.func("activation.activity").node.args.args]

    def fake_activity(I_, args, kw):
        from ptstat.symlib import iterate
        bound = dict(zip(sig, args)); bound.update(kw)
        iso, mass = args[0], args[1]
        calls.append((iso, mass))
        # the product is a record like the ones activity() returns (decay constant ln2/Th_<isotope>, so that code which
        # decays a stored activity itself is followed as well); g_rest is the opaque decay over the rest time
        if iso.id not in product:
            AR_ = I_.get_class("activation.ActivationResult")
            product[iso.id] = new_record(I_, AR_, dict(
                fast=False, thermalXS=P("xs"), resonance=P("res"), Thalf_hrs=P("Th_" + iso.name.replace("#", "")), reaction="act",
                Thalf_parent=sp.Integer(0), thermalXS_parent=sp.Integer(0), resonance_parent=sp.Integer(0), daughter="X-" + iso.name, isotope=iso.name,
                comments="", Thalf_str="1 h", isomer="", symbol="X", A=sp.Integer(1), Z=sp.Integer(1), abundance=sp.Integer(100),
                gT=sp.Integer(1), percentIT=sp.Integer(0)), "product_" + iso.name)
            owner[product[iso.id].id] = iso
        lam_ = sp.log(2) / P("Th_" + iso.name.replace("#", ""))
        return {product[iso.id]: [mass * G(iso) * sp.exp(-lam_ * sp.sympify(T)) for T in iterate(I_, bound["rest_times"])]}
    product, owner = {}, {}
    w = world(ctx, stubs={"activation.activity": fake_activity})
    I, A = w.I, w.atoms
    Fe, Fe56, O = A["element"], A["isotope"], A["element2"]
    Fe54 = w.isotope("Fe", 54)
    w.give_iso_mass(Fe54, "Fe54")
    O16 = w.isotope("O", 16)
    w.give_iso_mass(O16, "O16")
    for iso_, tag in ((Fe54, "Fe54"), (Fe56, "Fe56"), (O16, "O16")):
        w.set(iso_, _abundance=sp.Symbol(f"ab_{tag}", positive=True))
    S = I.get_class("activation.Sample")
    fm = I.global_name("formulas", "formula")
    q = sp.symbols("q1:4", positive=True)
    M = P("M")
    comp = I.call(fm, [{Fe: q[0], Fe56: q[1], O: q[2]}], {})
    smp = I.instantiate(S, [comp, M], {}, name="sample", open_attrs=())
    I.call(I.getattr(smp, "calculate_activation"), [I.new_obj("env")], {"exposure": P("t"), "rest_times": [sp.Integer(0), P("T")]})
    act = I.getattr(smp, "activity")
    if isinstance(act, dict):
        act = {owner.get(getattr(k_, "id", None), k_): v_ for k_, v_ in act.items()}
    mf = I.getattr(comp, "mass_fraction")
    ab = lambda tag: sp.Symbol(f"ab_{tag}", positive=True)
    site = fsite(ctx, "activation.Sample.calculate_activation")
    want = {Fe54: M * mf[Fe] * ab("Fe54") / 100,
            Fe56: M * mf[Fe] * ab("Fe56") / 100 + M * mf[Fe56],
            O16: M * mf[O] * ab("O16") / 100}
    ctx.check(isinstance(act, dict) and set(act) == set(want), "R4", "every isotope of every atom of the sample is activated once",
              f"products for {sorted(map(repr, act)) if isinstance(act, dict) else act}", site)
    if isinstance(act, dict):
        for iso, wv in want.items():
            if iso in act:
                ctx.check(len(act[iso]) == 2, "R4", f"one activity per requested rest time for {iso.name}", f"{_s(act[iso])}", site)
                if len(act[iso]) != 2:
                    continue
                eq(ctx, "R4", f"mass handed to activity() for {iso.name}: mass * mass fraction [* abundance/100], summed per product",
                   act[iso][0], wv * G(iso), site)
                eq(ctx, "R4", f"accumulation is per rest time for {iso.name}", act[iso][1], wv * G(iso) * decay(iso, P("T")), site)
    # reporting the sample (show_table and whatever totals it computes) reads the activities and leaves them as they were
    snap_ = {k_: list(v_) for k_, v_ in I.getattr(smp, "activity").items()} if isinstance(I.getattr(smp, "activity"), dict) else None
    if snap_ is not None and I.hasattr(smp, "show_table"):
        for rep_ in (1, 2):
            rr_ = raises(lambda: I.call(I.getattr(smp, "show_table"), [], {}))
            if rr_ is not None:
                break
        now_ = I.getattr(smp, "activity")
        if rr_ is None:
            same_ = isinstance(now_, dict) and set(now_) == set(snap_) and all(
                len(now_[k_]) == len(snap_[k_]) and all(algebra.equal(x_, y_, seed=ctx.seed, points=3)[0] for x_, y_ in zip(now_[k_], snap_[k_])) for k_ in snap_)
            ctx.check(same_, "R4", "show_table() leaves Sample.activity as it was", "the activities of the sample changed while the table was printed", site)
    # the same Sample asked again: another abundance function, another mass - nothing of the first answer is reused
    tagof = {Fe54.id: "Fe54", Fe56.id: "Fe56", O16.id: "O16"}
    ab2 = Builtin("abundance2", lambda iso_: sp.Symbol(f"ab2_{tagof.get(iso_.id, iso_.name)}", positive=True))
    for what, kw2, abf, mass2 in (("another abundance function", {"abundance": ab2}, lambda tag: sp.Symbol(f"ab2_{tag}", positive=True), M),
                                  ("another sample mass", {}, ab, P("M2"))):
        if mass2 is not M:
            I.setattr(smp, "mass", mass2)
        rr = raises(lambda: I.call(I.getattr(smp, "calculate_activation"), [I.new_obj("env")],
                                   dict(kw2, exposure=P("t"), rest_times=[sp.Integer(0), P("T")])))
        if rr:
            ctx.fail("R4", f"the same Sample recalculated with {what}", f"raises {rr}", site)
            continue
        act2 = I.getattr(smp, "activity")
        act2 = {owner.get(getattr(k_, "id", None), k_): v_ for k_, v_ in act2.items()} if isinstance(act2, dict) else act2
        want2 = {Fe54: mass2 * mf[Fe] * abf("Fe54") / 100, Fe56: mass2 * mf[Fe] * abf("Fe56") / 100 + mass2 * mf[Fe56],
                 O16: mass2 * mf[O] * abf("O16") / 100}
        if not isinstance(act2, dict) or set(act2) != set(want2):
            ctx.fail("R4", f"the same Sample recalculated with {what}", f"products {_s(act2)}", site)
            continue
        for iso, wv in want2.items():
            if len(act2[iso]) == 2:
                eq(ctx, "R4", f"the same Sample recalculated with {what}: activity of {iso.name} at removal", act2[iso][0], wv * G(iso), site)
    ctx.floor("R4", 16)


# (numeric cells in the notations the real table uses: plain decimals, exponents with a sign, upper- and lower-case E)
PROBE = {1: "101", 2: "26", 4: "56", 6: "6.5", 11: "11.5", 13: "y", 14: "1.45E+01", 15: "15.5", 16: "165E-01",
         17: "17.5", 19: "1.95e+01", 20: "20.5", 21: "2.15E-03"}


def _r5(ctx):
    F = folder(ctx)
    names = table_data(ctx, "activation", "COLUMN_NAMES")
    # which columns are integers, flags and numbers is part of the table's format (the documented attributes of a record):
    # stated here by attribute name, so that the rule does not depend on how the reader organises its conversions
    kinds = {"int": ("_index", "Z", "A"), "bool": ("fast",),
             "float": ("abundance", "Thalf_hrs", "thermalXS", "gT", "resonance", "percentIT", "Thalf_parent",
                       "thermalXS_parent", "resonance_parent")}
    col_of = {nm: i for i, nm in enumerate(names)}
    INT, BOOL, FLT = ([col_of[n] for n in kinds[k] if n in col_of] for k in ("int", "bool", "float"))
    if len(INT) != 3 or len(BOOL) != 1 or len(FLT) < 8:
        raise AnalysisError(f"COLUMN_NAMES does not list the documented numeric attributes: {names}")
    site = fsite(ctx, "activation.init")
    text = ctx.src.data_file("periodictable/activation.dat")
    rows = [r.split("\t") for r in text.split("\n") if r.strip() != ""]
    data = [r for r in rows if r[0].strip() not in ("", "xx")]
    ctx.unit("activation_rows", len(data))
    strip = lambda c_: c_[1:-1] if c_.startswith('"') else c_
    ctx.check(len(names) == 23, "R5", "COLUMN_NAMES has 23 names", f"{len(names)} names", site)
    bad = [i for i, r in enumerate(data) if len(r) != len(names)]
    ctx.check(not bad, "R5", "every data row has as many tab-separated fields as COLUMN_NAMES",
              f"rows {bad[:5]} differ", "periodictable/activation.dat", sample={"rows": len(data)})
    is_int = lambda s: re.fullmatch(r"\s*-?\d+\s*", s) is not None
    is_flt = lambda s: s.strip() == "" or re.fullmatch(r"\s*-?(\d+\.?\d*|\.\d+)([eE][-+]?\d+)?\s*", s) is not None
    for cols, pred, kind in ((INT, is_int, "integer"), (FLT, is_flt, "float or empty")):
        for cidx in cols:
            badr = [r[5] for r in data if not pred(strip(r[cidx]))]
            ctx.check(not badr, "R5", f"column {cidx} ({names[cidx]}) is lexically {kind} in every row",
                      f"rows {badr[:4]} are not", "periodictable/activation.dat")
    for cidx in BOOL:
        vals = {strip(r[cidx]) for r in data}
        ctx.check(vals <= {"y", "n", ""}, "R5", f"column {cidx} ({names[cidx]}) holds y/n", f"values {sorted(vals)}",
                  "periodictable/activation.dat")
    # numeric columns not declared numeric would be served as strings
    for cidx, nm in enumerate(names):
        if cidx in INT or cidx in FLT or cidx in BOOL:
            continue
        allnum = all(is_flt(strip(r[cidx])) and strip(r[cidx]).strip() != "" for r in data)
        used_numeric = nm in ("thermalXS", "resonance", "Thalf_hrs", "Thalf_parent", "thermalXS_parent", "resonance_parent", "abundance")
        ctx.check(not used_numeric, "R5", f"column {cidx} ({nm}) is text and is not used in arithmetic",
                  f"column {nm} enters the activity arithmetic but is not converted to a number", site)
    # cross-column lint
    units = {"s": 1 / 3600.0, "m": 1 / 60.0, "h": 1.0, "d": 24.0, "y": 24.0 * 365.0, "Gy": 24 * 365e9, "ky": 24 * 365e3, "My": 24 * 365e6,
             "Ty": 24 * 365e12}
    bad = []
    for r in data:
        sym, A_, isot = strip(r[3]), strip(r[4]), strip(r[5])
        if isot.replace(" ", "") != f"{sym}-{A_}":
            bad.append(isot)
    ctx.check(not bad, "R5", "isotope column = symbol-A in every row (Z, symbol, A name the receiver)", f"{bad[:4]}",
              "periodictable/activation.dat")
    el = F.const("core", "element_base")
    bad = [strip(r[5]) for r in data if el.get(int(strip(r[2])), [None, None])[1] != strip(r[3])]
    ctx.check(not bad, "R5", "Z and symbol agree with the element table in every row", f"{bad[:4]}", "periodictable/activation.dat")
    bad = []
    for r in data:
        try:
            th, u, hrs = float(strip(r[8])), strip(r[9]).strip(), float(strip(r[17]))
        except ValueError:
            bad.append(strip(r[5]))
            continue
        if u in units and abs(th * units[u] - hrs) > 0.02 * hrs:
            bad.append((strip(r[5]), th, u, hrs))
    ctx.check(len(bad) == 0, "R5", "Thalf_hrs is the half-life in hours (= value * unit) in every row",
              f"{bad[:4]}", "periodictable/activation.dat", sample={"rows": len(data)})

    # reader shape: interpret init() on one probe row whose cells are distinct tags
    cells = [PROBE.get(i, f"c{i}") for i in range(len(names))]
    cells[0] = '"Fe"'
    cells[22] = '"note"\n'
    probe = "\t".join(cells)
    w = World(ctx.src, loaders=())
    I = w.I
    iso = w.isotope("Fe", 56)
    # a second row of another shape: not a fast reaction by its flag although its reaction column reads like one, and
    # numeric cells that are blank or hold only white space (as seven rows of the real table do): it is kept, blanks are 0
    cells2 = list(cells)
    cells2[4] = "57"
    cells2[5] = '"Fe-57"'
    cells2[col_of["fast"]] = "n"
    cells2[col_of["reaction"]] = '"n,p"'
    cells2[col_of["gT"]] = " "
    cells2[col_of["percentIT"]] = ""
    probe2 = "\t".join(cells2)
    if not probe.endswith("\n"):
        probe += "\n"
    iso57 = w.isotope("Fe", 57)
    I.builtins["open"] = Builtin("open", lambda *a, **k: TextFile(["\t\t\n", "xx\tskipped\n", probe, probe2], "activation.dat"))
    I.stubs["core.get_data_path"] = lambda I_, a, k: "/data"
    try:
        I.call(I.global_name("activation", "init"), [w.table], {})
    except SymRaise as exc:
        ctx.fail("R5", "activation.init reads a well-formed row", f"raises {exc} on a probe row of 23 cells", site)
        return
    recs = I.heap[iso.id].get("neutron_activation")
    ctx.check(isinstance(recs, list) and len(recs) == 1, "R5", "the record is attached to table[Z][A] of the Z and A columns",
              f"Fe[56].neutron_activation = {_s(recs)}", site)
    if isinstance(recs, list) and len(recs) == 1:
        got = I.heap[recs[0].id]
        for cidx, nm in enumerate(names):
            if nm.startswith("_"):
                ctx.check(nm not in got, "R5", f"helper column {nm} is not served", "served", site)
                continue
            cell = strip(cells[cidx]).strip()
            if cidx in INT:
                want = sp.Integer(int(cell))
            elif cidx in FLT:
                want = sp.Rational(cell)
            elif cidx in BOOL:
                want = True
            else:
                want = cell
            have = got.get(nm, "<missing>")
            if nm == "comments":
                want = "note"
            if nm == "Thalf_str":
                want = "c8 c9"
            ctx.check(have == want, "R5", f"attribute {nm} is served from column {cidx}",
                      f"{nm} = {have!r}, expected the cell of column {cidx} ({want!r})", site, sample={nm: str(have)})
    recs2 = I.heap[iso57.id].get("neutron_activation")
    ctx.check(isinstance(recs2, list) and len(recs2) == 1, "R5", "a row whose numeric cells are blank or white space is loaded like any other",
              f"Fe[57].neutron_activation = {_s(recs2)}: the row was dropped", site)
    if isinstance(recs2, list) and len(recs2) == 1:
        got2 = I.heap[recs2[0].id]
        ctx.check(got2.get("fast") is False, "R5", "the fast flag is the table's y/n column, whatever the reaction column says",
                  f"fast = {got2.get('fast')!r} for a row flagged 'n' whose reaction is 'n,p'", site)
        ctx.check(got2.get("gT") == 0 and got2.get("percentIT") == 0, "R5", "blank numeric cells are served as 0",
                  f"gT = {got2.get('gT')!r}, percentIT = {got2.get('percentIT')!r}", site)
    ctx.check("neutron_activation" in I.heap[w.table.id].get("properties", []), "R5", "init marks the table as loaded", "not marked", site)
    _parents(ctx, names, col_of, site)
    ctx.floor("R5", 41)
    ctx.extra["exhaustive"] = True
