"""C11 - mixtures keep the requested mass or volume proportions and a consistent density."""
from __future__ import annotations

import ast
import re

import sympy as sp

from ptstat import AnalysisError, algebra
from ptstat.symval import SymObj, Phi, SymRaise, merge
from ptstat.world import mass_sym
from .common import world, eq, dict_eq, fsite, raises, folder, _s, public_entry_points, table_data
from .C12 import action, action_site, _action_qual, action_tokens

EXPLANATION = (
    "Value graphs of _mix_by_weight_pairs/_mix_by_volume_pairs, of mix_by_weight/mix_by_volume and of "
    "the five mixture parse actions (called on token lists of the shape the grammar produces) are "
    "built from the current source over generic components (compounds with symbolic counts, masses "
    "and densities) and compared as algebraic identities with the specification: component masses "
    "(volumes) in the ratio of the requested quantities, invariance under rescaling of a component's "
    "formula unit, density = total mass / total volume, zero-quantity components dropped, remainder "
    "to the last component, unit factors, total_mass / thickness.  The unit tables are folded from "
    "the source and compared with SI prefixes and with the unit lists of the documented grammar.  "
    "Not decided: round-off for very unequal quantities.")

SI = {"n": sp.Rational(1, 10 ** 9), "u": sp.Rational(1, 10 ** 6), "m": sp.Rational(1, 1000),
      "c": sp.Rational(1, 100), "k": sp.Integer(1000), "": sp.Integer(1)}


def _callee_key(fn):
    from ptstat.symval import BoundMethod, Closure
    if isinstance(fn, BoundMethod):
        return (getattr(fn.fn, "qual", repr(fn.fn)), id(fn.selfval))
    return (getattr(fn, "qual", repr(fn)), None)


def _pair_calls(I, thunk):
    """the calls made while *thunk* runs whose only argument is a sequence of (formula, quantity) pairs"""
    from ptstat.symval import BoundMethod, Closure, GenVal

    def is_formula(v):
        return isinstance(v, SymObj) and v.cls is not None and any(k.name == "Formula" for k in [v.cls] + list(v.cls.bases))

    def is_pairs(v):
        items = v.items[v.pos:] if isinstance(v, GenVal) else v
        return isinstance(items, (list, tuple)) and len(items) >= 2 and \
            all(isinstance(p_, tuple) and len(p_) == 2 and is_formula(p_[0]) for p_ in items)
    I.call_log = []
    try:
        try:
            thunk()
        except (SymRaise, AnalysisError):
            pass
        log = I.call_log
    finally:
        I.call_log = None
    out = []
    for fn, args, kwargs in log:
        if isinstance(fn, Closure) and fn.cls is not None and args and not is_pairs(args[0]) and len(args) == 2:
            continue                 # the unbound form of a method call already logged in its bound form
        if args and is_pairs(args[0]) and not any(is_pairs(x) for x in list(args[1:]) + list(kwargs.values())):
            out.append(fn)          # (further arguments - options, tolerances - do not change the role)
    return out


def mix_helper(ctx, I, w, mode):
    """(qualified name, callable) of the private function that both mix_by_<mode>() and the '<mode>%' parse action hand their
    (formula, quantity) pairs to - found by what it is handed when both run (plain function, alias, classmethod of a strategy
    class ...), not by its name or by a call edge in the text"""
    fm = I.global_name("formulas", "formula")
    A = w.atoms
    mk = lambda: (I.call(fm, [{A["element"]: sp.Integer(1)}], {"density": sp.Integer(5)}),
                  I.call(fm, [{A["element2"]: sp.Integer(1)}], {"density": sp.Integer(3)}))
    f1, f2 = mk()
    fn = I.global_name("formulas", f"mix_by_{mode}")
    a = _pair_calls(I, lambda: I.call(fn, [f1, sp.Integer(2), f2, sp.Integer(3)], {}))
    g1, g2 = mk()
    unit_ = {"weight": "wt%", "volume": "vol%"}[mode]
    act = action(I, w, f"convert_by_{mode}")
    b = _pair_calls(I, lambda: I.call(act, ["<s>", 0, action_tokens(I, w, f"convert_by_{mode}", f"7{unit_} Fe // O2", {}, [g1, g2])], {}))
    keys_b = {_callee_key(f_) for f_ in b}
    cand = []
    for f_ in a:
        if _callee_key(f_) in keys_b and _callee_key(f_) not in {_callee_key(c_) for c_ in cand}:
            cand.append(f_)
    if not cand:
        raise AnalysisError(f"expected one pair-mixing helper shared by mix_by_{mode} and its parse action, found "
                            f"{[_callee_key(f_)[0] for f_ in a]} / {[_callee_key(f_)[0] for f_ in b]}")
    helper = cand[0]                  # the outermost common callee
    return _callee_key(helper)[0], helper


def _reaches(I, thunk, helper):
    return any(_callee_key(f_) == _callee_key(helper) for f_ in _pair_calls(I, thunk))


def run(ctx):
    from ptstat import symval
    symval.OPTIONS["unit_groups"] = True     # only compositions are compared here, never nesting
    try:
        _run(ctx)
    finally:
        symval.OPTIONS["unit_groups"] = False


def _run(ctx):
    w = world(ctx)
    I, A = w.I, w.atoms
    fm = I.global_name("formulas", "formula")
    HELPER = {mode: mix_helper(ctx, I, w, mode) for mode in ("weight", "volume")}
    Fe, O, H = A["element"], A["element2"], A["H"]
    a = sp.symbols("a1:4", positive=True)
    q = sp.symbols("q1:4", positive=True)
    d = sp.symbols("d1:4", positive=True)
    k = sp.Symbol("k", positive=True)
    mFe, mO, mH = mass_sym("Fe"), mass_sym("O"), mass_sym("H")

    def comps(scale=1, dens=(True, True, True)):
        f1 = I.call(fm, [{Fe: scale * a[0]}], {"density": d[0]} if dens[0] else {"density": None})
        if not dens[0]:
            I.setattr(f1, "density", None)
        f2 = I.call(fm, [{O: a[1], H: a[2]}], {"density": d[1]} if dens[1] else {})
        f3 = I.call(fm, [{H: sp.Integer(2)}], {"density": d[2]})
        return f1, f2, f3
    M1, M2, M3 = a[0] * mFe, a[1] * mO + a[2] * mH, 2 * mH

    # ---- R1 the two helpers ------------------------------------------------------
    for mode, helper, unit in (("weight", HELPER["weight"][0], lambda M, dd: M),
                               ("volume", HELPER["volume"][0], lambda M, dd: M / dd)):
        site = fsite(ctx, helper)
        hf = HELPER[mode][1]
        # only the ratio of the quantities matters: very small (and very large) concrete quantities
        for scale_q in (sp.Rational(1, 10 ** 12), sp.Integer(10) ** 9):
            f1, f2, f3 = comps()
            rs = I.call(hf, [[(f1, 3 * scale_q), (f3, 2 * scale_q)]], {})
            ats = I.getattr(rs, "atoms")
            ctx.check(set(ats) == {Fe, H}, "R1", f"by {mode}: quantities 3 and 2 scaled by {float(scale_q):g} keep both components",
                      f"atoms {sorted(map(repr, ats))}", site)
            if set(ats) == {Fe, H}:
                eq(ctx, "R1", f"by {mode}: quantities scaled by {float(scale_q):g} give the same proportions",
                   ats[Fe] / a[0] * unit(M1, d[0]) * 2, ats[H] / 2 * unit(M3, d[2]) * 3, site)
        # very unequal quantities: a trace component is still a component
        for big, small in ((sp.Integer(1), sp.Rational(1, 10 ** 12)), (sp.Integer(10) ** 6, sp.Rational(1, 10 ** 9))):
            f1, f2, f3 = comps()
            rs = I.call(hf, [[(f1, big), (f3, small)]], {})
            ats = I.getattr(rs, "atoms")
            ctx.check(set(ats) == {Fe, H}, "R1", f"by {mode}: quantities {float(big):g} and {float(small):g} keep the trace component",
                      f"atoms {sorted(map(repr, ats))}", site)
            if set(ats) == {Fe, H}:
                eq(ctx, "R1", f"by {mode}: quantities {float(big):g} and {float(small):g} give that proportion",
                   ats[Fe] / a[0] * unit(M1, d[0]) * small, ats[H] / 2 * unit(M3, d[2]) * big, site)
        f1, f2, f3 = comps()
        r = I.call(hf, [[(f1, q[0]), (f2, q[1]), (f3, q[2])]], {})
        at = I.getattr(r, "atoms")
        n1, n2, n3 = at[Fe] / a[0], at[O] / a[1], (at[H] - at[O] / a[1] * a[2]) / 2
        eq(ctx, "R1", f"by {mode}: amounts of components 1 and 2 are in the requested ratio",
           n1 * unit(M1, d[0]) * q[1], n2 * unit(M2, d[1]) * q[0], site)
        eq(ctx, "R1", f"by {mode}: amounts of components 2 and 3 are in the requested ratio",
           n2 * unit(M2, d[1]) * q[2], n3 * unit(M3, d[2]) * q[1], site)
        tot_m = n1 * M1 + n2 * M2 + n3 * M3
        tot_v = n1 * M1 / d[0] + n2 * M2 / d[1] + n3 * M3 / d[2]
        eq(ctx, "R1", f"by {mode}: mixture density = total mass / total volume", I.getattr(r, "density"), tot_m / tot_v, site)
        # zero quantity vanishes
        f1, f2, f3 = comps()
        r0 = I.call(hf, [[(f1, q[0]), (f2, sp.Integer(0)), (f3, q[2])]], {})
        at0 = I.getattr(r0, "atoms")
        ctx.check(O not in at0 and set(at0) == {Fe, H}, "R1", f"by {mode}: a zero-quantity component vanishes",
                  f"atoms {sorted(map(repr, at0))}", site)
        if O not in at0 and set(at0) == {Fe, H}:
            eq(ctx, "R1", f"by {mode}: the other components keep their ratio when one in the middle is zero",
               at0[Fe] / a[0] * unit(M1, d[0]) * q[2], at0[H] / 2 * unit(M3, d[2]) * q[0], site)
            eq(ctx, "R1", f"by {mode}: density with a zero-quantity component in the middle", I.getattr(r0, "density"),
               (at0[Fe] * mFe + at0[H] * mH) / (at0[Fe] * mFe / d[0] + at0[H] * mH / d[2]), site)
        # the same compound twice at two densities (two phases) is two components
        fa = I.call(fm, [{Fe: a[0]}], {"density": d[0]})
        fb = I.call(fm, [{Fe: a[0]}], {"density": d[1]})
        rp = I.call(hf, [[(fa, q[0]), (fb, q[1])]], {})
        want_d = (q[0] + q[1]) / (q[0] / d[0] + q[1] / d[1]) if mode == "weight" else (q[0] * d[0] + q[1] * d[1]) / (q[0] + q[1])
        eq(ctx, "R1", f"by {mode}: the same compound at two densities: mixture density = total mass / total volume",
           I.getattr(rp, "density"), want_d, site)
        # a zero-quantity component of unknown density vanishes too (it needs no density)
        g1, g2, g3 = comps(dens=(True, False, True))
        rr = raises(lambda: I.call(hf, [[(g1, q[0]), (g2, sp.Integer(0)), (g3, q[2])]], {}))
        ctx.check(rr is None, "R1", f"by {mode}: a zero-quantity component of unknown density is accepted", f"raises {rr}", site)
        if rr is None and O not in at0 and set(at0) == {Fe, H}:
            g1, g2, g3 = comps(dens=(True, False, True))
            rz = I.call(hf, [[(g1, q[0]), (g2, sp.Integer(0)), (g3, q[2])]], {})
            dz = I.getattr(rz, "density")
            if dz is None:
                ctx.fail("R1", f"by {mode}: density with a zero-quantity component of unknown density",
                         "the mixture density is None although every component that is present has a density", site)
            else:
                eq(ctx, "R1", f"by {mode}: density with a zero-quantity component of unknown density", dz,
                   (at0[Fe] * mFe + at0[H] * mH) / (at0[Fe] * mFe / d[0] + at0[H] * mH / d[2]), site)
        # rescaling a component's formula unit changes nothing
        f1k, f2k, f3k = comps(scale=k)
        rk = I.call(hf, [[(f1k, q[0]), (f2k, q[1]), (f3k, q[2])]], {})
        mf, mfk = I.getattr(r, "mass_fraction"), I.getattr(rk, "mass_fraction")
        eq(ctx, "R1", f"by {mode}: mass fraction of a component does not depend on its formula unit", mfk[Fe], mf[Fe], site)
        eq(ctx, "R1", f"by {mode}: density does not depend on the formula unit", I.getattr(rk, "density"), I.getattr(r, "density"), site)
        # single component
        f1, f2, f3 = comps()
        r1 = I.call(hf, [[(f2, q[1])]], {})
        eq(ctx, "R1", f"by {mode}: a single component keeps its density", I.getattr(r1, "density"), d[1], site)
        # nothing to mix
        re_ = I.call(hf, [[]], {})
        ctx.check(I.getattr(re_, "atoms") == {}, "R1", f"by {mode}: no components give the empty formula", "not empty", site)
    # missing densities
    f1, f2, f3 = comps(dens=(True, False, True))
    r = I.call(HELPER["weight"][1], [[(f1, q[0]), (f2, q[1])]], {})
    ctx.check(I.getattr(r, "density") is None, "R1", "by weight: unknown component density leaves the mixture density unknown",
              f"density {_s(I.getattr(r, 'density'))}", fsite(ctx, HELPER["weight"][0]))
    rr = raises(lambda: I.call(HELPER["volume"][1], [[(f1, q[0]), (f2, q[1])]], {}))
    ctx.check(rr == "ValueError", "R1", "by volume: unknown component density raises ValueError", f"got {rr}",
              fsite(ctx, HELPER["volume"][0]))
    ctx.floor("R1", 40)

    # ---- stock materials given as Formula objects: the mixers read them, never change them, and read them again next time --
    dd_, dn_ = sp.symbols("d_mix d_new", positive=True)
    for mname in ("mix_by_weight", "mix_by_volume"):
        mixer = I.global_name("formulas", mname)
        msite = fsite(ctx, f"formulas.{mname}")
        f1, f2, f3 = comps()
        for other_q in (sp.Integer(0), q[1]):
            rr = raises(lambda: I.call(mixer, [f1, q[0], f3, other_q], {"density": dd_, "name": "mixture"}))
            if rr is not None:
                ctx.fail("R1", f"{mname}(stock, q, other, {other_q}, density=, name=)", f"raises {rr}", msite)
                continue
            res_ = I.call(mixer, [f1, q[0], f3, other_q], {"density": dd_, "name": "mixture"})
            ctx.check(res_ is not f1 and res_ is not f3, "R1", f"{mname} with the other quantity {other_q}: the mixture is a new formula, not one of the parts",
                      "a part is handed back as the mixture", msite)
            eq(ctx, "R1", f"{mname} with the other quantity {other_q}: the density= keyword is not written onto a part", I.getattr(f1, "density"), d[0], msite)
            ctx.check(I.getattr(f1, "name") in (None, ""), "R1", f"{mname} with the other quantity {other_q}: the name= keyword is not written onto a part",
                      f"the part is now named {I.getattr(f1, 'name')!r}", msite)
        # the same stock objects mixed again after a density was corrected: the new density is what counts
        f1, f2, f3 = comps()
        I.call(mixer, [f1, q[0], f3, q[1]], {})
        I.setattr(f1, "density", dn_)
        again_ = I.call(mixer, [f1, q[0], f3, q[1]], {})
        g1 = I.call(fm, [{Fe: a[0]}], {"density": dn_})
        g3 = I.call(fm, [{H: sp.Integer(2)}], {"density": d[2]})
        fresh_ = I.call(mixer, [g1, q[0], g3, q[1]], {})
        eq(ctx, "R1", f"{mname} of the same stock objects after one density was corrected: density of the mixture", I.getattr(again_, "density"),
           I.getattr(fresh_, "density"), msite)
        eq(ctx, "R1", f"{mname} of the same stock objects after one density was corrected: iron fraction", I.getattr(again_, "mass_fraction")[Fe],
           I.getattr(fresh_, "mass_fraction")[Fe], msite)

    # ---- R2 call forms and string forms reach the same helpers ---------------------
    aq = lambda role: _action_qual(action(I, w, role))
    f1, f2, f3 = comps()
    runs = (("mix_by_weight", "weight", lambda: I.call(I.global_name("formulas", "mix_by_weight"), [f1, q[0], f2, q[1]], {})),
            ("mix_by_volume", "volume", lambda: I.call(I.global_name("formulas", "mix_by_volume"), [f1, q[0], f2, q[1]], {})),
            ("convert_by_weight", "weight", lambda: I.call(action(I, w, "convert_by_weight"), ["<s>", 0, action_tokens(I, w, "convert_by_weight", "7wt% Fe // O2", {}, [f1, f2])], {})),
            ("convert_by_volume", "volume", lambda: I.call(action(I, w, "convert_by_volume"), ["<s>", 0, action_tokens(I, w, "convert_by_volume", "7vol% Fe // O2", {}, [f1, f2])], {})),
            ("convert_by_layer", "volume", lambda: I.call(action(I, w, "convert_by_layer"), ["<s>", 0, action_tokens(I, w, "convert_by_layer", "7 nm Fe // 11 nm O2", {}, [f1, f2])], {})),
            ("convert_by_absmass", "weight", lambda: I.call(action(I, w, "convert_by_absmass"), ["<s>", 0, action_tokens(I, w, "convert_by_absmass", "7 g Fe // 11 g O2", {}, [f1, f2])], {})))
    for caller, mode_, thunk in runs:
        cq = f"formulas.{caller}" if caller.startswith("mix_") else aq(caller)
        ctx.check(_reaches(I, thunk, HELPER[mode_][1]), "R2", f"{caller} -> {HELPER[mode_][0].split('.')[-1]}",
                  f"{cq} no longer hands its (formula, quantity) pairs to {HELPER[mode_][0]}", fsite(ctx, cq))
    # the call forms: argument handling
    for mode in ("weight", "volume"):
        fn = I.global_name("formulas", f"mix_by_{mode}")
        hf = HELPER[mode][1]
        site = fsite(ctx, f"formulas.mix_by_{mode}")
        f1, f2, f3 = comps()
        r = I.call(fn, [f1, q[0], f2, q[1]], {})
        rh = I.call(hf, [[(f1, q[0]), (f2, q[1])]], {})
        eq(ctx, "R2", f"mix_by_{mode}(f1, q1, f2, q2) = helper on the pairs [atoms]", I.getattr(r, "atoms")[Fe], I.getattr(rh, "atoms")[Fe], site)
        eq(ctx, "R2", f"mix_by_{mode}(f1, q1, f2, q2) = helper on the pairs [density]", I.getattr(r, "density"), I.getattr(rh, "density"), site)
        dd = sp.Symbol("dd", positive=True)
        r = I.call(fn, [f1, q[0], f2, q[1]], {"density": dd, "name": "mix"})
        eq(ctx, "R2", f"mix_by_{mode}(..., density=d) overrides the estimate", I.getattr(r, "density"), dd, site)
        ctx.check(I.getattr(r, "name") == "mix", "R2", f"mix_by_{mode}(..., name=) names the mixture", "name not set", site)
        # a component that was inspected (mass, density, atoms read) and then scaled is mixed as the scaled compound
        f1, f2, f3 = comps()
        for attr in ("mass", "atoms", "mass_fraction", "density"):
            I.getattr(f1, attr)
        big = I.call(I.getattr(f1, "__rmul__"), [k], {})
        rb = I.call(fn, [big, q[0], f2, q[1]], {})
        eq(ctx, "R2", f"mix_by_{mode}(k*f1, q1, f2, q2) after f1.mass was read: same mass fractions as with f1",
           I.getattr(rb, "mass_fraction")[Fe], I.getattr(rh, "mass_fraction")[Fe], site)
        eq(ctx, "R2", f"mix_by_{mode}(k*f1, q1, f2, q2) after f1.mass was read: same density as with f1",
           I.getattr(rb, "density"), I.getattr(rh, "density"), site)
        rr = raises(lambda: I.call(fn, [f1, q[0], f2], {}))
        ctx.check(rr == "ValueError", "R2", f"mix_by_{mode} with a missing quantity raises ValueError", f"got {rr}", site)
        rr = raises(lambda: I.call(fn, [f1, q[0]], {"bogus": 1}))
        ctx.check(rr == "TypeError", "R2", f"mix_by_{mode} with an unknown keyword raises TypeError", f"got {rr}", site)
    public_entry_points(ctx, "RW", [("mix_by_weight", "formulas.mix_by_weight"), ("mix_by_volume", "formulas.mix_by_volume"), ("formula", "formulas.formula")])
    ctx.floor("R2", 22)

    # ---- R3 parse actions ---------------------------------------------------------
    p1, p2 = sp.symbols("p1 p2", positive=True)
    I.positive = [100 - p1 - p2, 100 - p1, 100 - p2]      # the percentages leave a positive remainder
    for mode in ("weight", "volume"):
        act = action(I, w, f"convert_by_{mode}")
        hf = HELPER[mode][1]
        site = action_site(ctx, I, w, f"convert_by_{mode}")
        f1, f2, f3 = comps()
        unit_ = {"weight": "wt%", "volume": "vol%"}[mode]
        toks = lambda a_, b_, fs: action_tokens(I, w, f"convert_by_{mode}", f"7{unit_} Fe // 11% Co // O2" if b_ is not None else f"7{unit_} Fe // O2",
                                                {7: a_, 11: b_} if b_ is not None else {7: a_}, fs)
        # a remainder of a tenth of a part per million is still a component (a dopant), as in the equivalent call
        f1, f2, f3 = comps()
        tiny = sp.Rational(999999999, 10 ** 7)
        rr = raises(lambda: I.call(act, ["<s>", 0, toks(tiny, None, [f1, f3])], {}))
        if rr is not None:
            ctx.fail("R3", f"by {mode}: 99.9999999% leaves 1e-7 % for the last part", f"raises {rr}", site)
        else:
            r = I.call(act, ["<s>", 0, toks(tiny, None, [f1, f3])], {})
            f1b, f2b, f3b = comps()
            rh = I.call(hf, [[(f1b, tiny), (f3b, 100 - tiny)]], {})
            ga, ha = I.getattr(r, "atoms"), I.getattr(rh, "atoms")
            ctx.check(H in ga and sp.simplify(sp.sympify(ga[H])) != 0, "R3", f"by {mode}: 99.9999999% leaves 1e-7 % for the last part: it is still there",
                      "the last component vanished", site, witness="99.9999999% A // B")
            if H in ga and H in ha:
                eq(ctx, "R3", f"by {mode}: 99.9999999% // remainder = helper([(A, 99.9999999), (B, 1e-7)])", ga[H] / ga[Fe], ha[H] / ha[Fe], site)
        r = I.call(act, ["<s>", 0, toks(p1, p2, [f1, f2, f3])], {})
        rh = I.call(hf, [[(f1, p1), (f2, p2), (f3, 100 - p1 - p2)]], {})
        for atom in (Fe, O, H):
            eq(ctx, "R3", f"'p1 {mode[0]}% A // p2% B // C': count of {atom!r} as helper([(A,p1),(B,p2),(C,100-p1-p2)])",
               I.getattr(r, "atoms")[atom], I.getattr(rh, "atoms")[atom], site)
        f1, f2, f3 = comps()
        rr = raises(lambda: I.call(act, ["<s>", 0, toks(sp.Integer(60), sp.Integer(50), [f1, f2, f3])], {}))
        ctx.check(rr == "ValueError", "R3", f"by {mode}: percentages above 100 raise ValueError", f"got {rr}", site)
        # boundaries of the percentages: a remainder below one percent, and no remainder at all
        for pa, pb in ((sp.Integer(60), sp.Rational(79, 2)), (sp.Rational(999, 10), sp.Rational(1, 20))):
            f1, f2, f3 = comps()
            rr = raises(lambda: I.call(act, ["<s>", 0, toks(pa, pb, [f1, f2, f3])], {}))
            ctx.check(rr is None, "R3", f"by {mode}: {float(pa):g}% + {float(pb):g}% leaves {float(100 - pa - pb):g}% for the last part", f"raises {rr}", site)
        f1, f2, f3 = comps()
        rr = raises(lambda: I.call(act, ["<s>", 0, toks(sp.Integer(60), sp.Integer(40), [f1, f2, f3])], {}))
        ctx.check(rr is None, "R3", f"by {mode}: percentages summing to exactly 100 are accepted (the last part gets nothing)", f"raises {rr}", site)
        f1, f2, f3 = comps()
        r = I.call(act, ["<s>", 0, toks(sp.Integer(30), None, [f1, f3])], {})
        rh = I.call(hf, [[(f1, sp.Integer(30)), (f3, sp.Integer(70))]], {})
        eq(ctx, "R3", f"by {mode}: two parts, remainder goes to the last", I.getattr(r, "atoms")[H], I.getattr(rh, "atoms")[H], site)
    # layers
    act = action(I, w, "convert_by_layer")
    site = action_site(ctx, I, w, "convert_by_layer")
    hv = HELPER["volume"][1]
    t1, t2 = sp.symbols("t1 t2", positive=True)
    for u1, u2 in (("nm", "um"), ("mm", "cm")):
        f1, f2, f3 = comps()
        r = I.call(act, ["<s>", 0, action_tokens(I, w, "convert_by_layer", f"7 {u1} Fe // 11 {u2} Co", {7: t1, 11: t2}, [f1, f2])], {})
        rh = I.call(hv, [[(f1, t1 * SI[u1[0]]), (f2, t2 * SI[u2[0]])]], {})
        eq(ctx, "R3", f"'t1 {u1} A // t2 {u2} B': volume mix in the ratio of the thicknesses in metres",
           I.getattr(r, "mass_fraction")[Fe], I.getattr(rh, "mass_fraction")[Fe], site)
        eq(ctx, "R3", f"layers [{u1},{u2}]: thickness records the total in metres", I.getattr(r, "thickness"),
           t1 * SI[u1[0]] + t2 * SI[u2[0]], site)
    f1, f2, f3 = comps()
    inner = I.call(act, ["<s>", 0, action_tokens(I, w, "convert_by_layer", "7 nm Fe // 11 nm Co", {7: t1, 11: t2}, [f1, f2])], {})
    rep = sp.Symbol("rep", positive=True)
    outer = lambda: action_tokens(I, w, "convert_by_layer", "(7 nm Fe // 11 nm Co)5 // 13 um O2", {5: rep, 13: t2}, [inner, f3])
    rr = raises(lambda: I.call(act, ["<s>", 0, outer()], {}))
    ctx.check(rr is None, "R3", "repeated layer group '(...)n // t C' is accepted", f"raises {rr}", site)
    if rr is None:
        r = I.call(act, ["<s>", 0, outer()], {})
        eq(ctx, "R3", "repeated layer group: thickness = n * inner thickness + rest", I.getattr(r, "thickness"),
           rep * (t1 + t2) * SI["n"] + t2 * SI["u"], site)
        rh = I.call(hv, [[(inner, rep * (t1 + t2) * SI["n"]), (f3, t2 * SI["u"])]], {})
        eq(ctx, "R3", "repeated layer group: volume fractions", I.getattr(r, "mass_fraction")[Fe],
           I.getattr(rh, "mass_fraction")[Fe], site)
    one = I.call(act, ["<s>", 0, [inner]], {})
    ctx.check(one == [inner], "R3", "a single nested layer group passes through", f"returned {_s(one)}", site)
    # absolute masses and volumes
    act = action(I, w, "convert_by_absmass")
    site = action_site(ctx, I, w, "convert_by_absmass")
    hw = HELPER["weight"][1]
    v1, v2 = sp.symbols("v1 v2", positive=True)
    for u1, u2 in (("mg", "kg"), ("g", "ug"), ("ng", "g")):
        f1, f2, f3 = comps()
        r = I.call(act, ["<s>", 0, action_tokens(I, w, "convert_by_absmass", f"7 {u1} Fe // 11 {u2} Co", {7: v1, 11: v2}, [f1, f2])], {})
        g1, g2 = v1 * SI[u1[:-1]], v2 * SI[u2[:-1]]
        rh = I.call(hw, [[(f1, g1), (f2, g2)]], {})
        eq(ctx, "R3", f"'v1 {u1} A // v2 {u2} B': weight mix in the ratio of the masses in grams",
           I.getattr(r, "mass_fraction")[Fe], I.getattr(rh, "mass_fraction")[Fe], site)
        eq(ctx, "R3", f"masses [{u1},{u2}]: total_mass records the total in grams", I.getattr(r, "total_mass"), g1 + g2, site)
    for u1, u2 in (("mL", "g"), ("L", "uL"), ("nL", "mg")):
        f1, f2, f3 = comps()
        r = I.call(act, ["<s>", 0, action_tokens(I, w, "convert_by_absmass", f"7 {u1} Fe // 11 {u2} Co", {7: v1, 11: v2}, [f1, f2])], {})
        g1 = v1 * SI[u1[:-1]] * 1000 * d[0]                      # litres -> mL -> grams
        g2 = v2 * SI[u2[:-1]] * (1000 * d[1] if u2.endswith("L") else 1)
        eq(ctx, "R3", f"volumes [{u1},{u2}]: total_mass = volume * density in grams", I.getattr(r, "total_mass"), g1 + g2, site)
        rh = I.call(hw, [[(f1, g1), (f2, g2)]], {})
        eq(ctx, "R3", f"'v1 {u1} A // v2 {u2} B': mass fractions", I.getattr(r, "mass_fraction")[Fe], I.getattr(rh, "mass_fraction")[Fe], site)
    f1, f2, f3 = comps(dens=(True, False, True))
    rr = raises(lambda: I.call(act, ["<s>", 0, action_tokens(I, w, "convert_by_absmass", "7 mL Fe // 11 g Co", {7: v1, 11: v2}, [f2, f1])], {}))
    ctx.check(rr == "ValueError", "R3", "a volume of a material of unknown density raises ValueError", f"got {rr}", site)
    f1, f2, f3 = comps()
    inner = I.call(act, ["<s>", 0, action_tokens(I, w, "convert_by_absmass", "7 g Fe // 11 g Co", {7: v1, 11: v2}, [f1, f2])], {})
    r = I.call(act, ["<s>", 0, action_tokens(I, w, "convert_by_absmass", "(7 g Fe // 11 g Co)5 // 13 mg O2", {5: rep, 13: v2}, [inner, f3])], {})
    eq(ctx, "R3", "repeated mass group: total_mass = n * inner + rest", I.getattr(r, "total_mass"),
       rep * (v1 + v2) + v2 * SI["m"], site)
    # keywords given together with a mixture string do not lose what the string recorded
    dd = sp.Symbol("dd", positive=True)
    for text, attr, want in (("5g NaCl@2 // 50mL H2O@1", "total_mass", sp.Integer(55)),
                             ("3nm NaCl@2 // 2nm H2O@1", "thickness", sp.Rational(5, 10 ** 9))):
        for kw_ in ({"density": dd}, {"name": "mix"}, {"natural_density": dd}):
            rr = raises(lambda: I.call(fm, [text], dict(kw_, table=w.table)))
            if rr is not None:
                ctx.fail("R3", f"formula({text!r}, {sorted(kw_)[0]}=...) keeps {attr}", f"raises {rr}", fsite(ctx, "formulas.formula"))
                continue
            fk = I.call(fm, [text], dict(kw_, table=w.table))
            rv = raises(lambda: I.getattr(fk, attr))
            if rv is not None:
                ctx.fail("R3", f"formula({text!r}, {sorted(kw_)[0]}=...) keeps {attr}", f"the result has no {attr}", fsite(ctx, "formulas.formula"))
            else:
                eq(ctx, "R3", f"formula({text!r}, {sorted(kw_)[0]}=...) keeps {attr}", I.getattr(fk, attr), want, fsite(ctx, "formulas.formula"))
    # a mixture string means its mixture every time it is read: editing an earlier result (the guide sets densities of
    # mixtures explicitly) does not show in a later reading, nor in a mixture that names the same string as a component
    for text in ("30vol% NaCl@2 // H2O@1", "5g NaCl@2 // 50mL H2O@1"):
        m1 = I.call(fm, [text], {"table": w.table})
        d1, mf1 = I.getattr(m1, "density"), dict(I.getattr(m1, "mass_fraction"))
        I.setattr(m1, "density", sp.Integer(77))
        I.call(I.getattr(m1, "__iadd__"), [I.call(fm, [{H: sp.Integer(40)}], {})], {})
        m2 = I.call(fm, [text], {"table": w.table})
        ctx.check(m2 is not m1, "R3", f"formula({text!r}) read twice gives two objects", "the object handed out before is returned again",
                  fsite(ctx, "formulas.formula"), witness=text)
        eq(ctx, "R3", f"{text!r} read again after the first result was edited: density", I.getattr(m2, "density"), d1, fsite(ctx, "formulas.formula"))
        mf2 = I.getattr(m2, "mass_fraction")
        ctx.check(set(mf2) == set(mf1), "R3", f"{text!r} read again after the first result was extended: same atoms",
                  "the += on the earlier result shows in the later reading", fsite(ctx, "formulas.formula"), witness=text)
    # every spelling of the percentage basis that the grammar accepts means its own basis: w(eigh)t / m(ass) are by weight,
    # v(ol(ume)) is by volume, with the sign before or after the word
    mixers = {"weight": I.global_name("formulas", "mix_by_weight"), "volume": I.global_name("formulas", "mix_by_volume")}
    ref = {b_: I.call(fn_, ["Fe2O3@5", sp.Integer(10), "NaCl@2", sp.Integer(15), "H2O@1", sp.Integer(75)], {"table": w.table})
           for b_, fn_ in mixers.items()}
    nsp = 0
    for word, basis in (("wt", "weight"), ("weight", "weight"), ("w", "weight"), ("mass", "weight"), ("m", "weight"),
                        ("vol", "volume"), ("volume", "volume"), ("v", "volume")):
        for first in (f"10{word}% ", f"10%{word} ", f"10 {word}% "):
            for later in ("15% ", f"15{word}% "):
                text = first + "Fe2O3@5 // " + later + "NaCl@2 // H2O@1"
                if raises(lambda: I.call(fm, [text], {"table": w.table})) is not None:
                    if word in ("wt", "vol"):
                        ctx.fail("R3", f"the documented spelling {text!r} is accepted", "raises", fsite(ctx, "formulas.formula_grammar"), witness=text)
                    continue              # a spelling the grammar does not accept has no meaning to check
                got_ = I.call(fm, [text], {"table": w.table})
                nsp += 1
                okm = algebra.equal(I.getattr(got_, "mass_fraction")[Fe], I.getattr(ref[basis], "mass_fraction")[Fe], seed=ctx.seed, points=4)[0] \
                    and algebra.equal(I.getattr(got_, "density"), I.getattr(ref[basis], "density"), seed=ctx.seed, points=4)[0]
                if not okm:
                    ctx.fail("R3", f"{text!r} is the mixture by {basis}", f"the spelling '{word}' is not read as a percentage by {basis}",
                             fsite(ctx, "formulas.formula_grammar"), witness=text)
    ctx.check(nsp >= 12, "R3", "the percentage spellings accepted by the grammar were read", f"only {nsp} spellings accepted", fsite(ctx, "formulas.formula_grammar"))
    ctx.floor("R3", 49)

    # ---- R4 attributes read on formulas in the actions are written somewhere -------
    written = set()
    for mod in ctx.src.modules.values():
        for node in ast.walk(mod.tree):
            if isinstance(node, ast.Attribute) and isinstance(node.ctx, ast.Store):
                written.add(node.attr)
            elif isinstance(node, (ast.FunctionDef, ast.ClassDef)):
                written.add(node.name)
            elif isinstance(node, ast.Call) and isinstance(node.func, ast.Name) and node.func.id == "setattr" \
                    and len(node.args) >= 2 and isinstance(node.args[1], ast.Constant):
                written.add(node.args[1].value)
    nread = 0
    container_methods = set(dir(list)) | set(dir(dict)) | set(dir(str)) | set(dir(tuple)) | {"_replace", "_asdict", "_fields", "_make"}
    # fields of namedtuples defined in the package are "written" by the constructor
    for mod in ctx.src.modules.values():
        for node in ast.walk(mod.tree):
            fname_ = ast.unparse(node.func).split(".")[-1] if isinstance(node, ast.Call) else ""
            if fname_ and fname_ != "namedtuple" and isinstance(node.func, ast.Name):
                r_ = ctx.src.resolve(mod.name, fname_)            # an alias (from collections import namedtuple as _nt)
                if r_ and r_[0] == "external" and r_[1].split(".")[-1] == "namedtuple":
                    fname_ = "namedtuple"
            if isinstance(node, ast.Call) and fname_ == "namedtuple" and len(node.args) >= 2:
                fl = node.args[1]
                if isinstance(fl, ast.Constant) and isinstance(fl.value, str):
                    written.update(fl.value.replace(",", " ").split())
                elif isinstance(fl, (ast.List, ast.Tuple)):
                    written.update(e.value for e in fl.elts if isinstance(e, ast.Constant) and isinstance(e.value, str))
            if isinstance(node, ast.ClassDef):
                for st_ in node.body:
                    if isinstance(st_, ast.AnnAssign) and isinstance(st_.target, ast.Name):
                        written.add(st_.target.id)           # NamedTuple / dataclass style fields
                    if isinstance(st_, ast.Assign):
                        written.update(t_.id for t_ in st_.targets if isinstance(t_, ast.Name))   # class constants, enum members
                    if isinstance(st_, ast.Assign) and any(isinstance(t_, ast.Name) and t_.id == "__slots__" for t_ in st_.targets):
                        for e in ast.walk(st_.value):
                            if isinstance(e, ast.Constant) and isinstance(e.value, str):
                                written.add(e.value)
    for name in ("convert_by_weight", "convert_by_volume", "convert_by_layer", "convert_by_absmass", "convert_mixture", "convert_compound"):
        f = ctx.src.func(_action_qual(action(I, w, name)))
        for node in ast.walk(f.node):
            if isinstance(node, ast.Attribute) and isinstance(node.ctx, ast.Load) and isinstance(node.value, ast.Name) \
                    and node.attr not in container_methods:
                nread += 1
                ctx.check(node.attr in written, "R4", f"{name}: attribute .{node.attr} read on {node.value.id} has a writer in the package",
                          f".{node.attr} is read but nothing in the package ever sets it", fsite(ctx, f.qual))
    ctx.floor("R4", 1)

    # ---- R5 unit tables -------------------------------------------------------------
    F = folder(ctx)
    rst = ctx.src.data_file("doc/sphinx/guide/formula_grammar.rst")
    doc_units = {}
    for kind in ("mass", "volume", "length"):
        m = re.search(rf"^\s*{kind}\s*::\s*(.+)$", rst, re.M)
        if not m:
            raise AnalysisError(f"unit list '{kind}' not found in formula_grammar.rst")
        doc_units[kind] = set(re.findall(r"'([^']+)'", m.group(1)))
    def unit_probe(kind, u, base):
        """the value of unit u as the mixture actions apply it (through the grammar's own tokens): the SI prefix"""
        pre = u[:-len(base)] if u.endswith(base) else None
        if pre not in SI:
            ctx.fail("R5", f"documented {kind} unit '{u}' is an SI prefix of '{base}'", "not an SI-prefixed unit", "doc/sphinx/guide/formula_grammar.rst")
            return
        f1, f2, f3 = comps()
        x1, x2 = sp.symbols("x1 x2", positive=True)
        name_ = "convert_by_layer" if kind == "length" else "convert_by_absmass"
        other = "nm" if kind == "length" else "g"
        site_ = action_site(ctx, I, w, name_)
        try:
            r_ = I.call(action(I, w, name_), ["<s>", 0, action_tokens(I, w, name_, f"7 {u} Fe // 11 {other} Co", {7: x1, 11: x2}, [f1, f2])], {})
        except SymRaise as exc_:
            ctx.fail("R5", f"{kind} unit '{u}' is applied as the SI prefix value", f"raises {exc_.exc}", site_)
            return
        if kind == "length":
            eq(ctx, "R5", f"{kind} unit '{u}' is applied as the SI prefix value", I.getattr(r_, "thickness"), x1 * SI[pre] + x2 * SI["n"], site_)
        elif kind == "mass":
            eq(ctx, "R5", f"{kind} unit '{u}' is applied as the SI prefix value", I.getattr(r_, "total_mass"), x1 * SI[pre] + x2, site_)
        else:
            eq(ctx, "R5", f"{kind} unit '{u}' is applied as the SI prefix value", I.getattr(r_, "total_mass"), x1 * SI[pre] * 1000 * d[0] + x2, site_)

    have_tables = True
    for kind, const, base in (("mass", "MASS_UNITS", "g"), ("volume", "VOLUME_UNITS", "L"), ("length", "LENGTH_UNITS", "m")):
        # every documented unit through the actions (whatever tables the package keeps them in) ...
        for u in sorted(doc_units[kind]):
            unit_probe(kind, u, base)
        # ... and the tables themselves where the package has them under their present names
        try:
            tab = table_data(ctx, "formulas", const)
        except AnalysisError:
            have_tables = False
            continue
        ctx.check(set(tab) == doc_units[kind], "R5", f"{const} has exactly the documented {kind} units",
                  f"code {sorted(tab)} vs documented {sorted(doc_units[kind])}", "periodictable/formulas.py " + const,
                  sample=sorted(tab))
        for key, val in tab.items():
            pre = key[:-len(base)] if key.endswith(base) else None
            ok = pre in SI and sp.Rational(repr(float(val))) == SI[pre]
            ctx.check(ok, "R5", f"{const}['{key}'] is the SI prefix value", f"{const}[{key!r}] = {val}, expected {SI.get(pre)}",
                      "periodictable/formulas.py " + const)
    for const, parts in (("LENGTH_RE", ("LENGTH_UNITS",)), ("MASS_VOLUME_RE", ("MASS_UNITS", "VOLUME_UNITS"))):
        if not have_tables:
            break         # (units are kept otherwise: every documented unit went through the grammar and the actions above)
        try:
            rx = table_data(ctx, "formulas", const)
        except AnalysisError:
            continue
        alts = rx.strip("()").split("|")
        want = [k for p in parts for k in table_data(ctx, "formulas", p)]
        ctx.check(sorted(alts) == sorted(want), "R5", f"{const} lists every unit of its tables", f"{alts} vs {want}",
                  "periodictable/formulas.py " + const)
        # ordered choice: no earlier alternative may be a proper prefix of a later one
        haz = [(x, y) for i, x in enumerate(alts) for y in alts[i + 1:] if y.startswith(x) and y != x]
        ctx.check(not haz, "R5", f"{const}: no alternative is a prefix of a later one (regex alternation is ordered)",
                  f"'{haz[0][0]}' shadows '{haz[0][1]}'" if haz else "", "periodictable/formulas.py " + const)
    ctx.floor("R5", 18)
    ctx.unit("functions_inlined", len(set(I.calls)))
    ctx.assume("token lists handed to the mixture actions have the shape the grammar produces: "
               "[count, Formula]* Formula for percentages, ([count, unit] Formula | Formula count)* for layers and masses")
