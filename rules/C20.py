"""C20 - ancillary tables are served to exactly the element or ion they belong to."""
from __future__ import annotations

import ast
import io
import math
import re
import tokenize

import sympy as sp

from ptstat import AnalysisError
from ptstat.symval import SymObj, Phi, SymRaise, Builtin, GenVal, TextFile
from ptstat.world import World
from .common import eq, fsite, raises, folder, _s
from .C06 import fr, close

EXPLANATION = (
    "Reader shape: covalent_radius.init, crystal_structure.init, xsf.init_spectral_lines, "
    "magnetic_ff.init (Fortran text, '&' continuation, M/J prefix, one- and two-letter symbols, charge "
    "digit) and cromermann._update_cmformulas (DABAX records) are interpreted from the current source on "
    "probe tables with distinct recognisable cells, on a private abstract table, and every attribute "
    "they leave is compared with the element/ion and column the probe row names - including alternate "
    "spin rows, three-field rows, elements and ions without an entry (None / no attribute, never a "
    "neighbour's data), and a second table initialised in the same process.  formfactor_0/n are "
    "compared with the documented expression.  Data: every row of the five embedded tables is linted "
    "(exhaustive): Z/symbol agreement, row shape, list index = Z (trailing comments and a density "
    "cross-check from the lattice constants), K_alpha > K_beta1, <j0>(0) = 1 within 0.5 %, "
    "sum a_i + c = Z - charge.  Not decided: equality of each served float with its cell as an "
    "executed fact on the real tables.")

TECHNIQUE = "static analysis: reader-shape extraction by abstract interpretation on probe tables, exhaustive lint of the embedded tables and data files"

CORDERO = ("1    H    0.31    5    129\n2    He    0.28\n6    Csp3    0.76    1    10000\n-    Csp2    0.73    2    10000\n"
           "-    Csp    0.69    1    171\n20    Ca    1.76    10    347\n26    Fel.s.    1.32    3    336\n-     Feh.s.    1.52    6    1540\n27    Col.s.    1.26    3    5733")
# the same radii in the layout of the package's second table (Cordero column rC with the uncertainty in brackets, Pyykko's
# single/double/triple bond radii, '#' lines for hybridisation and spin states): whichever of the two tables a reader takes
# the Cordero radii from, the probes say the same
CORDERO_PYYKKO = ("1      H     0.31(5)     0.32\n2      He    0.28        0.46\n6      C     0.76(1)     0.75     0.67     0.60\n"
                  "#sp3:        0.76(1)\n#sp2:        0.73(2)\n#sp:         0.69(1)\n20     Ca    1.76(10)    1.71     1.47     1.33\n"
                  "26     Fe    1.32(3)     1.16     1.09     1.02\n#low spin:   1.32(3)\n#high spin:  1.52(6)\n"
                  "27     Co    1.26(3)     1.11     1.03     0.96\n#low spin:   1.26(3)\n#high spin:  1.50(7)")
LINES = "Cu  1.5418  1.3922\nAg  0.5608  0.4970"
CFML = '''
       ! comment line
       Magnetic_Form(  1) = Magnetic_Form_Type("MFE2", &
                                              (/  0.1, 1.1, 0.2, 2.2, 0.3, 3.3, 0.4/) )
       Magnetic_Form(  2) = Magnetic_Form_Type("JFE2", &
                                              (/  0.5, 1.5, 0.6, 2.6, 0.7, 3.7, 0.8/) )
       Magnetic_Form(  3) = Magnetic_Form_Type("MV2 ", (/ 0.11, 1.11, 0.21, 2.21, 0.31, 3.31, 0.41/) )
       Magnetic_Form(  4) = Magnetic_Form_Type("MMN3", (/ 0.12, 1.12, 0.22, 2.22, 0.32, 3.32, 0.42/) )
       Magnetic_Form(  5) = Magnetic_Form_Type("MMO1", (/ 0.13, 1.13, 0.23, 2.23, 0.33, 3.33, 0.43/) )
       Magnetic_Form(  6) = Magnetic_Form_Type("MY0 ", (/ 0.14, 1.14, 0.24, 2.24, 0.34, 3.34, 0.44/) )
       Magnetic_Form(  7) = Magnetic_Form_Type("MO1 ", (/ 0.101, 1.101, 0.201, 2.201, 0.301, 3.301, 0.401/) )
       Magnetic_Form(  8) = Magnetic_Form_Type("JO1 ", (/ 0.102, 1.102, 0.202, 2.202, 0.302, 3.302, 0.402/) )
       Magnetic_j2(  1) = Magnetic_Form_Type("FE2 ",(/ 0.15, 1.15, 0.25, 2.25, 0.35, 3.35, 0.45/))
       Magnetic_j4(  1) = Magnetic_Form_Type("V2  ",(/ 0.16, 1.16, 0.26, 2.26, 0.36, 3.36, 0.46/))
       Magnetic_j6(  1) = Magnetic_Form_Type("MN3 ",(/ 0.17, 1.17, 0.27, 2.27, 0.37, 3.37, 0.47/))
       Magnetic_j2(  2) = Magnetic_Form_Type("MO1 ",(/ 0.18, 1.18, 0.28, 2.28, 0.38, 3.38, 0.48/))
       Magnetic_j2(  3) = Magnetic_Form_Type("FE3 ",(/ 0.19, 1.19, 0.29, 2.29, 0.39, 3.39, 0.49/))
'''
F0 = ["#F probe\n", "#UD comment\n", "#S  1  H\n", "#N 11\n", "#L a1  a2  a3  a4  a5  c  b1  b2  b3  b4  b5\n",
      "  1.1 1.2 1.3 1.4 1.5 0.25 2.1 2.2 2.3 2.4 2.5\n",
      "#S  14  Siva\n", "#N 11\n", "#L a1  a2  a3  a4  a5  c  b1  b2  b3  b4  b5\n", "  3.1 3.2 3.3 3.4 3.5 0.35 4.1 4.2 4.3 4.4 4.5\n",
      "#S  14  Si\n", "#N 11\n", "#L a1  a2  a3  a4  a5  c  b1  b2  b3  b4  b5\n", "  5.1 5.2 5.3 5.4 5.5 0.45 6.1 6.2 6.3 6.4 6.5\n",
      "#S  26  Fe2+\n", "#N 11\n", "#L a1  a2  a3  a4  a5  c  b1  b2  b3  b4  b5\n", "  7.1 7.2 7.3 7.4 7.5 0.55 8.1 8.2 8.3 8.4 8.5\n"]


def tup(vals):
    return tuple(sp.Rational(str(v)) for v in vals)


def run(ctx):
    from .common import array_hazard_sweep
    array_hazard_sweep(ctx, "R4", ("magnetic_ff", "cromermann"), "results then depend on what the caller does with its array between calls")
    F = folder(ctx)
    _radius(ctx, F)
    _crystal(ctx, F)
    _lines(ctx, F)
    _magnetic(ctx, F)
    _cromer(ctx, F)
    # evaluation of the analytic form factor and the (symbol, charge) -> record key (shared with C05-R4)
    from .C05 import _cromer as evaluation_and_keys
    evaluation_and_keys(ctx, F, R="R6")
    ctx.extra["exhaustive"] = True


def fresh(ctx, **symconst):
    w = World(ctx.src, loaders=(), symconst={k.replace("__", "."): v for k, v in symconst.items()})
    w.I.default_open = {}
    return w


# ------------------------------------------------------------------------------- covalent radius
def _radius(ctx, F):
    site = fsite(ctx, "covalent_radius.init")
    # (a probe for each of the two tables the package defines; a package that keeps only one of them is read from that one)
    extra_ = {f"covalent_radius__{nm_}": pr_ for nm_, pr_ in (("Cordero", CORDERO), ("CorderoPyykko", CORDERO_PYYKKO))
              if ctx.src.resolve("covalent_radius", nm_) is not None}
    if not extra_:
        raise AnalysisError("covalent_radius defines neither Cordero nor CorderoPyykko: no table for the probes to stand for")
    w = fresh(ctx, **extra_)
    I, T = w.I, w.table
    rr = raises(lambda: I.call(I.global_name("covalent_radius", "init"), [T], {}))
    if rr:
        ctx.fail("R1", "covalent_radius.init reads a well-formed table", f"raises {rr}", site)
        return
    el = lambda s: I.getattr(T, s)
    for sym, r, dr, why in (("H", "0.31", "0.05", "five-field row"), ("He", "0.28", "0", "three-field row: uncertainty 0"),
                            ("C", "0.76", "0.01", "first hybridisation row; the '-' rows are skipped"),
                            ("Fe", "1.32", "0.03", "first spin state; the '-' row is skipped"), ("Co", "1.26", "0.03", "row after a skipped one"),
                            ("Ca", "1.76", "0.10", "an uncertainty of two digits")):
        ctx.check(close(fr(I.getattr(el(sym), "covalent_radius")), float(r)), "R1", f"radius of {sym} is column 2 of its row ({why})",
                  f"covalent_radius = {I.getattr(el(sym), 'covalent_radius')}, expected {r}", site)
        ctx.check(close(fr(I.getattr(el(sym), "covalent_radius_uncertainty")), float(dr)), "R1",
                  f"radius uncertainty of {sym} is column 3 / 100 ({why})",
                  f"covalent_radius_uncertainty = {I.getattr(el(sym), 'covalent_radius_uncertainty')}, expected {dr}", site)
    for sym in ("Li", "U", "Og"):
        ctx.check(I.getattr(el(sym), "covalent_radius") is None and I.getattr(el(sym), "covalent_radius_uncertainty") is None, "R1",
                  f"{sym} has no row: radius and uncertainty are None (not a neighbour's)", f"radius = {I.getattr(el(sym), 'covalent_radius')}", site)
    ctx.check(close(fr(I.getattr(el("n"), "covalent_radius")), 0.2), "R1", "the neutron keeps its fixed radius", "", site)
    ctx.check(I.getattr(el("H"), "covalent_radius_units") == "angstrom", "R1", "units are served", "", site)
    # lint
    rows = [l.split() for l in F.const("covalent_radius", "Cordero").split("\n")]
    base = F.const("core", "element_base")
    ctx.unit("cordero_rows", len(rows))
    bad, prev = [], None
    for r in rows:
        if len(r) not in (3, 5):
            bad.append(r)
            continue
        if r[0] == "-":
            if prev is None or not r[1].startswith(prev):
                bad.append(r)
            continue
        z = int(r[0])
        sym = base[z][1]
        if not r[1].startswith(sym) or (len(r[1]) > len(sym) and r[1][len(sym)].islower() and len(sym) == 1 and r[1][:2] in {v[1] for v in base.values()} and False):
            bad.append(r)
        prev = sym
        try:
            float(r[2]); float(r[3]) if len(r) == 5 else None
        except ValueError:
            bad.append(r)
    ctx.check(not bad, "R1", "every Cordero row: 'Z Sym... r [dr n]' with the symbol of element Z; alternates follow their primary row",
              f"{bad[:3]}", "periodictable/covalent_radius.py Cordero", sample={"rows": len(rows)})
    zs = [int(r[0]) for r in rows if r[0] != "-"]
    ctx.check(zs == sorted(set(zs)), "R1", "primary rows are in increasing Z without repeats", "", "periodictable/covalent_radius.py Cordero")
    ctx.floor("R1", 17)


# ------------------------------------------------------------------------------- crystal structure
def _crystal(ctx, F):
    site = fsite(ctx, "crystal_structure.init")
    probe = [None, {"symmetry": "diatom", "d": sp.Rational("0.74")}, {"symmetry": "atom"}, {"symmetry": "BCC", "a": sp.Rational("3.49")}]
    w = fresh(ctx, crystal_structure__crystal_structures=probe)
    I, T = w.I, w.table
    I.call(I.global_name("crystal_structure", "init"), [T], {})
    byz = lambda z: I.heap[I.lib.subscript(I, T, sp.Integer(z)).id].get("crystal_structure", "<unset>")
    for z, want in enumerate(probe):
        got = byz(z)
        ctx.check(got == want, "R2", f"entry {z} of the list is served to element Z={z}", f"Z={z} has {got}, list entry is {want}", site)
        if isinstance(want, dict):
            ctx.check(got is not want, "R2", f"Z={z}: the table gets its own copy of the record", "the module-level dict is shared", site)
    ctx.check(byz(4) == "<unset>", "R2", "elements beyond the list have no crystal_structure attribute", f"Z=4 has {byz(4)}", site)
    # lint: index = Z
    lst = F.const("crystal_structure", "crystal_structures")
    base = F.const("core", "element_base")
    ctx.unit("crystal_entries", len(lst))
    m = ctx.src.module("crystal_structure")
    node = ctx.src.binding("crystal_structure", "crystal_structures")
    seg_lines = m.text.split("\n")[node.lineno - 1:node.end_lineno]
    comments = []
    for tok in tokenize.generate_tokens(io.StringIO("\n".join(seg_lines)).readline):
        if tok.type == tokenize.COMMENT:
            comments.append(tok.string.lstrip("#").strip())
    alias = {"X": "n", "Lw": "Lr"}
    if len(comments) == len(lst):
        bad = [(i, c) for i, c in enumerate(comments) if alias.get(c, c) != base[i][1]]
        # comments are not behaviour: a few typos are tolerated (today: '#Th' on the terbium entry); a shifted list
        # would mismatch almost everywhere
        ctx.check(len(bad) <= 3, "R2", "the trailing '#Sym' comments name element Z = list index (advisory; up to 3 typos tolerated)",
                  f"{len(bad)} comments disagree with Z, e.g. {bad[:4]}", "periodictable/crystal_structure.py",
                  sample={"entries": len(lst), "comment typos": bad})
    else:
        ctx.notes.append("trailing symbol comments not one per entry: comment cross-check skipped")
    # density cross-check from the lattice constants: n*m/(N_A*V) vs element_densities
    dens = F.const("density", "element_densities")
    NA = F.const("constants", "avogadro_number")
    mass = {}
    for l in F.const("mass", "isotope_mass").split("\n"):
        p = l.split(",")
        mass[int(p[0].split("-")[0])] = float(re.sub(r"[\(\[#].*", "", p[3]) or "nan") if p[3] else float("nan")
    for l in F.const("mass", "element_mass").split("\n"):
        p = l.split()
        if p[3] != "-" and not p[3].startswith("["):
            mass[int(p[0])] = float(p[3].split("(")[0])
    per_cell = {"BCC": 2, "fcc": 4, "Diamond": 8, "SC": 1}
    agree = total = 0
    for z, s in enumerate(lst):
        if not s or z not in mass or mass[z] != mass[z]:
            continue
        d = dens.get(base[z][1])
        d = d[0] if isinstance(d, tuple) else d
        if d is None:
            continue
        if s["symmetry"] in per_cell and "a" in s:
            vol, n = s["a"] ** 3, per_cell[s["symmetry"]]
        elif s["symmetry"] == "hcp" and "a" in s and "c/a" in s:
            vol, n = math.sqrt(3) / 2 * s["a"] ** 3 * s["c/a"], 2
        else:
            continue
        calc = n * mass[z] / (NA * vol * 1e-24)
        total += 1
        agree += abs(calc - d) / d < 0.05
    ctx.check(total >= 40 and agree >= 0.8 * total, "R2",
              "density computed from the lattice constant of entry Z agrees with the density of element Z (list aligned with Z)",
              f"only {agree} of {total} cubic/hcp entries reproduce the tabulated density within 5 % - the list is shifted against Z",
              "periodictable/crystal_structure.py", sample={"agree": int(agree), "of": total})
    ctx.floor("R2", 8)


# ------------------------------------------------------------------------------- emission lines
def _lines(ctx, F):
    site = fsite(ctx, "xsf.init_spectral_lines")
    w = fresh(ctx, xsf__spectral_lines_data=LINES)
    I, T = w.I, w.table
    # get_data_path is evaluated in the Xray class body; not needed here
    I.stubs["core.get_data_path"] = lambda I_, a, k: "/data"
    I.call(I.global_name("xsf", "init_spectral_lines"), [T], {})
    for sym, ka, kb in (("Cu", "1.5418", "1.3922"), ("Ag", "0.5608", "0.4970")):
        e = I.getattr(T, sym)
        ctx.check(close(fr(I.heap[e.id].get("K_alpha")), float(ka)), "R3", f"K_alpha of {sym} is column 1 of the {sym} row",
                  f"K_alpha = {I.heap[e.id].get('K_alpha')}", site)
        ctx.check(close(fr(I.heap[e.id].get("K_beta1")), float(kb)), "R3", f"K_beta1 of {sym} is column 2 of the {sym} row",
                  f"K_beta1 = {I.heap[e.id].get('K_beta1')}", site)
    ni = I.getattr(T, "Ni")
    ctx.check("K_alpha" not in I.heap[ni.id], "R3", "an element without a row gets no emission line", "Ni has K_alpha", site)
    ctx.check(I.getattr(ni, "K_alpha_units") == "angstrom", "R3", "units are class-level", "", site)
    rows = [l.split() for l in F.const("xsf", "spectral_lines_data").split("\n")]
    syms = {v[1] for v in F.const("core", "element_base").values()}
    bad = [r for r in rows if len(r) != 3 or r[0] not in syms or not float(r[1]) > float(r[2]) > 0]
    ctx.check(not bad, "R3", "every emission row: symbol of the table, K_alpha > K_beta1 > 0 (wavelengths)", f"{bad[:3]}",
              "periodictable/xsf.py spectral_lines_data", sample={"rows": len(rows)})
    ctx.check(len({r[0] for r in rows}) == len(rows), "R3", "no element is listed twice", "", "periodictable/xsf.py spectral_lines_data")
    ctx.unit("emission_rows", len(rows))
    ctx.floor("R3", 8)


# ------------------------------------------------------------------------------- magnetic form factors
def _magnetic(ctx, F):
    site = fsite(ctx, "magnetic_ff.init")
    w = fresh(ctx, magnetic_ff__CFML_DATA=CFML)
    I, T = w.I, w.table
    rr = raises(lambda: I.call(I.global_name("magnetic_ff", "init"), [T], {}))
    if rr:
        ctx.fail("R4", "magnetic_ff.init reads well-formed CFML text", f"raises {rr}", site)
        return
    want = {("Fe", 2): {"j0": (0.1, 1.1, 0.2, 2.2, 0.3, 3.3, 0.4), "J": (0.5, 1.5, 0.6, 2.6, 0.7, 3.7, 0.8),
                        "j2": (0.15, 1.15, 0.25, 2.25, 0.35, 3.35, 0.45)},
            ("Fe", 3): {"j2": (0.19, 1.19, 0.29, 2.29, 0.39, 3.39, 0.49)},
            ("V", 2): {"j0": (0.11, 1.11, 0.21, 2.21, 0.31, 3.31, 0.41), "j4": (0.16, 1.16, 0.26, 2.26, 0.36, 3.36, 0.46)},
            ("Mn", 3): {"j0": (0.12, 1.12, 0.22, 2.22, 0.32, 3.32, 0.42), "j6": (0.17, 1.17, 0.27, 2.27, 0.37, 3.37, 0.47)},
            ("Mo", 1): {"j0": (0.13, 1.13, 0.23, 2.23, 0.33, 3.33, 0.43), "j2": (0.18, 1.18, 0.28, 2.28, 0.38, 3.38, 0.48)},
            ("Y", 0): {"j0": (0.14, 1.14, 0.24, 2.24, 0.34, 3.34, 0.44)},
            # "MO1" in the <j0>/J table is prefix M + oxygen 1+, "MMO1" is prefix M + molybdenum 1+
            ("O", 1): {"j0": (0.101, 1.101, 0.201, 2.201, 0.301, 3.301, 0.401), "J": (0.102, 1.102, 0.202, 2.202, 0.302, 3.302, 0.402)}}
    served = {}
    for z in range(0, 119):
        e = I.lib.subscript(I, T, sp.Integer(z))
        mf = I.heap[e.id].get("magnetic_ff")
        if mf is not None:
            sym = I.heap[e.id]["symbol"]
            for ch, rec in mf.items():
                served[(sym, int(ch))] = {k: v for k, v in I.heap[rec.id].items()}
    # coefficients that are not numbers of the probe text at all: if the module holds them as literals of another embedded
    # table (part of the data was moved out of CFML_DATA into records of its own), the probe text does not stand for the
    # package's data any more - an analysis without its anchor, not a finding
    import re as _re
    probe_numbers = {sp.Rational(x) for x in _re.findall(r"-?\d+\.\d+", CFML)}
    foreign = {fr(v_) for forms_ in served.values() for vals_ in forms_.values() if isinstance(vals_, (tuple, list)) for v_ in vals_
               if sp.Rational(str(fr(v_))) not in probe_numbers} if served else set()
    if foreign:
        mod_ = ctx.src.module("magnetic_ff").tree
        other_literals = set()
        for st_ in mod_.body:
            if isinstance(st_, ast.Assign) and any(isinstance(t_, ast.Name) and t_.id == "CFML_DATA" for t_ in st_.targets):
                continue
            for nd_ in ast.walk(st_):
                if isinstance(nd_, ast.Constant) and isinstance(nd_.value, float):
                    other_literals.add(nd_.value)
                    other_literals.add(-nd_.value)
        if all(float(v_) in other_literals for v_ in foreign):
            raise AnalysisError("magnetic_ff.init serves coefficients held in an embedded table other than CFML_DATA: the probe text "
                                "does not stand for the package's data")
    extra = set(served) - set(want)
    ctx.check(not extra, "R4", "no element or charge state without an entry receives coefficients",
              f"{sorted(extra)} received data although the table has no entry for them", site, sample=sorted(map(str, served)))
    for key, forms in want.items():
        got = served.get(key, {})
        for jn, vals in forms.items():
            have = got.get(jn)
            ok = have is not None and len(have) == 7 and all(close(fr(h), v) for h, v in zip(have, vals))
            ctx.check(ok, "R4", f"{key[0]}{key[1]}+ <{jn}> coefficients are those of its own line", f"{jn} = {have}", site)
        ctx.check(set(got) == set(forms), "R4", f"{key[0]}{key[1]}+ has exactly the forms listed for it", f"has {sorted(got)}", site)
    # form factor expressions
    A, a, B, b, C, c, D = sp.symbols("A a B b C c D", real=True)
    q = sp.Symbol("q", positive=True)
    s2 = (q / (4 * sp.pi)) ** 2
    expr = A * sp.exp(-a * s2) + B * sp.exp(-b * s2) + C * sp.exp(-c * s2) + D
    eq(ctx, "R4", "formfactor_0 = A exp(-a s^2) + B exp(-b s^2) + C exp(-c s^2) + D with s = Q/4pi",
       I.call(I.global_name("magnetic_ff", "formfactor_0"), [(A, a, B, b, C, c, D), q], {}), expr, fsite(ctx, "magnetic_ff.formfactor_0"))
    eq(ctx, "R4", "formfactor_n = s^2 * (same expression)",
       I.call(I.global_name("magnetic_ff", "formfactor_n"), [(A, a, B, b, C, c, D), q], {}), s2 * expr, fsite(ctx, "magnetic_ff.formfactor_n"))
    # the same on a caller's Q grid (an ndarray is an object: in-place updates are visible to the caller and to the next call)
    from ptstat.symval import Vec
    q1, q2 = sp.symbols("q1 q2", positive=True)
    grid = Vec([q1, q2])
    for call_no, (fname, factor) in enumerate((("formfactor_0", lambda x: 1), ("formfactor_n", lambda x: (x / (4 * sp.pi)) ** 2),
                                               ("formfactor_0", lambda x: 1)), 1):
        got = I.call(I.global_name("magnetic_ff", fname), [(A, a, B, b, C, c, D), grid], {})
        items = list(got.items) if isinstance(got, Vec) else None
        ctx.check(items is not None and len(items) == 2, "R4", f"{fname} on a Q grid returns one value per Q (evaluation {call_no})",
                  f"returned {_s(got)}", fsite(ctx, f"magnetic_ff.{fname}"))
        if items is not None and len(items) == 2:
            for j, qj in enumerate((q1, q2)):
                eq(ctx, "R4", f"{fname} on a Q grid, element {j} (evaluation {call_no} on the same array)", items[j],
                   factor(qj) * expr.subs(q, qj), fsite(ctx, f"magnetic_ff.{fname}"))
        ctx.check(list(grid.items) == [q1, q2], "R4", f"{fname} leaves the caller's Q array untouched (evaluation {call_no})",
                  f"the array now holds {_s(grid.items)}", fsite(ctx, f"magnetic_ff.{fname}"))
    MF = I.get_class("magnetic_ff.MagneticFormFactor")
    m = I.instantiate(MF, [], {}, name="mff", open_attrs=())
    perm = {"j2": (D, c, C, b, B, a, A), "j4": (B, a, A, b, C, c, D), "j6": (C, c, B, b, A, a, D)}
    w.set(m, j0=(A, a, B, b, C, c, D), **perm)
    eq(ctx, "R4", "M_Q evaluates <j0>", I.call(I.getattr(m, "M_Q"), [q], {}), expr, site)
    eq(ctx, "R4", "j0_Q evaluates <j0>", I.call(I.getattr(m, "j0_Q"), [q], {}), expr, site)
    w.set(m, J=(B, a, A, c, C, b, D))
    rrJ = raises(lambda: I.call(I.getattr(m, "J_Q"), [q], {}))
    if rrJ is not None or I.call(I.getattr(m, "J_Q"), [q], {}) is None:
        ctx.fail("R4", "J_Q evaluates <J> (no s^2 factor)", f"raises {rrJ}" if rrJ else "returns None", site)
    else:
        eq(ctx, "R4", "J_Q evaluates <J> (no s^2 factor)", I.call(I.getattr(m, "J_Q"), [q], {}),
           B * sp.exp(-a * s2) + A * sp.exp(-c * s2) + C * sp.exp(-b * s2) + D, site)
    eq(ctx, "R4", "M is <j0>", sum(I.getattr(m, "M")), A + a + B + b + C + c + D, site)
    for jn, (c1, e1, c2, e2, c3, e3, c4) in perm.items():
        want = s2 * (c1 * sp.exp(-e1 * s2) + c2 * sp.exp(-e2 * s2) + c3 * sp.exp(-e3 * s2) + c4)
        rr = raises(lambda: I.call(I.getattr(m, jn + "_Q"), [q], {}))
        if rr is not None:
            ctx.fail("R4", f"{jn}_Q evaluates <{jn}> with the s^2 factor", f"raises {rr}", site)
        else:
            eq(ctx, "R4", f"{jn}_Q evaluates <{jn}> with the s^2 factor", I.call(I.getattr(m, jn + "_Q"), [q], {}), want, site)
    # lint of the real data
    data = F.const("magnetic_ff", "CFML_DATA").replace("&\n", "")
    syms = {v[1] for v in F.const("core", "element_base").values()}
    n = bad = 0
    badl, j0bad = [], []
    for line in data.split("\n"):
        line = line.strip()
        if "=" not in line:
            continue
        n += 1
        mm = re.fullmatch(r'Magnetic_(Form|j2|j4|j6)\(\s*\d+\)\s*=\s*Magnetic_Form_Type\("([A-Z0-9 ]{3,4})",\s*\(/(.*)/\)\s*\)', line)
        if not mm:
            badl.append(line[:60])
            continue
        kind, state, nums = mm.groups()
        vals = [float(x) for x in nums.split(",")]
        st = state.strip()
        if kind == "Form":
            if st[0] not in "MJ":
                badl.append(line[:60]); continue
            pre, st = st[0], st[1:]
        mm2 = re.fullmatch(r"([A-Z]{1,2})([0-9])", st)
        if not mm2 or mm2.group(1).capitalize() not in syms or len(vals) != 7:
            badl.append(line[:60]); continue
        if kind == "Form" and pre == "M" and abs(vals[0] + vals[2] + vals[4] + vals[6] - 1) > 0.005:
            j0bad.append((state, round(vals[0] + vals[2] + vals[4] + vals[6], 4)))
    ctx.unit("magnetic_lines", n)
    ctx.check(not badl, "R4", "every CFML line: Magnetic_Form|j2|j4|j6 with state [MJ]?<EL><digit> of a table symbol and 7 coefficients",
              f"{badl[:3]}", "periodictable/magnetic_ff.py CFML_DATA", sample={"lines": n})
    ctx.check(not j0bad, "R4", "every <j0> form factor is 1 at Q = 0 within 0.5 % (A+B+C+D)", f"{j0bad[:5]}",
              "periodictable/magnetic_ff.py CFML_DATA")
    ctx.floor("R4", 42)


# ------------------------------------------------------------------------------- Cromer-Mann
def _cromer(ctx, F):
    site = fsite(ctx, "cromermann._update_cmformulas")
    w = fresh(ctx)
    I = w.I
    I.stubs["core.get_data_path"] = lambda I_, a, k: "/data"
    I.builtins["open"] = Builtin("open", lambda *a, **k: TextFile(list(F0), "f0_WaasKirf.dat"))
    rr = raises(lambda: I.call(I.global_name("cromermann", "_update_cmformulas"), [], {}))
    if rr:
        ctx.fail("R5", "_update_cmformulas reads well-formed DABAX records", f"raises {rr}", site)
        return
    cm = I.global_name("cromermann", "_cmformulas")
    ctx.check(set(cm) == {"H", "Siva", "Si", "Fe2+"}, "R5", "one formula per '#S' record, keyed by the record's full symbol",
              f"keys {sorted(cm)}", site)
    for key, a0, c0, b0 in (("H", 1.1, 0.25, 2.1), ("Siva", 3.1, 0.35, 4.1), ("Si", 5.1, 0.45, 6.1), ("Fe2+", 7.1, 0.55, 8.1)):
        if key not in cm:
            continue
        rec = I.heap[cm[key].id]
        av, bv = rec.get("a"), rec.get("b")
        oka = av is not None and len(av) == 5 and all(close(fr(x), a0 + 0.1 * i) for i, x in enumerate(av))
        okb = bv is not None and len(bv) == 5 and all(close(fr(x), b0 + 0.1 * i) for i, x in enumerate(bv))
        ctx.check(oka, "R5", f"record {key}: a1..a5 are columns 0-4", f"a = {av}", site)
        ctx.check(okb, "R5", f"record {key}: b1..b5 are columns 6-10", f"b = {bv}", site)
        ctx.check(close(fr(rec.get("c")), c0), "R5", f"record {key}: c is column 5", f"c = {rec.get('c')}", site)
        ctx.check(rec.get("symbol") == key, "R5", f"record {key} carries its own symbol", f"{rec.get('symbol')}", site)
    # the public lookups on these four records: a tabulated label is served its own record; an untabulated oxidation state or
    # element is 'no entry' (an error), never a neighbour's record
    get = I.global_name("cromermann", "getCMformula")
    s_get = fsite(ctx, "cromermann.getCMformula")
    for lab in ("H", "Si", "Fe2+", "Siva"):
        rr_ = raises(lambda: I.call(get, [lab], {}))
        if rr_ is not None:
            ctx.fail("R5", f"getCMformula({lab!r}) serves the record of that label", f"raises {rr_}", s_get)
        else:
            rec_ = I.call(get, [lab], {})
            ctx.check(rec_ is cm.get(lab), "R5", f"getCMformula({lab!r}) serves the record of that label", f"served {rec_!r}", s_get)
    for lab in ("Fe3+", "Fe", "H1+", "Si4+", "Xx"):
        rr_ = raises(lambda: I.call(get, [lab], {}))
        served_ = None if rr_ is not None else I.call(get, [lab], {})
        ctx.check(rr_ is not None, "R5", f"getCMformula({lab!r}): a label without a record is an error, not another label's record",
                  f"served the record of {I.heap[served_.id].get('symbol') if served_ is not None and hasattr(served_, 'id') else served_!r}", s_get,
                  witness=lab)
    fq = I.global_name("cromermann", "fxrayatq")
    Qs = sp.Symbol("Q", positive=True)
    for sym_, ch_ in (("Fe", 3), ("Fe2+", 3), ("Si", 4)):
        rr_ = raises(lambda: I.call(fq, [sym_, Qs], {"charge": sp.Integer(ch_)}))
        ctx.check(rr_ is not None, "R5", f"fxrayatq({sym_!r}, Q, charge={ch_}): no record for that ion, so no value",
                  "a value is computed from another record", fsite(ctx, "cromermann.fxrayatq"), witness=f"{sym_} charge={ch_}")
    # lint of the real file
    text = ctx.src.data_file("periodictable/xsf/f0_WaasKirf.dat")
    base = F.const("core", "element_base")
    lines = text.split("\n")
    recs, bad = [], []
    i = 0
    while i < len(lines):
        if lines[i].startswith("#S"):
            p = lines[i].split()
            z, key = int(p[1]), p[2]
            j = i + 1
            lab = None
            while j < len(lines) and not lines[j].startswith("#S"):
                if lines[j].startswith("#L"):
                    lab = lines[j].split()[1:]
                    nums = lines[j + 1].split()
                    break
                j += 1
            if lab != ["a1", "a2", "a3", "a4", "a5", "c", "b1", "b2", "b3", "b4", "b5"] or len(nums) != 11:
                bad.append(key)
            else:
                recs.append((z, key, [float(x) for x in nums]))
        i += 1
    ctx.unit("cromer_mann_records", len(recs))
    ctx.check(not bad and len(recs) >= 200, "R5", "every record: '#S Z key', '#L a1 a2 a3 a4 a5 c b1 b2 b3 b4 b5', 11 numbers",
              f"{bad[:4]}; {len(recs)} records", "periodictable/xsf/f0_WaasKirf.dat", sample={"records": len(recs)})
    off = []
    for z, key, v in recs:
        mm = re.fullmatch(r"([A-Z][a-z]?)(?:(\d)([+-]))?", key)
        if not mm:
            continue        # valence-state fits such as Siva, Cval
        sym, n, sg = mm.groups()
        if base[z][1] != sym:
            off.append((key, "Z/symbol"))
            continue
        charge = int(n) * (1 if sg == "+" else -1) if n else 0
        if abs(sum(v[:5]) + v[5] - (z - charge)) > 0.05:
            off.append((key, round(sum(v[:5]) + v[5], 3), z - charge))
    ctx.check(not off, "R5", "f0(Q -> 0) = sum a_i + c equals the electron count Z - charge for every atom and ion record",
              f"{off[:5]}", "periodictable/xsf/f0_WaasKirf.dat")
    keys = [k for _, k, _ in recs]
    ctx.check(len(keys) == len(set(keys)), "R5", "record keys are unique", "duplicate keys", "periodictable/xsf/f0_WaasKirf.dat")
    ctx.floor("R5", 15)
