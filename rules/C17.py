"""C17 - the composite SLD calculator equals the direct calculation on the weighted sum."""
from __future__ import annotations

import ast

import sympy as sp

from ptstat import AnalysisError, algebra
from ptstat.symval import SymRaise, Vec
from ptstat.symlib import interp_f
from .common import eq, fsite, _s, raises
from .nworld import neutron_world

EXPLANATION = (
    "Sibling agreement by value graphs: neutron_composite_sld(materials, wavelength) is interpreted "
    "abstractly from the source (its _sum_piece precomputation and the _compute closure, numpy "
    "arrays modelled as vectors over the material axis with a shape abstraction for the wavelength "
    "axis), and the three outputs for symbolic weights and density are compared as algebraic "
    "identities with the value graph of neutron_sld on the formula sum_i w_i*material_i, for "
    "materials that include an ion of an isotope, an energy-dependent isotope and a repeated "
    "material; the scalar and the array-wavelength branch are both covered, together with the "
    "zero-weight / zero-density guard.  Not decided: float rounding.")

TECHNIQUE = "static analysis: value-graph equivalence of two sibling implementations (abstract interpretation over sympy expressions), shape abstraction for numpy broadcasting"


def _setup(ctx, arrays):
    lam = sp.Symbol("lam", positive=True)
    w = neutron_world(ctx, arrays=[lam] if arrays else (), energy_dependent=("H1",))
    I, A = w.I, w.atoms
    fm = I.global_name("formulas", "formula")
    q = sp.symbols("q1:6", positive=True)
    m1 = I.call(fm, [{A["element"]: q[0], A["element2"]: q[1]}], {})
    m2 = I.call(fm, [{A["ion_isotope"]: q[2], A["H1"]: q[3]}], {})
    m3 = I.call(fm, [{A["element2"]: q[4]}], {})
    # two different materials that carry the same display name (names must not identify materials)
    I.setattr(m2, "name", "sample")
    I.setattr(m3, "name", "sample")
    return w, lam, [m1, m2, m3, m1]


def _calc_site(ctx, I, calc, default):
    from ptstat.symval import Closure, SymObj, BoundMethod
    q = None
    if isinstance(calc, Closure):
        q = calc.qual
    elif isinstance(calc, BoundMethod) and isinstance(calc.fn, Closure):
        q = calc.fn.qual
    elif isinstance(calc, SymObj) and calc.cls is not None:
        m = calc.cls.lookup("__call__")
        q = getattr(m, "qual", None)
    try:
        return fsite(ctx, q) if q else default
    except AnalysisError:
        return default


def _explicit(ctx, w, mats, rho, ws, names, label, site, csite):
    """wavelengths as an explicit numpy vector [lam1, lam2] (arrays are objects here: in-place updates and aliasing are
    modelled): the calculator must equal neutron_sld at each wavelength separately, on every call"""
    I = w.I
    lams = sp.symbols("lam1 lam2", positive=True)
    calc = I.call(I.global_name("nsf", "neutron_composite_sld"), [list(mats)], {"wavelength": Vec(lams)})
    tot = {}
    for wi, mi in zip(ws, mats):
        for a, c in I.getattr(mi, "atoms").items():
            tot[a] = tot.get(a, 0) + wi * c
    total = I.call(I.global_name("formulas", "formula"), [tot], {})
    M = I.getattr(total, "mass")
    direct = [I.call(I.global_name("nsf", "neutron_sld"), [total], {"density": rho, "wavelength": l}) for l in lams]
    for call_no in (1, 2, 3):
        wv = Vec(ws)
        got = I.call(calc, [wv], {"density": rho})
        ctx.check(list(wv.items) == list(ws), "R1", f"the caller's weight vector is left untouched (call {call_no}) [{label}]",
                  f"weights after the call: {_s(wv.items)}", csite)
        for k, g, dj in zip(names, got, zip(*direct)):
            gj = list(g.items) if isinstance(g, Vec) else [g, g]
            if len(gj) != 2:
                ctx.fail("R1", f"{k}: one value per wavelength (call {call_no}) [{label}]", f"returned {_s(g)}", csite)
                continue
            for j in (0, 1):
                eq(ctx, "R1", f"{k}: calculator(w, rho)[{j}] = neutron_sld(sum w_i*material_i, rho, wavelength[{j}]) (call {call_no}) [{label}]",
                   gj[j], dj[j], csite, nonzero=[rho * M])
    # results already handed out are the caller's: a later call with other weights and density must not change them
    # (a work array kept between calls would be seen through x.real, which is a view)
    held = I.call(calc, [Vec(ws)], {"density": rho})
    I.call(calc, [Vec(list(ws[1:]) + [ws[0]])], {"density": 3 * rho})
    for k, g, dj in zip(names, held, zip(*direct)):
        gj = list(g.items) if isinstance(g, Vec) else [g, g]
        for j in (0, 1):
            if len(gj) == 2:
                eq(ctx, "R1", f"{k}[{j}]: a result handed out earlier is unchanged by a later call with other weights [{label}]",
                   gj[j], dj[j], csite, nonzero=[rho * M])


def run(ctx):
    from .common import array_hazard_sweep
    array_hazard_sweep(ctx, "R2", ("nsf",), "the calculator's answer then depends on what the caller does with its weights or wavelengths between calls")
    rho = sp.Symbol("rho", positive=True)
    ws = sp.symbols("w1:5", positive=True)
    site = fsite(ctx, "nsf.neutron_composite_sld")
    csite = site       # refined below to where the returned calculator is defined (a closure or a callable object)
    names = ("sld_re", "sld_im", "sld_inc")
    for label, arrays in (("scalar wavelength", False), ("array wavelength", True), ("length-2 wavelength vector", None)):
        w, lam, mats = _setup(ctx, bool(arrays))
        I = w.I
        if arrays is None:
            _explicit(ctx, w, mats, rho, ws, names, label, site, csite)
            # ... and a calculator over a single material (nothing to mix: a shortcut must still leave its tables alone)
            w1_, _lam1, mats1_ = _setup(ctx, False)
            _explicit(ctx, w1_, mats1_[:1], rho, ws[:1], names, label + ", one material", site, csite)
            continue
        calc = I.call(I.global_name("nsf", "neutron_composite_sld"), [list(mats)], {"wavelength": lam})
        csite = _calc_site(ctx, I, calc, site)
        r = raises(lambda: I.call(calc, [Vec(ws)], {"density": rho}))
        if r is not None:
            ctx.fail("R2", f"_compute broadcasts weights against the per-material arrays [{label}]",
                     f"the calculator raises {r} for this wavelength shape", csite)
            continue
        got = I.call(calc, [Vec(ws)], {"density": rho})
        ctx.ok("R2", f"_compute broadcasts weights against the per-material arrays [{label}]", site=csite,
               sample="weights (M,)/(M,1) x parts (M,)/(M,W) -> sum over the material axis only")
        # direct calculation on the composition sum_i w_i * atoms(material_i)
        # (atoms(n*f) = n*atoms(f) and atoms(f+g) = atoms(f)+atoms(g) are C02-R1)
        def wsum(weights):
            tot = {}
            for wi, mi in zip(weights, mats):
                if wi == 0:
                    continue
                for a, c in I.getattr(mi, "atoms").items():
                    tot[a] = tot.get(a, 0) + wi * c
            return I.call(I.global_name("formulas", "formula"), [tot], {})
        total = wsum(ws)
        direct = I.call(I.global_name("nsf", "neutron_sld"), [total], {"density": rho, "wavelength": lam})
        M = I.getattr(total, "mass")
        for k, g, d in zip(names, got, direct):
            eq(ctx, "R1", f"{k}: calculator(w, rho) = neutron_sld(sum w_i*material_i, rho) [{label}]", g, d, csite,
               nonzero=[rho * M])
        # the calculator keeps no state between calls: the same question gets the same answer
        again = I.call(calc, [Vec(ws)], {"density": rho})
        for k, g, g2 in zip(names, got, again):
            eq(ctx, "R1", f"{k}: a second call with the same weights and density returns the same value [{label}]", g2, g, csite,
               nonzero=[rho * M])
        # the direct calculation agrees at density 0 as well, also when the summed formula carries a density of its own
        total_d = I.call(I.global_name("formulas", "formula"), [total], {"density": sp.Symbol("rho_own", positive=True)})
        d0 = I.call(I.global_name("nsf", "neutron_sld"), [total_d], {"density": sp.Integer(0), "wavelength": lam})
        ctx.check(tuple(d0) == (0, 0, 0), "R1", f"neutron_sld(sum, density=0) gives zeros like the calculator [{label}]",
                  f"returned {_s(d0)}", fsite(ctx, "nsf.neutron_sld"))
        # guard: zero density and zero total weight give zeros
        z = I.call(calc, [Vec(ws)], {"density": sp.Integer(0)})
        ctx.check(tuple(z) == (0, 0, 0), "R1", f"zero density gives zeros [{label}]", f"returned {_s(z)}", csite)
        rz = raises(lambda: I.call(calc, [Vec([sp.Integer(0)] * 4)], {"density": rho}))
        z = I.call(calc, [Vec([sp.Integer(0)] * 4)], {"density": rho}) if rz is None else None
        ctx.check(rz is None and tuple(z) == (0, 0, 0), "R1", f"zero total weight gives zeros [{label}]",
                  f"raised {rz} (0/0 in the weight sums)" if rz else f"returned {_s(z)}", csite)
        # default density of the calculator is 1
        g1 = I.call(calc, [Vec(ws)], {})
        eq(ctx, "R1", f"default density is 1 [{label}]", g1[0], sp.sympify(got[0]).subs(rho, 1), csite, nonzero=[M])
        # some weights zero: same identity with those terms dropped
        wz = [ws[0], sp.Integer(0), ws[2], sp.Integer(0)]
        gz = I.call(calc, [Vec(wz)], {"density": rho})
        tz = wsum(wz)
        dz = I.call(I.global_name("nsf", "neutron_sld"), [tz], {"density": rho, "wavelength": lam})
        for k, g, d in zip(names, gz, dz):
            eq(ctx, "R1", f"{k}: zero weights drop their material [{label}]", g, d, csite,
               nonzero=[rho * I.getattr(tz, "mass")])
        ctx.unit("functions_inlined", len(set(I.calls)))
    # materials that carry densities of their own: an explicit density - zero included - still decides
    w, lam, mats = _setup(ctx, False)
    I = w.I
    for k_, mi in enumerate(mats):
        I.setattr(mi, "density", sp.Symbol(f"rho_m{k_ + 1}", positive=True))
    calc = I.call(I.global_name("nsf", "neutron_composite_sld"), [list(mats)], {"wavelength": lam})
    zq = I.call(calc, [Vec(ws)], {"density": sp.Integer(0)})
    ctx.check(tuple(zq) == (0, 0, 0), "R1", "zero density gives zeros also when every material carries a density of its own",
              f"returned {_s(zq, 120)}", csite)
    gq2 = I.call(calc, [Vec(ws)], {"density": rho})
    tot2 = {}
    for wi, mi in zip(ws, mats):
        for a, c in I.getattr(mi, "atoms").items():
            tot2[a] = tot2.get(a, 0) + wi * c
    tq2 = I.call(I.global_name("formulas", "formula"), [tot2], {})
    dq2 = I.call(I.global_name("nsf", "neutron_sld"), [tq2], {"density": rho, "wavelength": lam})
    eq(ctx, "R1", "materials with densities of their own: calculator(w, rho) = direct at rho", gq2[0], dq2[0], csite, nonzero=[rho * I.getattr(tq2, "mass")])
    # a material with an atom that has neutron data but no bulk density of its own (radium): both routes compute it, alike
    w, lam, mats = _setup(ctx, False)
    I = w.I
    for mi in mats[:1]:
        for a_ in I.getattr(mi, "atoms"):
            rec_ = I.getattr(a_, "neutron")
            I.heap[rec_.id]["_number_density"] = None
            break
    calc = I.call(I.global_name("nsf", "neutron_composite_sld"), [list(mats[:2])], {"wavelength": lam})
    gq = I.call(calc, [Vec(ws[:2])], {"density": rho})
    tot = {}
    for wi, mi in zip(ws[:2], mats[:2]):
        for a, c in I.getattr(mi, "atoms").items():
            tot[a] = tot.get(a, 0) + wi * c
    tq = I.call(I.global_name("formulas", "formula"), [tot], {})
    dq = I.call(I.global_name("nsf", "neutron_sld"), [tq], {"density": rho, "wavelength": lam})
    if dq is None or (isinstance(dq, tuple) and dq[0] is None):
        ctx.fail("R1", "an atom with neutron data but no bulk density of its own: the direct calculation has a value, like the calculator",
                 f"neutron_sld gives {_s(dq, 60)} where the calculator gives {_s(gq[0], 80)}", fsite(ctx, "nsf.neutron_scattering"),
                 witness="neutron_sld('RaCl2', density=4.9) vs neutron_composite_sld(['RaCl2'])([1], density=4.9)")
    else:
        for k, g, d_ in zip(names, gq, dq):
            eq(ctx, "R1", f"{k}: an atom with neutron data but no bulk density of its own: calculator = direct", g, d_, csite,
               nonzero=[rho * I.getattr(tq, "mass")])
    ctx.floor("R1", 54)
    ctx.floor("R2", 2)
    # _sum_piece is the per-compound loop of neutron_scattering (same four sums)
    w, lam, mats = _setup(ctx, False)
    I = w.I
    # (an internal helper: examined only while it exists with these parameter names; the calculator identities above
    # are what the property needs)
    spf = ctx.src.funcs.get("nsf._sum_piece")
    if spf is not None and {"wavelength", "compound"} <= {a.arg for a in spf.node.args.args}:
        sp_ = I.call(I.global_name("nsf", "_sum_piece"), [], {"wavelength": lam, "compound": mats[0]})
        atoms = I.getattr(mats[0], "atoms")
        n = sum(atoms.values())
        vals = list(sp_) if isinstance(sp_, (tuple, list)) else []
        if len(vals) == 4:
            by_value = [v for v in vals if algebra.equal(v, n, seed=ctx.seed)[0]]
            ctx.check(bool(by_value), "R1", "_sum_piece: one of the four sums is the number of atoms", f"returned {_s(sp_)}", fsite(ctx, "nsf._sum_piece"))
            by_value = [v for v in vals if algebra.equal(v, I.getattr(mats[0], "mass"), seed=ctx.seed)[0]]
            ctx.check(bool(by_value), "R1", "_sum_piece: one of the four sums is the molar mass", f"returned {_s(sp_)}", fsite(ctx, "nsf._sum_piece"))
    ctx.assume("numpy broadcasting aligns trailing axes; np.sum(axis=0) reduces the leading (material) axis")
