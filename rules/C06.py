"""C06 - mass, abundance and density of every nuclide are those of the embedded tables."""
from __future__ import annotations

import ast
import re
from fractions import Fraction

import sympy as sp

from ptstat import AnalysisError, algebra
from ptstat.symval import SymObj, Phi, SymRaise
from ptstat.world import World, mass_sym
from spec import notation
from .common import world, eq, fsite, raises, folder, _s, constants_lint

EXPLANATION = (
    "Reader shape: mass.init and density.init are interpreted from the current source on small probe "
    "tables whose cells are distinct recognisable values in each documented notation (value(unc), "
    "value(unc)#, [nominal], [low,high], '-', blank; the last element block is a probe for the "
    "deferred flush), on a private abstract table, and every attribute they leave on elements and "
    "isotopes is compared with an independent reading of the same probe text (spec/notation.py). "
    "util.parse_uncertainty is compared with that reading on every lexical class.  Data: every row "
    "of the three embedded mass tables and of the density table is linted (exhaustive): shape, "
    "Z/symbol agreement with core.element_base, lexical class of every value cell, abundances "
    "summing to one, atomic weight = abundance-weighted isotope mass within its uncertainty.  "
    "density(), number_density(), interatomic_distance() are checked as value graphs per atom kind "
    "including the unknown-density case.  Not decided: equality of each of the ~3000 served floats "
    "with its cell as an executed fact on the real tables.")

TECHNIQUE = "static analysis: reader-shape extraction by abstract interpretation on probe tables, exhaustive lint of the embedded tables, value graphs per atom kind"

ISO_PROBE = ("1-H-1,1.5(1),x,10.5(2)\n1-H-2,2.25(10)#,x,10.5(2)\n2-He-3,3.5(1),x,4.5(1)\n2-He-4,4.25(1),x,4.5(1)\n26-Fe-54,54.5,x,55.5(3)\n"
             "26-Fe-56,[56.5],,55.5(3)\n92-U-235,235.125(25),x,238.5(1)\n92-U-238,238.25(1.5),x,238.5(1)")
EL_PROBE = "1\tH\thydrogen\t  [1.25,1.75]\tm\n2 He helium 4.5(2)\n26\tFe\tiron\t 55.75(5)  [55.1,55.9] g r\n92 U uranium -"
AB_PROBE = ("1\tH\thydrogen\n    1\t[0.7,0.8]\tm\n    2\t0.25(1)\n2 He helium\n    3 0.125\n    4 0.875\n26\tFe\tiron\n    54\t0.06(1)\n    56\t0.9(2)\n"
            "92 U uranium\n    235 0.25\n    238 0.5(1)")


def fr(x):
    """sympy/python number -> Fraction (or float for irrational values)"""
    if x is None:
        return None
    e = sp.sympify(x)
    if e.is_Rational:
        return Fraction(int(e.p), int(e.q))
    return float(e)


def close(a, b):
    if a is None or b is None:
        return a is b
    return abs(float(a) - float(b)) <= 1e-12 * max(1.0, abs(float(b)))


def run(ctx):
    F = folder(ctx)
    _reader_mass(ctx)
    _reader_density(ctx)
    _parse_uncertainty(ctx)
    _lint(ctx, F)
    _density_graphs(ctx)
    ctx.extra["exhaustive"] = True


def _reader_mass(ctx):
    site = fsite(ctx, "mass.init")
    w = World(ctx.src, loaders=(), symconst={"mass.isotope_mass": ISO_PROBE, "mass.element_mass": EL_PROBE,
                                             "mass.isotope_abundance": AB_PROBE})
    I = w.I
    I.default_open = {}
    heap_before = set(I.heap)
    try:
        I.call(I.global_name("mass", "init"), [w.table], {})
    except SymRaise as exc:
        ctx.fail("R1", "mass.init reads well-formed tables", f"raises {exc} on the probe tables", site)
        return
    T = w.table
    el = lambda s: I.heap[I.getattr(T, s).id]
    iso = lambda s, a: I.heap[I.heap[I.getattr(T, s).id]["_isotopes"][a].id]
    R = notation.read
    # pass 1 + 2: isotope masses from column 2; element masses from the element table, else column 4
    for sym, A, cell in (("H", 1, "1.5(1)"), ("H", 2, "2.25(10)#"), ("Fe", 54, "54.5"), ("Fe", 56, "[56.5]"),
                         ("U", 235, "235.125(25)"), ("U", 238, "238.25(1.5)")):
        v, u = R(cell)
        rec = iso(sym, A)
        ctx.check(close(fr(rec.get("_mass")), v), "R1", f"isotope mass of {sym}-{A} is column 2 of its row ('{cell}')",
                  f"_mass = {rec.get('_mass')}, cell reads {float(v)}", site, sample=str(rec.get("_mass")))
        ctx.check(close(fr(rec.get("_mass_unc")), u), "R1", f"isotope mass uncertainty of {sym}-{A} ('{cell}')",
                  f"_mass_unc = {rec.get('_mass_unc')}, cell reads {float(u)}", site)
    for sym, cell, src in (("H", "[1.25,1.75]", "element table (interval)"), ("Fe", "55.75(5)", "element table (abridged value)"),
                           ("He", "4.5(2)", "element table (same value as the isotope table's fourth column, its own uncertainty)"),
                           ("U", "238.5(1)", "isotope table column 4, element table has '-'")):
        v, u = R(cell)
        ctx.check(close(fr(el(sym).get("_mass")), v), "R1", f"atomic weight of {sym} comes from the {src}",
                  f"_mass = {el(sym).get('_mass')}, expected {float(v)}", site, sample=str(el(sym).get("_mass")))
        ctx.check(close(fr(el(sym).get("_mass_unc")), u), "R1", f"atomic weight uncertainty of {sym} ({src})",
                  f"_mass_unc = {el(sym).get('_mass_unc')}, expected {float(u)}", site)
    # pass 3: abundances normalised per element, every block committed - including the last one
    blocks = {"H": {1: "[0.7,0.8]", 2: "0.25(1)"}, "Fe": {54: "0.06(1)", 56: "0.9(2)"}, "U": {235: "0.25", 238: "0.5(1)"}}
    for sym, cells in blocks.items():
        tot = sum(float(R(c)[0]) for c in cells.values())
        for A, c in cells.items():
            v, u = R(c)
            rec = iso(sym, A)
            ctx.check(close(fr(rec.get("_abundance")), 100 * float(v) / tot), "R2" if sym == "U" else "R1",
                      f"abundance of {sym}-{A} = 100 * fraction / block total" + (" (last block of the table)" if sym == "U" else ""),
                      f"_abundance = {rec.get('_abundance')}, expected {100 * float(v) / tot}: "
                      + ("the final element block is never committed" if sym == "U" and rec.get("_abundance") in (0, sp.Integer(0)) else "wrong cell or normalisation"),
                      site, sample=str(rec.get("_abundance")))
            ctx.check(close(fr(rec.get("_abundance_unc")), 100 * float(u) / tot), "R1", f"abundance uncertainty of {sym}-{A}",
                      f"_abundance_unc = {rec.get('_abundance_unc')}, expected {100 * float(u) / tot}", site)
    # the neutron
    n1 = iso("n", 1)
    ctx.check(n1.get("_abundance") == 100 and el("n").get("_mass") is not None, "R1", "the neutron is element 0 with one isotope of abundance 100",
              f"{_s(n1)}", site)
    # isotopes absent from the composition table have abundance 0
    extra = World(ctx.src, loaders=(), symconst={"mass.isotope_mass": ISO_PROBE + "\n26-Fe-60,60.5(1),,55.5(3)",
                                                "mass.element_mass": EL_PROBE, "mass.isotope_abundance": AB_PROBE})
    extra.I.default_open = {}
    extra.I.call(extra.I.global_name("mass", "init"), [extra.table], {})
    fe60 = extra.I.heap[extra.I.heap[extra.I.getattr(extra.table, "Fe").id]["_isotopes"][60].id]
    ctx.check(fe60.get("_abundance") == 0, "R1", "an isotope absent from the composition table has abundance 0",
              f"_abundance = {fe60.get('_abundance')}", site)
    # R6: a second private table initialised in the same process is served the same values
    PT = I.get_class("core.PeriodicTable")
    T2 = I.instantiate(PT, ["second"], {}, name="T2", open_attrs=())
    rr = raises(lambda: I.call(I.global_name("mass", "init"), [T2], {}))
    ctx.check(rr is None, "R6", "mass.init on a second private table", f"raises {rr}", site)
    if rr is None:
        iso2 = lambda s_, a_: I.heap[I.heap[I.getattr(T2, s_).id]["_isotopes"][a_].id]
        diffs = [(s_, a_, k) for s_, cells in blocks.items() for a_ in cells for k in ("_mass", "_abundance", "_abundance_unc")
                 if iso2(s_, a_).get(k) != iso(s_, a_).get(k)]
        el2 = lambda s_: I.heap[I.getattr(T2, s_).id]
        diffs += [(s_, "element", k) for s_ in ("H", "Fe", "U", "n") for k in ("_mass", "_mass_unc") if el2(s_).get(k) != el(s_).get(k)]
        ctx.check(not diffs, "R6", "a second private table gets the same masses and abundances as the first",
                  f"differs for {diffs[:4]} (state consumed or shared between init calls)", site)
        ctx.check(all(iso2(s_, a_) is not iso(s_, a_) for s_, cells in blocks.items() for a_ in cells), "R6",
                  "each table has its own isotope objects", "isotope objects shared between tables", site)
    # R6: a table initialised after another table's masses were edited (and with that table standing as the public one) is
    # still filled from the embedded tables: what one table serves is never the source of another
    saved_pub = I.module_cache.get(("core", "PUBLIC_TABLE"))
    I.module_cache[("core", "PUBLIC_TABLE")] = T
    fe_id = I.getattr(T, "Fe").id
    fe54_id = I.heap[fe_id]["_isotopes"][54].id
    fe_h, fe54_h = I.heap[fe_id], I.heap[fe54_id]
    before_edit = (fe_h.get("_mass"), fe54_h.get("_abundance"), fe54_h.get("_mass"))
    # (the real tables have a mass for every element; the probe tables list a few: the others get a placeholder so that
    # the standing public table is complete)
    filled = []
    for z_ in range(0, 119):
        eid_ = I.lib.subscript(I, T, sp.Integer(z_)).id
        for oid_ in [eid_] + [i_.id for i_ in I.heap[eid_].get("_isotopes", {}).values()]:
            for k_ in ("_mass", "_mass_unc") + (("_abundance", "_abundance_unc") if oid_ != eid_ else ()):
                if k_ not in I.heap[oid_]:
                    I.heap[oid_][k_] = sp.Integer(0)
                    filled.append((oid_, k_))
    fe_h["_mass"], fe54_h["_abundance"], fe54_h["_mass"] = sp.Integer(999), sp.Integer(99), sp.Integer(998)
    try:
        T3 = I.instantiate(PT, ["third"], {}, name="T3", open_attrs=())
        rr = raises(lambda: I.call(I.global_name("mass", "init"), [T3], {}))
        ctx.check(rr is None, "R6", "mass.init on a table created after another table was edited", f"raises {rr}", site)
        if rr is None:
            f3 = I.heap[I.getattr(T3, "Fe").id]
            f354 = I.heap[f3["_isotopes"][54].id] if 54 in f3.get("_isotopes", {}) else {}
            got3 = (f3.get("_mass"), f354.get("_abundance"), f354.get("_mass"))
            ctx.check(got3 == before_edit, "R6", "a table initialised after the public table's masses were edited gets the embedded values",
                      f"Fe mass, Fe-54 abundance, Fe-54 mass = {got3}, the embedded tables give {before_edit}: values were copied from the edited table", site)
    finally:
        # (the heap dictionaries are looked up again: the interpreter may have replaced them by copies at a join)
        fe_h = I.heap[fe_id]
        fe54_h = I.heap[fe54_id]
        fe_h["_mass"], fe54_h["_abundance"], fe54_h["_mass"] = before_edit
        for oid_, k_ in filled:
            I.heap[oid_].pop(k_, None)
        if saved_pub is None:
            I.module_cache.pop(("core", "PUBLIC_TABLE"), None)
        else:
            I.module_cache[("core", "PUBLIC_TABLE")] = saved_pub
    # R6: only the given table is written
    touched = [oid for oid in I.heap if oid not in heap_before]
    ctx.check("mass" in I.heap[T.id].get("properties", []), "R6", "mass.init marks the table it was given", "not marked", site)
    cls = I.get_class("core.Element").attrs
    ctx.check(isinstance(cls.get("mass"), object) and "mass" in cls, "R6", "Element.mass is installed as a class-level property",
              "Element.mass not installed", site)
    # served through the properties
    Fe = I.getattr(T, "Fe")
    served_ = (I.getattr(Fe, "mass"), I.getattr(I.lib.subscript(I, Fe, 54), "abundance"))
    ctx.check(close(fr(served_[0]), R("55.75(5)")[0]) and close(fr(served_[1]), 6.25),
              "R1", "Element.mass and Isotope.abundance serve the stored values", f"Fe.mass, Fe[54].abundance = {served_}, stored 55.75 and 6.25", site)
    ctx.floor("R1", 30)
    ctx.floor("R2", 2)


def _reader_density(ctx):
    site = fsite(ctx, "density.init")
    probe = {"H": (sp.Rational(1, 2), "T=-250"), "Fe": sp.Rational(15, 2), "U": None}
    w = World(ctx.src, loaders=(), symconst={"density.element_densities": probe})
    I = w.I
    I.default_open = {}
    I.call(I.global_name("density", "init"), [w.table], {})
    el = lambda s: I.heap[I.getattr(w.table, s).id]
    ctx.check(el("H").get("_density") == sp.Rational(1, 2) and el("H").get("density_caveat") == "T=-250", "R1",
              "density given as (value, caveat)", f"{_s(el('H'))}", site)
    ctx.check(el("Fe").get("_density") == sp.Rational(15, 2) and el("Fe").get("density_caveat") == "", "R1",
              "density given as a plain value", f"{_s(el('Fe'))}", site)
    ctx.check("_density" in el("U") and el("U")["_density"] is None, "R1", "unknown density is None", f"{_s(el('U'))}", site)


def _parse_uncertainty(ctx):
    site = fsite(ctx, "util.parse_uncertainty")
    w = World(ctx.src, loaders=())
    I = w.I
    pu = I.global_name("util", "parse_uncertainty")
    cells = ["", "23.0035(12)", "23(1)", "23.0(1.0)", "23(1.0)", "1.25", "7", "[12.5]", "[1.25,1.75]", "[0.99972,0.99999]",
             "207.2(1.1)", "4.026430(110)", "1.0080(2)", "260.1365#".replace("#", ""), "12.011(2)#", "0.000137(1)", "100", "[98]"]
    for c in cells:
        want = notation.read(c)
        try:
            got = I.call(pu, [c], {})
        except SymRaise as exc:
            ctx.fail("R4", f"parse_uncertainty('{c}')", f"raises {exc}", site)
            continue
        ok = isinstance(got, tuple) and len(got) == 2 and close(fr(got[0]), want[0]) and close(fr(got[1]), want[1])
        ctx.check(ok, "R4", f"parse_uncertainty('{c}') reads the {notation.lexical_class(c)} notation as documented",
                  f"returned {got}, documented reading {tuple(None if x is None else float(x) for x in want)}", site,
                  sample=str(got))
    ctx.floor("R4", 18)


def _lint(ctx, F):
    base = F.const("core", "element_base")
    sym_of = {z: v[1] for z, v in base.items()}
    iso_rows = [l.split(",") for l in F.const("mass", "isotope_mass").split("\n")]
    el_rows = [l.split() for l in F.const("mass", "element_mass").split("\n")]
    ab_lines = F.const("mass", "isotope_abundance").split("\n")
    dens = F.const("density", "element_densities")
    constants_lint(ctx, "R6", ["neutron_mass", "avogadro_number"], "mass of the free neutron; number density = density N_A / mass")
    ctx.unit("isotope_mass_rows", len(iso_rows)); ctx.unit("element_mass_rows", len(el_rows)); ctx.unit("abundance_lines", len(ab_lines))
    site = "periodictable/mass.py"
    bad = [r for r in iso_rows if len(r) != 4 or not re.fullmatch(r"\d+-[A-Z][a-z]?-\d+", r[0])]
    ctx.check(not bad, "R3", "every isotope_mass row is 'Z-Sym-A,mass,abundance,weight'", f"{bad[:3]}", site, sample={"rows": len(iso_rows)})
    bad = [r[0] for r in iso_rows if sym_of.get(int(r[0].split("-")[0])) != r[0].split("-")[1]]
    ctx.check(not bad, "R3", "Z and symbol of every isotope_mass row agree with element_base", f"{bad[:5]}", site)
    bad = [(r[0], c) for r in iso_rows for c in (r[1], r[3]) if notation.lexical_class(c) in (None, "empty") and c != ""]
    ctx.check(not bad, "R3", "every mass cell of isotope_mass is in a documented notation", f"{bad[:5]}", site)
    col4 = {}
    for r in iso_rows:
        if len(r) == 4:
            col4.setdefault(r[0].split("-")[1], set()).add(r[3])
    badc = {k_: sorted(v_) for k_, v_ in col4.items() if len(v_) > 1}
    ctx.check(not badc, "R3", "the atomic-weight cell (fourth column) is the same on every isotope row of an element",
              f"{list(badc.items())[:3]}: the reader keeps whichever row comes last", site, sample={"elements": len(col4)})
    keys = [r[0] for r in iso_rows]
    ctx.check(len(keys) == len(set(keys)), "R3", "no nuclide is listed twice in isotope_mass", "duplicates", site)
    bad = [r[:4] for r in el_rows if len(r) < 4 or sym_of.get(int(r[0])) != r[1] or (r[3] != "-" and notation.lexical_class(r[3]) in (None, "empty"))]
    ctx.check(not bad, "R3", "every element_mass row is 'Z Sym name value ...' with a documented value notation or '-'",
              f"{bad[:3]}", site, sample={"rows": len(el_rows)})
    # composition table: header / detail discrimination and block arithmetic
    masses = {(int(k.split("-")[0]), int(k.split("-")[2])): notation.read(r[1])[0] for k, r in ((r[0], r) for r in iso_rows) if r[1]}
    weights = {}
    for r in iso_rows:
        z = int(r[0].split("-")[0])
        if r[3]:
            weights[z] = notation.read(r[3])
    for r in el_rows:
        if r[3] != "-":
            weights[int(r[0])] = notation.read(r[3])
    blocks, cur = {}, None
    badl = []
    for line in ab_lines:
        if line[:1] not in " \t":
            parts = line.split()
            if len(parts) < 2 or not parts[0].isdigit() or sym_of.get(int(parts[0])) != parts[1]:
                badl.append(line)
                continue
            cur = int(parts[0])
            blocks[cur] = {}
        else:
            parts = line.split()
            if cur is None or len(parts) < 2 or not parts[0].isdigit() or notation.lexical_class(parts[1]) in (None, "empty"):
                badl.append(line)
                continue
            blocks[cur][int(parts[0])] = notation.read(parts[1])
    ctx.check(not badl, "R3", "every line of isotope_abundance is an element header or an indented 'A fraction' line", f"{badl[:3]}", site,
              sample={"blocks": len(blocks)})
    bad = [z for z, b in blocks.items() if abs(sum(float(v[0]) for v in b.values()) - 1) > 1e-3]
    ctx.check(not bad, "R3", "fractions of every element of the composition table sum to 1 within 1e-3", f"Z = {bad}", site)
    bad = [(z, a) for z, b in blocks.items() for a in b if (z, a) not in masses]
    ctx.check(not bad, "R3", "every isotope of the composition table has a mass row", f"{bad[:5]}", site)
    off = []
    for z, b in blocks.items():
        if z not in weights:
            continue
        tot = sum(float(v[0]) for v in b.values())
        mean = sum(float(v[0]) / tot * float(masses[(z, a)]) for a, v in b.items() if (z, a) in masses)
        wv, wu = weights[z]
        tol = max(3 * float(wu), 2e-4 * float(wv))
        if abs(mean - float(wv)) > tol:
            off.append((sym_of[z], round(mean, 5), float(wv), float(wu)))
    ctx.check(not off, "R3", "atomic weight = abundance-weighted isotope mass within 3 sigma (or 0.02 %) for every element with a composition",
              f"{off[:4]}", site, sample={"elements": len(blocks)})
    last = max(blocks)
    ctx.check(last == list(blocks)[-1], "R3", "the composition table is in increasing Z (the last block is the heaviest element)", "", site)
    bad = [k for k in dens if k not in {v[1] for v in base.values()}]
    ctx.check(not bad and len(dens) == len(base), "R3", "element_densities has one entry per element of element_base",
              f"unknown {bad}; {len(dens)} entries for {len(base)} elements", "periodictable/density.py")
    bad = [k for k, v in dens.items() if not (v is None or isinstance(v, (int, float)) or (isinstance(v, tuple) and len(v) == 2
           and isinstance(v[0], (int, float)) and isinstance(v[1], str)))]
    ctx.check(not bad, "R3", "every density entry is a number, (number, caveat) or None", f"{bad}", "periodictable/density.py",
              sample={"unknown densities": sum(1 for v in dens.values() if v is None)})
    ctx.floor("R3", 13)


def _density_graphs(ctx):
    w = world(ctx)
    I, A = w.I, w.atoms
    site = fsite(ctx, "density.density")
    NA = sp.Symbol("N_A", positive=True)
    rho, mFe, m56 = sp.Symbol("rho_Fe", positive=True), mass_sym("Fe"), mass_sym("Fe56")
    eq(ctx, "R5", "element density is the table value", I.getattr(A["element"], "density"), rho, site)
    eq(ctx, "R5", "isotope density = element density * isotope mass / element mass", I.getattr(A["isotope"], "density"), rho * m56 / mFe, site)
    eq(ctx, "R5", "ion density is that of its atom", I.getattr(A["ion_isotope"], "density"), rho * m56 / mFe, site)
    n = I.getattr(A["element"], "number_density")
    d = I.getattr(A["element"], "interatomic_distance")
    eq(ctx, "R5", "number density n = rho * N_A / m", n, rho * NA / mFe, fsite(ctx, "density.number_density"))
    eq(ctx, "R5", "n * d^3 = 1e24", n * d ** 3, sp.Integer(10) ** 24, fsite(ctx, "density.interatomic_distance"))
    eq(ctx, "R5", "an isotope has the number density of its element (same inter-atomic spacing)",
       I.call(I.global_name("density", "number_density"), [A["isotope"]], {}), rho * NA / mFe, fsite(ctx, "density.number_density"))
    for kind in ("isotope", "DT"):
        ni, di = I.getattr(A[kind], "number_density"), I.getattr(A[kind], "interatomic_distance")
        if ni is None or di is None:
            ctx.fail("R5", f"n * d^3 = 1e24 for an isotope [{kind}]", f"number_density {ni}, interatomic_distance {di}", fsite(ctx, "density.interatomic_distance"))
        else:
            eq(ctx, "R5", f"n * d^3 = 1e24 for an isotope [{kind}]", ni * di ** 3, sp.Integer(10) ** 24, fsite(ctx, "density.interatomic_distance"))
    # the documented customisation: after the table data change, the derived quantities follow
    Co = w.element("Co")
    w.set(Co, _density=sp.Symbol("rho_a", positive=True), _mass=sp.Symbol("m_a", positive=True))
    n_before = I.getattr(Co, "number_density")
    d_before = I.getattr(Co, "interatomic_distance")
    w.set(Co, _density=sp.Symbol("rho_b", positive=True))
    eq(ctx, "R5", "number density follows a change of the element's density (no stale value)", I.getattr(Co, "number_density"),
       sp.Symbol("rho_b", positive=True) * NA / sp.Symbol("m_a", positive=True), fsite(ctx, "density.number_density"))
    eq(ctx, "R5", "n * d^3 = 1e24 still holds after the change", I.getattr(Co, "number_density") * I.getattr(Co, "interatomic_distance") ** 3,
       sp.Integer(10) ** 24, fsite(ctx, "density.interatomic_distance"))
    # unknown element density
    U = w.element("U")
    w.set(U, _density=None, _mass=mass_sym("U"))
    U238 = w.isotope("U", 238)
    w.give_iso_mass(U238, "U238")
    for label, atom in (("element", U), ("isotope", U238), ("ion of the isotope", w.ion(U238, 4))):
        rr = raises(lambda: I.getattr(atom, "density"))
        ctx.check(rr is None and I.getattr(atom, "density") is None, "R5", f"unknown element density: density of the {label} is None, not an error",
                  f"raises {rr}" if rr else f"density = {_s(I.getattr(atom, 'density'))}", site)
    for fn in ("number_density", "interatomic_distance"):
        rr = raises(lambda: I.getattr(U, fn))
        ctx.check(rr is None and I.getattr(U, fn) is None, "R5", f"unknown element density: {fn} is None", f"raises {rr}",
                  fsite(ctx, f"density.{fn}"))
    ctx.floor("R5", 13)
