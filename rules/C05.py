"""C05 - X-ray factors, SLD and refraction follow the tables and documented equations."""
from __future__ import annotations

import ast
import re

import sympy as sp

from ptstat import AnalysisError, algebra
from ptstat.symval import SymObj, Phi, SymRaise, Builtin, Vec
from ptstat.symlib import interp_f, vec_f
from ptstat.world import World, mass_sym, install_class_writes
from .common import world, eq, fsite, raises, folder, _s, constants_lint, public_entry_points
from .C06 import fr, close

EXPLANATION = (
    "Value graphs of Xray.scattering_factors (both interpolation calls kept as uninterpreted "
    "applications whose axis, column and left/right arguments are checked), of the .nff table reader "
    "Xray._gettable on a probe file (column order after transposition, eV -> keV, -9999 -> NaN in f1 "
    "only, the neutron/nitrogen file-name guard), of xray_energy/xray_wavelength, xray_sld, Xray.sld "
    "(per atom kind), index_of_refraction, and of the Cromer-Mann evaluation CromerMannFormula.atstol "
    "(numpy matrix idiom modelled on nested vectors) and the symbol/charge key built by fxrayatstol "
    "are extracted from the current source and compared as identities with the documented equations. "
    "All 92 .nff files and all Cromer-Mann records are linted (exhaustive).  Not decided: reflectivity "
    "in [0, 1] (complex floating-point arithmetic), accuracy of interpolation near absorption edges.")

TECHNIQUE = "static analysis: value-graph identities (sympy), reader-shape extraction on probe files, exhaustive lint of the data files"


def xworld(ctx):
    """World in which every atom's .xray serves a symbolic table (E, f1, f2) of its element's file."""
    w = world(ctx)
    I = w.I
    I.stubs["core.get_data_path"] = lambda I_, a, k: "/data"
    install_class_writes(I, "xsf.init")

    def gettable(I_, args, kw):
        xr = args[0]
        el = I_.getattr(xr, "element")
        sym = I_.getattr(el, "symbol")
        if sym == "n":
            return None
        return (sp.Symbol(f"XE_{sym}", real=True), sp.Symbol(f"XF1_{sym}", real=True), sp.Symbol(f"XF2_{sym}", real=True))
    I.stubs["xsf.Xray._gettable"] = gettable
    return w


def run(ctx):
    from .common import array_hazard_sweep
    array_hazard_sweep(ctx, "R3", ("xsf", "cromermann", "magnetic_ff"), "a second call with the same array, or the caller's own later use of it, sees changed values (vector and scalar calls no longer agree)")
    F = folder(ctx)
    _reader(ctx, F)          # (the concrete probe table first: its verdicts stand whatever the symbolic part can follow)
    _factors(ctx)
    _sld(ctx)
    _cromer(ctx, F)
    # the Cromer-Mann reader and its data (shared with C20-R5): column order a1..a5 c b1..b5, sum a_i + c = Z - charge
    from .C20 import _cromer as reader_and_data
    reader_and_data(ctx, F)
    ctx.extra["exhaustive"] = True


# ------------------------------------------------------------------------------ R1 scattering factors
def _factors(ctx):
    site = fsite(ctx, "xsf.Xray.scattering_factors")
    w = xworld(ctx)
    I, A = w.I, w.atoms
    Fe = A["element"]
    xr = I.getattr(Fe, "xray")
    E = sp.Symbol("E", positive=True)
    lam = sp.Symbol("lam", positive=True)
    h, c = sp.Symbol("h", positive=True), sp.Symbol("c", positive=True)
    nan = sp.nan
    for label, kw, at in (("energy=", {"energy": E}, E), ("wavelength=", {"wavelength": lam}, h * c / lam * 10 ** 7)):
        f1, f2 = I.call(I.getattr(xr, "scattering_factors"), [], dict(kw))
        for name, val, col in (("f1", f1, "XF1_Fe"), ("f2", f2, "XF2_Fe")):
            v = sp.sympify(val)
            ok = isinstance(v, sp.Basic) and v.func == interp_f
            ctx.check(ok, "R1", f"{name} ({label}) is one interpolation into the element's table", f"extracted {_s(val)}", site)
            if not ok:
                continue
            x, xp, fp, left, right = v.args
            ok2, _, _ = algebra.equal(x, at)
            ctx.check(ok2, "R1", f"{name} ({label}) is interpolated at the energy in keV", f"evaluated at {x}, expected {at}", site)
            ctx.check(xp == sp.Symbol("XE_Fe", real=True) and fp == sp.Symbol(col, real=True), "R1",
                      f"{name} ({label}) uses the energy column as axis and column {col[:3]} as values", f"xp={xp}, fp={fp}", site)
            ctx.check(left is nan and right is nan, "R1", f"{name} ({label}) is NaN outside the tabulated range (left=nan, right=nan)",
                      f"left={left}, right={right}: values outside the table are extrapolated/clamped", site)
    # vector call: element i = scalar call at energy i
    Es = Vec([sp.Symbol("E1", positive=True), sp.Symbol("E2", positive=True)])
    f1v, f2v = I.call(I.getattr(xr, "scattering_factors"), [], {"energy": Es})
    f1a, _ = I.call(I.getattr(xr, "scattering_factors"), [], {"energy": Es.items[1]})
    ctx.check(isinstance(f1v, Vec) and len(f1v) == 2 and f1v.items[1] == f1a, "R1", "vector call: entry i equals the scalar call at energy i",
              f"{_s(f1v)} vs {_s(f1a)}", site)
    rr = raises(lambda: I.call(I.getattr(xr, "scattering_factors"), [], {}))
    ctx.check(rr == "TypeError", "R1", "neither energy nor wavelength raises TypeError", f"got {rr}", site)
    n = w.element("n")
    r = I.call(I.getattr(I.getattr(n, "xray"), "scattering_factors"), [], {"energy": E})
    ctx.check(r == (None, None), "R1", "an element without a table reports (None, None)", f"{_s(r)}", site)
    # isotopes and ions resolve to their element's table
    for kind in ("isotope", "ion_element", "ion_isotope"):
        f1k, _ = I.call(I.getattr(I.getattr(A[kind], "xray"), "scattering_factors"), [], {"energy": E})
        f1e, _ = I.call(I.getattr(xr, "scattering_factors"), [], {"energy": E})
        ctx.check(f1k == f1e, "R1", f"{kind}: scattering factors are those of the element's table", f"{_s(f1k)}", site)
    ctx.floor("R1", 20)


# ------------------------------------------------------------------------------ R2 table reader
def _reader(ctx, F):
    site = fsite(ctx, "xsf.Xray._gettable")
    w = world(ctx)
    I = w.I
    I.stubs["core.get_data_path"] = lambda I_, a, k: "/data"
    install_class_writes(I, "xsf.init")
    asked = []

    def exists(p):
        asked.append(p)
        return True
    I.loadtxt_data = [[sp.Rational(10), sp.Rational(-9999), sp.Rational("1.5")], [sp.Rational(20), sp.Rational("2.5"), sp.Rational("3.5")],
                      [sp.Rational(30), sp.Rational("4.5"), sp.Rational(-9999)]]
    ospath = I.new_obj("os.path", None, {"join": Builtin("join", lambda *a: "/".join(a)), "exists": Builtin("exists", exists)},
                       open_attrs=set())
    I.module_cache[("xsf", "os")] = I.new_obj("os", None, {"path": ospath}, open_attrs=set())
    Fe = w.atoms["element"]
    xr = I.getattr(Fe, "xray")
    tab = I.getattr(xr, "sftable")
    ok = isinstance(tab, Vec) and len(tab) == 3 and all(isinstance(r, Vec) and len(r) == 3 for r in tab.items)
    ctx.check(ok, "R2", "the table is (energy, f1, f2) as three arrays (file columns after transposition)", f"{_s(tab)}", site)
    if ok:
        e, f1, f2 = (r.items for r in tab.items)
        ctx.check([fr(x) for x in e] == [0.01, 0.02, 0.03] or all(close(fr(x), y) for x, y in zip(e, (0.01, 0.02, 0.03))), "R2",
                  "column 0 is the energy, converted from eV to keV", f"energies {e}", site)
        ctx.check(f1[0] is sp.nan and close(fr(f1[1]), 2.5) and close(fr(f1[2]), 4.5), "R2",
                  "column 1 is f1 with -9999 replaced by NaN", f"f1 = {f1}", site)
        ctx.check(close(fr(f2[0]), 1.5) and close(fr(f2[1]), 3.5) and close(fr(f2[2]), -9999), "R2",
                  "column 2 is f2 (its values are not touched by the -9999 filter)", f"f2 = {f2}", site)
    ctx.check(asked and asked[0].endswith("/fe.nff"), "R2", "the file is <lower-case symbol>.nff in the xsf data directory", f"asked for {asked}", site)
    if ok:
        # the lookup on this table at concrete energies: every node (first and last included), points between nodes, points
        # outside - as a vector and one by one; whatever the implementation, the values are the linear interpolant, NaN outside
        R_ = sp.Rational
        mid = (R_(7, 2) - 9999) / 2
        expect = [(R_(1, 100), sp.nan, R_(3, 2)), (R_(3, 200), sp.nan, R_(5, 2)), (R_(2, 100), R_(5, 2), R_(7, 2)),
                  (R_(5, 200), R_(7, 2), mid), (R_(3, 100), R_(9, 2), R_(-9999)), (R_(1, 200), sp.nan, sp.nan), (R_(7, 200), sp.nan, sp.nan),
                  # a hair beyond either end (5 parts in a million) is outside the table like anything else beyond it
                  (R_(3, 100) * (1 + R_(5, 10 ** 6)), sp.nan, sp.nan), (R_(1, 100) * (1 - R_(5, 10 ** 6)), sp.nan, sp.nan)]
        s_sf = fsite(ctx, "xsf.Xray.scattering_factors")
        sf = I.getattr(xr, "scattering_factors")

        def same(a_, b_):
            if b_ is sp.nan:
                return a_ is sp.nan or sp.sympify(a_) is sp.nan
            try:
                return sp.simplify(sp.sympify(a_) - b_) == 0
            except (TypeError, sp.SympifyError):
                return False
        rr = raises(lambda: I.call(sf, [], {"energy": Vec([e_ for e_, _, _ in expect])}))
        if rr is not None:
            ctx.fail("R1", "lookup on a concrete table with a vector of energies", f"raises {rr}", s_sf)
        else:
            v1, v2 = I.call(sf, [], {"energy": Vec([e_ for e_, _, _ in expect])})
            okv = isinstance(v1, Vec) and isinstance(v2, Vec) and len(v1) == len(expect) == len(v2)
            ctx.check(okv, "R1", "a vector of energies gives a vector per factor", f"{_s(v1)}, {_s(v2)}", s_sf)
            if okv:
                for (e_, w1, w2), g1, g2 in zip(expect, v1.items, v2.items):
                    where_ = "first node" if e_ == R_(1, 100) else "last node" if e_ == R_(3, 100) else "a node" if e_ == R_(2, 100) \
                        else "outside the table" if w2 is sp.nan else "between nodes"
                    ctx.check(same(g1, w1) and same(g2, w2), "R1", f"vector lookup at {float(e_):g} keV ({where_}) on the 3-row probe table",
                              f"(f1, f2) = ({_s(g1, 40)}, {_s(g2, 40)}), the table gives ({w1}, {w2})", s_sf, witness=f"energy={float(e_):g} keV")
            if okv:
                # the arrays handed out are the caller's: edited in place (NaN -> 0, rescaled) they must not be what the
                # next identical request returns
                for it_ in (v1, v2):
                    it_.items[:] = [sp.Integer(424242)] * len(it_.items)
                u1, u2 = I.call(sf, [], {"energy": Vec([e_ for e_, _, _ in expect])})
                oku = isinstance(u1, Vec) and isinstance(u2, Vec) and len(u1) == len(expect) == len(u2) \
                    and all(same(g1, w1) and same(g2, w2) for (e_, w1, w2), g1, g2 in zip(expect, u1.items, u2.items))
                ctx.check(oku and u1 is not v1 and u2 is not v2, "R1", "the same vector request again, after the first result was edited in place: the table's values in new arrays",
                          f"returns ({_s(u1, 60)}, {_s(u2, 60)}): the arrays handed out before are served again", s_sf)
        for e_, w1, w2 in expect:
            rr = raises(lambda: I.call(sf, [], {"energy": e_}))
            if rr is not None:
                ctx.fail("R1", f"scalar lookup at {float(e_):g} keV on the probe table", f"raises {rr}", s_sf)
                continue
            g1, g2 = I.call(sf, [], {"energy": e_})
            ctx.check(same(g1, w1) and same(g2, w2), "R1", f"scalar lookup at {float(e_):g} keV on the 3-row probe table",
                      f"(f1, f2) = ({_s(g1, 40)}, {_s(g2, 40)}), the table gives ({w1}, {w2})", s_sf, witness=f"energy={float(e_):g} keV")
    tab2 = I.getattr(xr, "sftable")
    ctx.check(tab2 is tab, "R2", "the table is loaded once per Xray object", "reloaded", site)
    # a second holder of the same file (an ion) gets an equally scaled, independent table
    ion = w.atoms["ion_element"]
    tabi = I.getattr(I.getattr(ion, "xray"), "sftable")
    if isinstance(tabi, Vec) and ok:
        ctx.check(all(close(fr(x), y) for x, y in zip(tabi.items[0].items, (0.01, 0.02, 0.03))) and
                  all(close(fr(x), y) for x, y in zip(tab.items[0].items, (0.01, 0.02, 0.03))), "R2",
                  "a second holder of the same file (an ion) sees energies in keV, and so does the first afterwards",
                  f"ion energies {tabi.items[0].items}, element energies {tab.items[0].items}", site)
    n = w.element("n")
    rn = I.getattr(I.getattr(n, "xray"), "sftable")
    ctx.check(rn is None, "R2", "the neutron (symbol 'n') does not pick up nitrogen's file n.nff", f"{_s(rn)}", site)
    Nn = w.element("N")
    rN = I.getattr(I.getattr(Nn, "xray"), "sftable")
    ctx.check(isinstance(rN, Vec), "R2", "nitrogen does get n.nff", f"{_s(rN)}", site)
    rn2 = I.getattr(I.getattr(n, "xray"), "sftable")
    ctx.check(rn2 is None, "R2", "the neutron still has no table after nitrogen's was loaded", f"{_s(rn2)}", site)
    # lint of all files
    import os
    d = ctx.src.root / "periodictable" / "xsf"
    files = sorted(p for p in os.listdir(d) if p.endswith(".nff"))
    base = {v[1].lower() for v in F.const("core", "element_base").values()}
    bad = []
    nrows = 0
    for fn in files:
        text = ctx.src.data_file(f"periodictable/xsf/{fn}")
        lines = [l for l in text.split("\n") if l.strip()]
        if lines[0].split() != ["E(eV)", "f1", "f2"]:
            bad.append((fn, "header"))
            continue
        prev = -1.0
        for l in lines[1:]:
            p = l.split()
            nrows += 1
            try:
                e, a, b = float(p[0]), float(p[1]), float(p[2])
            except (ValueError, IndexError):
                bad.append((fn, l[:30]))
                break
            if len(p) != 3 or e <= prev or b == -9999.:
                bad.append((fn, l[:30]))
                break
            prev = e
        if fn[:-4] not in base:
            bad.append((fn, "not an element symbol"))
    constants_lint(ctx, "R6", ["avogadro_number", "plancks_constant", "speed_of_light", "electron_radius"],
                   "SLD = r_e N (f1 + i f2) and lambda = h c / E in the documented x-ray equations")
    ctx.unit("nff_files", len(files)); ctx.unit("nff_rows", nrows)
    ctx.check(not bad and len(files) >= 90, "R2",
              "every .nff file: header 'E(eV) f1 f2', three numeric columns, strictly increasing energy, -9999 only in f1, named after an element",
              f"{bad[:4]}", "periodictable/xsf/*.nff", sample={"files": len(files), "rows": nrows})
    ctx.floor("R2", 10)


# ------------------------------------------------------------------------------ R3 conversions, SLD, refraction
def _sld(ctx):
    w = xworld(ctx)
    I, A = w.I, w.atoms
    h, c = sp.Symbol("h", positive=True), sp.Symbol("c", positive=True)
    re_, NA = sp.Symbol("r_e", positive=True), sp.Symbol("N_A", positive=True)
    E, lam, rho = sp.Symbol("E", positive=True), sp.Symbol("lam", positive=True), sp.Symbol("rho", positive=True)
    xe, xw = I.global_name("xsf", "xray_energy"), I.global_name("xsf", "xray_wavelength")
    eq(ctx, "R3", "xray_wavelength(E) = h c / E * 1e7", I.call(xw, [E], {}), h * c / E * 10 ** 7, fsite(ctx, "xsf.xray_wavelength"))
    eq(ctx, "R3", "xray_energy(xray_wavelength(E)) = E", I.call(xe, [I.call(xw, [E], {})], {}), E, fsite(ctx, "xsf.xray_energy"))
    eq(ctx, "R3", "xray_wavelength(xray_energy(lambda)) = lambda", I.call(xw, [I.call(xe, [lam], {})], {}), lam, fsite(ctx, "xsf.xray_wavelength"))
    site = fsite(ctx, "xsf.xray_sld")
    q = sp.symbols("q1:3", positive=True)
    xs = I.global_name("xsf", "xray_sld")
    O = A["element2"]

    def f(sym, col, e):
        return interp_f(e, sp.Symbol(f"XE_{sym}", real=True), sp.Symbol(f"X{col}_{sym}", real=True), sp.nan, sp.nan)

    def realise(v):
        """the tabulated f1, f2 are real: name each interpolation result by a real symbol"""
        v = sp.sympify(v)
        apps = sorted((a_ for a_ in v.atoms(sp.Function) if a_.func == interp_f), key=str)
        return v.xreplace({a_: sp.Symbol("itp_" + str(a_.args[2]) + "_at_" + str(abs(hash(str(a_.args[0]))) % 10 ** 6), real=True) for a_ in apps})
    for kind, m in (("element", mass_sym("Fe")), ("isotope", mass_sym("Fe56")), ("ion_element", mass_sym("Fe") - 2 * sp.Symbol("m_e", positive=True)),
                    ("ion_isotope", mass_sym("Fe56") - 3 * sp.Symbol("m_e", positive=True))):
        comp = {A[kind]: q[0], O: q[1]}
        M = q[0] * m + q[1] * mass_sym("O")
        got = I.call(xs, [dict(comp)], {"density": rho, "energy": E})
        for i, col in enumerate(("F1", "F2")):
            want = re_ * NA * rho / M * sp.Rational(1, 10 ** 8) * (q[0] * f("Fe", col, E) + q[1] * f("O", col, E))
            eq(ctx, "R3", f"{'rho' if i == 0 else 'irho'} of a compound with an {kind}: r_e N_A density/mass * sum count*f{i + 1} * 1e-8",
               realise(got[i]), realise(want), site, nonzero=[M])
    comp = {A["element"]: q[0], O: q[1]}
    gw = I.call(xs, [dict(comp)], {"density": rho, "wavelength": lam})
    ge = I.call(xs, [dict(comp)], {"density": rho, "energy": h * c / lam * 10 ** 7})
    eq(ctx, "R3", "wavelength= agrees with the equivalent energy=", gw[0], ge[0], site, nonzero=[q[0] * mass_sym("Fe") + q[1] * mass_sym("O")])
    got = I.call(xs, [dict(comp)], {"density": rho, "energy": E})
    d = algebra.homogeneity(algebra.main_arm(got[0], [q[0] * mass_sym("Fe") + q[1] * mass_sym("O")]), [rho], ctx.seed)
    ctx.check(d == 1, "R3", "the SLD is linear in the density", f"degree {d}", site)
    # isotopes at equal natural density give the same SLD
    nd = sp.Symbol("nd", positive=True)
    g_iso = I.call(xs, [{A["isotope"]: q[0], O: q[1]}], {"natural_density": nd, "energy": E})
    g_nat = I.call(xs, [{A["element"]: q[0], O: q[1]}], {"density": nd, "energy": E})
    for i in (0, 1):
        eq(ctx, "R3", f"{'rho' if i == 0 else 'irho'} does not depend on which isotopes are present at equal natural density",
           g_iso[i], g_nat[i], site, nonzero=[q[0] * mass_sym("Fe") + q[1] * mass_sym("O"), q[0] * mass_sym("Fe56") + q[1] * mass_sym("O")])
    # a pre-built Formula (with or without a density of its own) handed over with density= / natural_density= is evaluated at
    # the density asked for, like any other form of the compound
    fm_ = I.global_name("formulas", "formula")
    for own in ({"density": sp.Symbol("rho_own", positive=True)}, {}):
        fobj = I.call(fm_, [{A["isotope"]: q[0], O: q[1]}], dict(own))
        g_f = I.call(xs, [fobj], {"natural_density": nd, "energy": E})
        eq(ctx, "R3", f"Formula object {'with' if own else 'without'} its own density + natural_density=: rho is that of the natural density asked for",
           g_f[0], g_iso[0], site, nonzero=[q[0] * mass_sym("Fe") + q[1] * mass_sym("O"), q[0] * mass_sym("Fe56") + q[1] * mass_sym("O")])
        fobj = I.call(fm_, [{A["isotope"]: q[0], O: q[1]}], dict(own))
        g_d = I.call(xs, [fobj], {"density": nd, "energy": E})
        g_dd = I.call(xs, [{A["isotope"]: q[0], O: q[1]}], {"density": nd, "energy": E})
        eq(ctx, "R3", f"Formula object {'with' if own else 'without'} its own density + density=: rho is that of the density asked for",
           g_d[0], g_dd[0], site, nonzero=[q[0] * mass_sym("Fe") + q[1] * mass_sym("O"), q[0] * mass_sym("Fe56") + q[1] * mass_sym("O")])
    # f1 and f2 flow separately: a missing f1 (NaN below the first tabulated value) must not reach irho, nor f2 reach rho
    from ptstat.taint import tainted_names, names_in
    for qual in ("xsf.xray_sld", "xsf.Xray.sld"):
        fn = ctx.src.func(qual)
        pair = ret = None
        for node in ast.walk(fn.node):
            if isinstance(node, ast.Assign) and isinstance(node.targets[0], ast.Tuple) and len(node.targets[0].elts) == 2 \
                    and isinstance(node.value, ast.Call) and isinstance(node.value.func, ast.Attribute) \
                    and node.value.func.attr == "scattering_factors":
                pair = [t.id for t in node.targets[0].elts if isinstance(t, ast.Name)]
            if isinstance(node, ast.Return) and isinstance(node.value, ast.Tuple) and len(node.value.elts) == 2 \
                    and not all(isinstance(e_, ast.Constant) for e_ in node.value.elts):
                ret = node.value.elts
        if not pair or len(pair) != 2 or ret is None:
            ctx.ok("R3", f"{qual.split('.', 1)[1]}: f1/f2 are not separate local names here (flow rule not applicable to this shape)", site=fsite(ctx, qual),
                   nontrivial=False)
            continue
        t1, t2 = tainted_names(fn.node, {pair[0]}), tainted_names(fn.node, {pair[1]})
        ctx.check(not (names_in(ret[1]) & t1), "R3", f"{qual.split('.', 1)[1]}: irho does not depend on f1 (a missing f1 leaves irho defined)",
                  f"irho is computed from {sorted(names_in(ret[1]) & t1)}, which depend on f1: NaN in f1 makes irho NaN", fsite(ctx, qual))
        ctx.check(not (names_in(ret[0]) & t2), "R3", f"{qual.split('.', 1)[1]}: rho does not depend on f2",
                  f"rho is computed from {sorted(names_in(ret[0]) & t2)}, which depend on f2", fsite(ctx, qual))
    # two charge states of one element in one compound: counts of both enter the sums
    q3 = sp.Symbol("q3", positive=True)
    mv = {A["ion_element"]: q[0], A["anion"]: q[1], O: q3}
    me_ = sp.Symbol("m_e", positive=True)
    Mmv = q[0] * (mass_sym("Fe") - 2 * me_) + q[1] * (mass_sym("Fe") + 2 * me_) + q3 * mass_sym("O")
    gmv = I.call(xs, [dict(mv)], {"density": rho, "energy": E})
    for i, col in enumerate(("F1", "F2")):
        want = re_ * NA * rho / Mmv * sp.Rational(1, 10 ** 8) * ((q[0] + q[1]) * f("Fe", col, E) + q3 * f("O", col, E))
        eq(ctx, "R3", f"{'rho' if i == 0 else 'irho'} of a mixed-valence compound (Fe2+, Fe2-, O): every charge state is counted",
           realise(gmv[i]), realise(want), site, nonzero=[Mmv])
    e0 = I.call(xs, [I.call(I.global_name("formulas", "formula"), [], {})], {"density": rho, "energy": E})
    ctx.check(tuple(e0) == (0, 0), "R3", "the empty formula has zero SLD", f"{_s(e0)}", site)
    # Xray.sld for a bare element / isotope = one-atom compound at that atom's density
    s_x = fsite(ctx, "xsf.Xray.sld")
    for kind, m in (("element", mass_sym("Fe")), ("isotope", mass_sym("Fe56"))):
        atom = A[kind]
        got = I.call(I.getattr(I.getattr(atom, "xray"), "sld"), [], {"energy": E})
        ref = I.call(xs, [{atom: sp.Integer(1)}], {"density": I.getattr(atom, "density"), "energy": E})
        for i in (0, 1):
            eq(ctx, "R3", f"{kind}.xray.sld()[{i}] = xray_sld of the one-atom compound at the atom's density", got[i], ref[i], s_x, nonzero=[m])
    # index of refraction
    s_n = fsite(ctx, "xsf.index_of_refraction")
    ior = I.global_name("xsf", "index_of_refraction")
    nv = I.call(ior, [dict(comp)], {"density": rho, "wavelength": lam})
    r2, i2 = gw
    eq(ctx, "R3", "index of refraction = 1 - lambda^2/(2 pi) (rho + i irho) 1e-6", nv, 1 - lam ** 2 / (2 * sp.pi) * (r2 + sp.I * i2) * sp.Rational(1, 10 ** 6),
       s_n, nonzero=[q[0] * mass_sym("Fe") + q[1] * mass_sym("O")])
    ne = I.call(ior, [dict(comp)], {"density": rho, "energy": h * c / lam * 10 ** 7})
    eq(ctx, "R3", "index of refraction: energy= agrees with wavelength=", ne, nv, s_n, nonzero=[q[0] * mass_sym("Fe") + q[1] * mass_sym("O")])
    # thick-mirror reflectivity: the Fresnel form over an opaque index of refraction, and its boundary values
    s_m = fsite(ctx, "xsf.mirror_reflectivity")
    nref = sp.Symbol("n_re", positive=True) - sp.I * sp.Symbol("n_im", nonnegative=True)
    I.stubs["xsf.index_of_refraction"] = lambda I_, a_, k_: Vec([nref])
    try:
        mr = I.global_name("xsf", "mirror_reflectivity")
        th = sp.Symbol("theta_deg", positive=True)

        def refl(angle, rough=None):
            kw_ = {"compound": None, "density": rho, "wavelength": lam, "angle": angle}
            if rough is not None:
                kw_["roughness"] = rough
            v = I.call(mr, [], kw_)
            while isinstance(v, Vec) and len(v) == 1:
                v = v.items[0]
            return v
        k0 = 2 * sp.pi / lam
        thr = th * sp.pi / 180
        ki, kf = k0 * sp.sin(thr), k0 * sp.sqrt(nref ** 2 - sp.cos(thr) ** 2)
        eq(ctx, "R3", "mirror reflectivity = |(ki - kf)/(ki + kf)|^2 with ki = k sin(theta), kf = k sqrt(n^2 - cos^2(theta))",
           refl(th), sp.Abs((ki - kf) / (ki + kf)) ** 2, s_m)
        sg = sp.Symbol("sigma_r", positive=True)
        eq(ctx, "R3", "mirror reflectivity with roughness: Fresnel amplitude times exp(-2 ki kf sigma^2)",
           refl(th, sg), sp.Abs((ki - kf) / (ki + kf) * sp.exp(-2 * ki * kf * sg ** 2)) ** 2, s_m)
        r0 = raises(lambda: refl(sp.Integer(0)))
        v0 = refl(sp.Integer(0)) if r0 is None else None
        ok0 = r0 is None and v0 is not None and not sp.sympify(v0).has(sp.nan, sp.zoo) and sp.simplify(sp.sympify(v0) - 1) == 0
        ctx.check(ok0, "R3", "mirror reflectivity at grazing angle 0 is exactly 1 (the end of [0, 1])",
                  f"raises {r0}" if r0 else f"value {_s(v0)}", s_m)
    finally:
        del I.stubs["xsf.index_of_refraction"]
    public_entry_points(ctx, "RW", [("xray_sld", "xsf.xray_sld")])
    ctx.floor("R3", 25)


# ------------------------------------------------------------------------------ R4 Cromer-Mann
def _cromer(ctx, F, R="R4"):
    w = World(ctx.src, loaders=())
    I = w.I
    I.stubs["core.get_data_path"] = lambda I_, a, k: "/data"
    s_at = fsite(ctx, "cromermann.CromerMannFormula.atstol")
    CM = I.get_class("cromermann.CromerMannFormula")
    a = sp.symbols("a1:6", real=True)
    b = sp.symbols("b1:6", positive=True)
    c = sp.Symbol("c0", real=True)
    cm = I.instantiate(CM, ["Fe", list(a), list(b), c], {}, name="cmf", open_attrs=())
    s = sp.Symbol("s", positive=True)
    inside = sum(ai * sp.exp(-bi * s ** 2) for ai, bi in zip(a, b)) + c
    # concrete abscissae first (decided whatever shape the implementation has): the fitted range is closed, 0 <= s <= 6
    pts = [sp.Integer(0), sp.Integer(3), sp.Integer(6), sp.Integer(6) + sp.Rational(1, 10 ** 6), sp.Integer(7)]

    def okpt(got_, s_):
        if s_ > 6:
            return got_ is sp.nan or sp.sympify(got_) is sp.nan
        try:
            return sp.simplify(sp.sympify(got_) - inside.subs(s, s_)) == 0
        except (TypeError, sp.SympifyError):
            return False
    rr_v = raises(lambda: I.call(I.getattr(cm, "atstol"), [Vec(list(pts))], {}))
    if rr_v is not None:
        ctx.fail(R, "atstol on a vector of concrete abscissae (0, 3, 6, 6.000001, 7)", f"raises {rr_v}", s_at)
    else:
        vv0 = I.call(I.getattr(cm, "atstol"), [Vec(list(pts))], {})
        okshape = isinstance(vv0, Vec) and len(vv0) == len(pts)
        ctx.check(okshape, R, "atstol on a vector gives one value per abscissa", f"{_s(vv0, 120)}", s_at)
        if okshape:
            for s_, g_ in zip(pts, vv0.items):
                ctx.check(okpt(g_, s_), R, f"atstol at s = {float(s_):g} (vector call): " + ("NaN beyond the fitted range" if s_ > 6 else "the fitted sum (the range is closed at 6)"),
                          f"value {_s(g_, 80)}", s_at, witness=f"stol={float(s_):g}")
    for s_ in pts:
        rr_s = raises(lambda: I.call(I.getattr(cm, "atstol"), [s_], {}))
        if rr_s is not None:
            ctx.fail(R, f"atstol at s = {float(s_):g} (scalar call)", f"raises {rr_s}", s_at)
            continue
        g_ = I.call(I.getattr(cm, "atstol"), [s_], {})
        g_ = g_.items[0] if isinstance(g_, Vec) and len(g_) == 1 else g_
        ctx.check(okpt(g_, s_), R, f"atstol at s = {float(s_):g} (scalar call): " + ("NaN beyond the fitted range" if s_ > 6 else "the fitted sum (the range is closed at 6)"),
                  f"value {_s(g_, 80)}", s_at, witness=f"stol={float(s_):g}")
    val = I.call(I.getattr(cm, "atstol"), [s], {})
    arms = algebra._arms(sp.sympify(val))
    fin = [(ex, cs) for ex, cs in arms if not ex.has(sp.nan)]
    nans = [(ex, cs) for ex, cs in arms if ex.has(sp.nan)]
    ctx.check(len(fin) == 1, R, "atstol has one finite arm", f"{_s(val, 200)}", s_at)
    if len(fin) == 1:
        eq(ctx, R, "f0(s) = sum a_i exp(-b_i s^2) + c inside the fitted range", fin[0][0], inside, s_at)
        eq(ctx, R, "f0 -> sum a_i + c as s -> 0 (the electron count Z - charge, see the data lint)", fin[0][0].subs(s, 0), sum(a) + c, s_at)
    lim = I.getattr(cm, "stollimit")
    good = len(nans) == 1 and any(isinstance(cnd, (sp.Gt, sp.Lt, sp.Ge, sp.Le)) and sp.simplify((cnd.lhs - cnd.rhs) - (s - lim)) == 0
                                  and isinstance(cnd, (sp.Gt, sp.Ge)) for cnd in nans[0][1]) if nans else False
    ctx.check(good, R, "f0 is NaN exactly when sin(theta)/lambda itself exceeds stollimit",
              f"NaN arm condition {[str(x) for _, cs in nans for x in cs]}, expected s > {lim}", s_at)
    ctx.check(lim == 6, R, "stollimit is 6 1/Ang, i.e. Q = 24 pi", f"stollimit = {lim}", s_at)
    vv = I.call(I.getattr(cm, "atstol"), [Vec([s, sp.Integer(7)])], {})
    ctx.check(isinstance(vv, Vec) and len(vv) == 2 and vv.items[1] is sp.nan, R, "vector call: an entry beyond the limit is NaN, shape kept",
              f"{_s(vv, 200)}", s_at)
    # Q -> s and the key
    s_q = fsite(ctx, "cromermann.fxrayatq")
    keys = []

    def fake_cm(I_, args, kw):
        keys.append(args[0])
        return cm
    I.stubs["cromermann.getCMformula"] = fake_cm
    Q = sp.Symbol("Q", positive=True)
    vq = I.call(I.global_name("cromermann", "fxrayatq"), ["Fe", Q], {"charge": sp.Integer(0)})
    finq = [ex for ex, cs in algebra._arms(sp.sympify(vq)) if not ex.has(sp.nan)]
    eq(ctx, R, "fxrayatq evaluates the formula at s = Q / (4 pi)", finq[0], inside.subs(s, Q / (4 * sp.pi)), s_q)
    s_k = fsite(ctx, "cromermann.fxrayatstol")
    fx = I.global_name("cromermann", "fxrayatstol")
    for sym, ch, want in (("Fe", 2, "Fe2+"), ("O", -2, "O2-"), ("Na", 1, "Na1+"), ("Cl", -1, "Cl1-"), ("Fe", 0, "Fe"), ("Fe", None, "Fe"),
                          ("Ca2+", None, "Ca2+"), ("Na+", None, "Na1+"), ("Cl-", None, "Cl1-"), ("Fe3+", 2, "Fe2+"), ("Siva", None, "Siva"),
                          ("Ca2+", 0, "Ca"), ("O2-", 0, "O"), ("Fe3+", -2, "Fe2-"), ("Cl-", 1, "Cl1+")):
        del keys[:]
        I.call(fx, [sym, s], {"charge": None if ch is None else sp.Integer(ch)})
        ctx.check(keys == [want], R, f"lookup key for symbol '{sym}', charge {ch} is '{want}'", f"looked up {keys}", s_k)
    # every ion record of the data file is reachable through (symbol, charge)
    text = ctx.src.data_file("periodictable/xsf/f0_WaasKirf.dat")
    filekeys = [l.split()[2] for l in text.split("\n") if l.startswith("#S")]
    bad = []
    for k in filekeys:
        mm = re.fullmatch(r"([A-Z][a-z]?)(\d)([+-])", k)
        if not mm:
            continue
        sym, n, sg = mm.groups()
        del keys[:]
        I.call(fx, [sym, s], {"charge": sp.Integer(int(n) * (1 if sg == "+" else -1))})
        if keys != [k]:
            bad.append((k, list(keys)))
    ctx.check(not bad, R, "the key built from (symbol, charge) is exactly the data file's key for every ion record", f"{bad[:4]}", s_k,
              sample={"ion records": sum(1 for k in filekeys if re.search(r"\d[+-]$", k))})
    # Xray.f0 passes the element's own symbol and charge
    w2 = xworld(ctx)
    I2 = w2.I
    seen = []
    I2.stubs["cromermann.fxrayatq"] = lambda I_, a_, k_: seen.append((k_.get("symbol"), k_.get("charge"))) or sp.Integer(0)
    for kind, want in (("element", ("Fe", 0)), ("ion_element", ("Fe", 2)), ("ion_isotope", ("Fe", 3)), ("isotope", ("Fe", 0))):
        del seen[:]
        I2.call(I2.getattr(I2.getattr(w2.atoms[kind], "xray"), "f0"), [Q], {})
        got = [(a_, int(b_)) for a_, b_ in seen]
        ctx.check(got == [want], R, f"{kind}.xray.f0 asks for symbol {want[0]} with charge {want[1]}", f"asked {got}", fsite(ctx, "xsf.Xray.f0"))
    # an ion without a record is not served the neutral atom's (or any other) record: the lookup error reaches the caller
    asked = []

    def missing_record(I_, a_, k_):
        asked.append((k_.get("symbol", a_[0] if a_ else None), k_.get("charge")))
        raise SymRaise("KeyError", "no such record")
    I2.stubs["cromermann.fxrayatq"] = missing_record
    rr_ = raises(lambda: I2.call(I2.getattr(I2.getattr(w2.atoms["ion_element"], "xray"), "f0"), [Q], {}))
    ctx.check(rr_ is not None and len(asked) == 1, R, "an ion whose (symbol, charge) has no record: f0 raises and asks for no other record",
              f"f0 returned a value after asking for {asked}" if rr_ is None else f"asked for {asked}", fsite(ctx, "xsf.Xray.f0"))
    ctx.floor(R, 27)
