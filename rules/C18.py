"""C18 - biomolecule sequences are the sum of their residues."""
from __future__ import annotations

import ast

import sympy as sp

from ptstat import AnalysisError
from ptstat.symval import SymObj, Phi, SymRaise, Builtin
from ptstat.world import mass_sym
from .common import eq, dict_eq, fsite, raises, folder, _s
from .C16 import setup

EXPLANATION = (
    "fasta.Sequence.__init__, Molecule.__init__, _code_average, the 'aa:'/'dna:'/'rna:' dispatch in "
    "formulas.formula, read_fasta, Sequence.load/loadall and _guess_type_from_filename are interpreted "
    "from the current source over a generic code table (residues with symbolic compositions, cell "
    "volumes and charges): formula, cell volume, charge and masses of a sequence are compared as "
    "identities with the sums over its codes, for permuted code strings, with spaces and a '*' "
    "terminator; averaged codes are compared with the equal-weight mean; FASTA text is split into "
    "records on generic line lists.  The literal residue tables are linted: every averaged code is "
    "built from codes that exist, over the documented member lists.  Not decided: the chemistry of "
    "each residue's literal formula and volume (the table is the definition).")


def residues(w):
    I, A = w.I, w.atoms
    fm = I.global_name("formulas", "formula")
    Mol = I.get_class("fasta.Molecule")
    P = lambda n: sp.Symbol(n, positive=True)
    out = {}
    for code, comp in (("A", {A["element"]: P("a1"), A["H1"]: P("a2")}),
                       ("B", {A["element2"]: P("b1"), A["H1"]: P("b2"), A["element"]: P("b3")}),
                       ("C", {A["element2"]: P("c1")})):
        f = I.call(fm, [dict(comp)], {})
        out[code] = I.instantiate(Mol, [code, f], {"cell_volume": P(f"V{code}"), "charge": sp.Symbol(f"z{code}", real=True)},
                                  name=f"res{code}", open_attrs=())
    # the DNA and the RNA table name their residues alike ('adenosine' is code A in both) although the molecules differ
    for key, like in (("dnaA", "C"), ("rnaA", "B")):
        f = I.call(fm, [dict(I.getattr(I.getattr(out[like], "labile_formula"), "atoms"))], {})
        out[key] = I.instantiate(Mol, ["adenosine", f], {"cell_volume": P(f"V{like}"), "charge": sp.Symbol(f"z{like}", real=True)},
                                 name=f"res{key}", open_attrs=())
    return out


def run(ctx):
    w, seen = setup(ctx)
    I, A = w.I, w.atoms
    # SLD values are C16's subject; here they are opaque numbers attached to each formula
    n_sld = [0]

    def opaque_sld(I_, args, kw):
        n_sld[0] += 1
        return tuple(sp.Symbol(f"sld{n_sld[0]}_{k}", real=True) for k in ("re", "im", "inc"))
    I.stubs["nsf.neutron_sld"] = opaque_sld
    res = residues(w)
    dnaA, rnaA = res.pop("dnaA"), res.pop("rnaA")
    I.symconst["fasta.CODE_TABLES"] = {"aa": dict(res), "dna": {"A": dnaA}, "rna": {"A": rnaA}}
    I.module_cache.pop(("fasta", "CODE_TABLES"), None)
    Seq = I.get_class("fasta.Sequence")
    P = lambda n: sp.Symbol(n, positive=True)
    site = fsite(ctx, "fasta.Sequence.__init__")
    NA = sp.Symbol("N_A", positive=True)

    def seq(text, typ="aa"):
        return I.instantiate(Seq, ["s", text], {"type": typ}, name=f"seq[{text}]", open_attrs=())

    def expect(codes):
        vol = sum(P(f"V{c}") for c in codes)
        ch = sum(sp.Symbol(f"z{c}", real=True) for c in codes)
        atoms = {}
        for c in codes:
            for a, n in I.getattr(I.getattr(res[c], "labile_formula"), "atoms").items():
                atoms[a] = atoms.get(a, 0) + n
        return vol, ch, atoms

    # ---- R1 additivity, order independence, spaces and '*' --------------------------------
    ref = None
    for text, codes in (("ABCA", "ABCA"), ("AACB", "ABCA"), ("A B\tCA" .replace("\t", ""), "ABCA"), ("AB CA*BBB", "ABCA"),
                        ("CB*", "CB"), ("A", "A")):
        s = seq(text)
        vol, ch, atoms = expect(codes)
        eq(ctx, "R1", f"cell volume of '{text}' = sum over {codes}", I.getattr(s, "cell_volume"), vol, site)
        eq(ctx, "R1", f"charge of '{text}' = sum over {codes}", I.getattr(s, "charge"), ch, site)
        lab = I.getattr(s, "labile_formula")
        dict_eq(ctx, "R1", f"formula of '{text}' = sum of residue formulas", I.getattr(lab, "atoms"), atoms, site)
        mass = sum(n * I.getattr(a, "mass") for a, n in atoms.items())
        eq(ctx, "R1", f"density of '{text}' = mass / cell volume", I.getattr(lab, "density"), sp.Integer(10) ** 24 * mass / NA / vol,
           fsite(ctx, "fasta.Molecule.__init__"))
        hmass = sum(n * (I.getattr(A["H"], "mass") if a is A["H1"] else I.getattr(a, "mass")) for a, n in atoms.items())
        eq(ctx, "R1", f"mass of '{text}' (labile H as natural H) = sum of residue masses", I.getattr(s, "mass"), hmass,
           fsite(ctx, "fasta.Molecule.__init__"))
        if codes == "ABCA":
            st = I.getattr(lab, "structure")
            if ref is None:
                ref = st
            ctx.check(st == ref, "R1", f"'{text}': the formula does not depend on residue order, spaces or text after '*'",
                      f"structure {_s(st, 150)} differs from {_s(ref, 150)}", site)
    e = seq("")
    eq(ctx, "R1", "empty sequence: zero volume", I.getattr(e, "cell_volume"), 0, site)
    ctx.check(I.getattr(I.getattr(e, "labile_formula"), "atoms") == {}, "R1", "empty sequence: empty formula", "not empty", site)
    rr = raises(lambda: seq("AXA"))
    ctx.check(rr == "KeyError", "R1", "a code outside the table is rejected (KeyError)", f"got {rr}", site)
    # the residue tables are ordinary module dictionaries: an entry replaced (or added) after sequences of that type were
    # built is what later sequences are made of (nothing derived from the tables may be remembered across sequences)
    aa = I.symconst["fasta.CODE_TABLES"]["aa"]
    old_A = aa["A"]
    aa["A"] = res["C"]
    aa["U"] = res["B"]
    try:
        for text, codes in (("AB", "CB"), ("UA", "BC")):
            rr = raises(lambda: seq(text))
            if rr is not None:
                ctx.fail("R1", f"'{text}' after the table entry of A was replaced and U added: sum of the current entries", f"raises {rr}", site)
                continue
            s = seq(text)
            vol, ch, atoms = expect(codes)
            eq(ctx, "R1", f"cell volume of '{text}' after the table entry of A was replaced and U added", I.getattr(s, "cell_volume"), vol, site)
            dict_eq(ctx, "R1", f"formula of '{text}' after the table entry of A was replaced and U added",
                    I.getattr(I.getattr(s, "labile_formula"), "atoms"), atoms, site)
    finally:
        aa["A"] = old_A
        del aa["U"]
    # spaces separate nothing: a spaced sequence is the sum of every letter in it, whatever the blocks happen to spell
    # (blocks of three that read as residue names, blocks of ten as pasted from a sequence database)
    alphabet = "ACDEFGHIKLMNPQRSTVWY"
    Mol = I.get_class("fasta.Molecule")
    fm = I.global_name("formulas", "formula")
    full = {}
    for c in alphabet:
        f = I.call(fm, [{A["element"]: P(f"n{c}"), A["H1"]: P(f"h{c}")}], {})
        full[c] = I.instantiate(Mol, [c, f], {"cell_volume": P(f"V{c}"), "charge": sp.Symbol(f"z{c}", real=True)},
                                name=f"res{c}", open_attrs=())
    saved = dict(aa)
    aa.clear()
    aa.update(full)
    try:
        for text in ("ALA GLY SER", "GLY GLY", "MET LYS VAL", "SER VAL MET ASP ASN", "ARG GLY LEY", "MKVLAAGIVG LLLAQWERTY"):
            letters = text.replace(" ", "")
            rr = raises(lambda: seq(text))
            if rr is not None:
                ctx.fail("R1", f"'{text}': sum over its {len(letters)} letters", f"raises {rr}", site)
                continue
            s = seq(text)
            eq(ctx, "R1", f"cell volume of '{text}' = sum over its {len(letters)} letters", I.getattr(s, "cell_volume"),
               sum(P(f"V{c}") for c in letters), site)
            eq(ctx, "R1", f"charge of '{text}' = sum over its {len(letters)} letters", I.getattr(s, "charge"),
               sum(sp.Symbol(f"z{c}", real=True) for c in letters), site)
            dict_eq(ctx, "R1", f"formula of '{text}' = sum over its {len(letters)} letters",
                    I.getattr(I.getattr(s, "labile_formula"), "atoms"),
                    {A["element"]: sum(P(f"n{c}") for c in letters), A["H1"]: sum(P(f"h{c}") for c in letters)}, site)
    finally:
        aa.clear()
        aa.update(saved)
    ctx.floor("R1", 56)

    # ---- R2 averaged codes -------------------------------------------------------------------
    # the averaging helper: the function of fasta with two parameters that every module-level "averaged code" definition
    # reaches (found through the call graph, not by its name)
    cg = ctx.src.callgraph()
    import networkx as nx
    mod_calls = set()
    for st in ctx.src.module("fasta").tree.body:
        if isinstance(st, (ast.FunctionDef, ast.ClassDef, ast.AsyncFunctionDef)):
            continue
        # statements run at import time, also inside a module-level loop over a table of averaged codes
        for nd in ast.walk(st):
            if isinstance(nd, ast.Call) and isinstance(nd.func, ast.Name):
                r_ = ctx.src.resolve("fasta", nd.func.id)
                if r_ and r_[0] == "func":
                    mod_calls.add(r_[1])
    cands = set()
    for q_ in mod_calls:
        for d_ in (nx.descendants(cg, q_) if q_ in cg else ()):
            a_ = ctx.src.func(d_).node.args
            if len(a_.args) - len(a_.defaults) == 2 and d_.startswith("fasta.") and d_.count(".") == 1:
                cands.add(d_)
    if len(cands) > 1:
        cands = {c_ for c_ in cands if c_.rsplit(".", 1)[-1].startswith("_")} or cands      # a private helper, not the public API
    if len(cands) > 1:
        # several two-argument helpers: the averaging one returns (formula, cell volume, charge) for a string of codes
        keep = set()
        for c_ in sorted(cands):
            try:
                r_ = I.call(I.global_name(*c_.split(".", 1)), ["AB", dict(res)], {})
            except (SymRaise, AnalysisError):
                continue
            if isinstance(r_, tuple) and len(r_) == 3:
                keep.add(c_)
        cands = keep or cands
    if len(cands) != 1:
        raise AnalysisError(f"averaging helper of fasta not identified (candidates {sorted(cands)})")
    ca_q = sorted(cands)[0]
    ca = I.global_name(*ca_q.split(".", 1))
    s_ca = fsite(ctx, ca_q)
    for bases in ("AB", "ABC", "A", "AAB"):
        f, v, c = I.call(ca, [bases, dict(res)], {})
        vol, ch, atoms = expect(bases)
        n = len(bases)
        eq(ctx, "R2", f"average over '{bases}': cell volume / n", v, vol / n, s_ca)
        eq(ctx, "R2", f"average over '{bases}': charge / n", c, ch / n, s_ca)
        dict_eq(ctx, "R2", f"average over '{bases}': formula / n", I.getattr(f, "atoms"), {a: x / n for a, x in atoms.items()}, s_ca)
    f, v, c = I.call(ca, ["", dict(res)], {})
    ctx.check(I.getattr(f, "atoms") == {} and v == 0 and c == 0, "R2", "average over no codes is the empty molecule",
              f"({_s(I.getattr(f, 'atoms'))}, {v}, {c})", s_ca)
    # the averaged entries as the module itself installs them: the module-level statements that follow the amino-acid table
    # are executed on a generic table of the 20 standard residues; B, Z, J, X and the gap must come out as the plain means
    # of their members - formula, cell volume *and* charge
    std = "ACDEFGHIKLMNPQRSTVWY"
    fm_ = I.global_name("formulas", "formula")
    Mol_ = I.get_class("fasta.Molecule")
    gen = {}
    for c_ in std:
        f_ = I.call(fm_, [{A["element"]: P(f"n{c_}"), A["H1"]: P(f"h{c_}")}], {})
        gen[c_] = I.instantiate(Mol_, [c_, f_], {"cell_volume": P(f"W{c_}"), "charge": sp.Symbol(f"y{c_}", real=True)}, name=f"gen{c_}", open_attrs=())
    saved_tables = I.symconst.get("fasta.CODE_TABLES")
    I.symconst["fasta.AMINO_ACID_CODES"] = gen
    I.module_cache.pop(("fasta", "AMINO_ACID_CODES"), None)
    mod_ = ctx.src.module("fasta")
    started = False
    nexec = 0
    mod_frame = None
    from ptstat.symx import Frame as _Frame
    for st in mod_.tree.body:
        if isinstance(st, ast.Assign) and any(isinstance(t_, ast.Name) and t_.id == "AMINO_ACID_CODES" for t_ in st.targets):
            started = True
            continue
        if not started:
            continue
        if isinstance(st, ast.Assign):
            break                                  # the next table: the amino-acid table is complete
        if isinstance(st, ast.Expr) and isinstance(st.value, ast.Call) or isinstance(st, (ast.For, ast.Delete)):
            mod_frame = mod_frame if nexec else _Frame(I, "fasta", "fasta")
            I.exec_stmt(st, mod_frame, sp.true)
            nexec += 1
    s_tab = "periodictable/fasta.py AMINO_ACID_CODES (averaged entries)"
    for code, members in (("B", "DN"), ("Z", "EQ"), ("J", "LI"), ("X", std)):
        if code not in gen:
            ctx.fail("R2", f"averaged code '{code}' is installed by the module", f"no entry '{code}' after the module's {nexec} statements", s_tab)
            continue
        n_ = len(members)
        e_ = gen[code]
        eq(ctx, "R2", f"table entry '{code}': charge is the mean charge of {members if n_ < 5 else 'the 20 standard residues'}",
           I.getattr(e_, "charge"), sum(sp.Symbol(f"y{c_}", real=True) for c_ in members) / n_, s_tab)
        eq(ctx, "R2", f"table entry '{code}': cell volume is the mean cell volume", I.getattr(e_, "cell_volume"), sum(P(f"W{c_}") for c_ in members) / n_, s_tab)
        eq(ctx, "R2", f"table entry '{code}': iron count of the formula is the mean", I.getattr(I.getattr(e_, "labile_formula"), "atoms")[A["element"]],
           sum(P(f"n{c_}") for c_ in members) / n_, s_tab)
    if "-" in gen:
        ctx.check(I.getattr(gen["-"], "charge") == 0 and I.getattr(gen["-"], "cell_volume") == 0, "R2", "table entry '-' (gap) is empty", "not empty", s_tab)
    I.symconst.pop("fasta.AMINO_ACID_CODES", None)
    I.module_cache.pop(("fasta", "AMINO_ACID_CODES"), None)
    ctx.floor("R2", 25)

    # ---- R3 prefix route -----------------------------------------------------------------------
    fm = I.global_name("formulas", "formula")
    s_fm = fsite(ctx, "formulas.formula")
    from .C16 import UnexpectedParse
    for pre, text, table in (("aa", "ABCA", res), ("dna", "AA", {"A": dnaA}), ("rna", "AA", {"A": rnaA})):
        try:
            got = I.call(fm, [f"{pre}:{text}"], {})
        except UnexpectedParse as exc:
            ctx.fail("R3", f"formula('{pre}:{text}') = Sequence('{text}', type='{pre}').labile_formula [atoms]",
                     "the prefix route sends text through the chemical-formula parser (a printed formula carries six significant "
                     f"digits, so long sequences and averaged codes no longer give the class's formula): {str(exc)[:160]}", s_fm)
            continue
        want = I.getattr(seq(text, pre), "labile_formula")
        dict_eq(ctx, "R3", f"formula('{pre}:{text}') = Sequence('{text}', type='{pre}').labile_formula [atoms]",
                I.getattr(got, "atoms"), I.getattr(want, "atoms"), s_fm)
        eq(ctx, "R3", f"formula('{pre}:{text}') [density]", I.getattr(got, "density"), I.getattr(want, "density"), s_fm)
    # same codes under another prefix, evaluated afterwards, must use that prefix's table
    got = I.call(fm, ["rna:AA"], {})
    dict_eq(ctx, "R3", "formula('rna:AA') after formula('dna:AA') uses the RNA table", I.getattr(got, "atoms"),
            I.getattr(I.getattr(seq("AA", "rna"), "labile_formula"), "atoms"), s_fm)
    # ... and each is the sum of its own table's residues, in whichever order the two types are used (the DNA and RNA
    # tables name their residues alike, so nothing may be remembered under the residue's name)
    for typ_, mol_ in (("dna", dnaA), ("rna", rnaA), ("dna", dnaA)):
        own = {a_: 2 * n_ for a_, n_ in I.getattr(I.getattr(mol_, "labile_formula"), "atoms").items()}
        dict_eq(ctx, "R3", f"Sequence('AA', type='{typ_}') built after a sequence of the other nucleic-acid type = twice its own residue",
                I.getattr(I.getattr(seq("AA", typ_), "labile_formula"), "atoms"), own, site)
    # every call returns its own formula: formulas are mutable (+=), so a shared object would leak changes
    first = I.call(fm, ["aa:ABCA"], {})
    before = dict(I.getattr(first, "atoms"))
    extra = I.call(fm, [{next(iter(before)): sp.Integer(5)}], {})
    I.call(I.getattr(first, "__iadd__"), [extra], {})
    second = I.call(fm, ["aa:ABCA"], {})
    dict_eq(ctx, "R3", "formula('aa:ABCA') after the first result was extended in place still gives the sequence's formula",
            I.getattr(second, "atoms"), before, s_fm)
    rr = raises(lambda: I.call(fm, ["aa:AB*C C"], {}))
    ctx.check(rr is None, "R3", "the prefix route accepts '*' and spaces like the class", f"raises {rr}", s_fm)
    # length 0 is part of the domain: the class gives the empty molecule, so does the prefix
    for pre in ("aa", "dna", "rna"):
        try:
            rr = raises(lambda: I.call(fm, [f"{pre}:"], {}))
        except UnexpectedParse as exc:
            rr = "the text parser was asked for " + str(exc)[:80]
        ok0 = rr is None and I.getattr(I.call(fm, [f"{pre}:"], {}), "atoms") == {}
        ctx.check(ok0, "R3", f"formula('{pre}:') is the empty sequence's (empty) formula", f"raises {rr}" if rr else "not empty", s_fm)
    ctx.floor("R3", 12)

    # ---- R4 FASTA text -----------------------------------------------------------------------
    rf = I.global_name("fasta", "read_fasta")
    s_rf = fsite(ctx, "fasta.read_fasta")
    cases = [([">one", "ABC", "A B", ">two desc", "CC"], [(">one", "ABCA B"), (">two desc", "CC")]),
             ([">only", "AB\n", "CA  \n"], [(">only", "ABCA")]),
             ([">a", ">b", "C"], [(">a", ""), (">b", "C")]),
             ([">sp|P1 variant c.200C>A", "AB", ">two", "C"], [(">sp|P1 variant c.200C>A", "AB"), (">two", "C")]),
             ([">x", "", "AB", "", "C"], [(">x", "ABC")]),
             ([], []),
             (["junk before header", ">a", "AB"], [(">a", "AB")])]
    for lines, want in cases:
        got = I.lib.iterate(I, I.call(rf, [list(lines)], {}))
        ctx.check(list(got) == want, "R4", f"read_fasta on {lines!r}",
                  f"records {got!r}, expected {want!r} (one record per '>' header, lines concatenated, last record flushed)", s_rf)
    # the function that chooses the sequence type from the file name: what Sequence.load and loadall both call first
    from .common import callees_in_common
    import networkx as nx
    cg = ctx.src.callgraph()
    roots_ = {ctx.src.func(q_).qual for q_ in ("fasta.Sequence.load", "fasta.Sequence.loadall")}
    # what the two readers reach before a Sequence is constructed (methods of classes are not part of reading the file)
    cg = cg.subgraph([n_ for n_ in cg if n_ in roots_ or ctx.src.func(n_).cls is None])
    reach = [set(nx.descendants(cg, ctx.src.func(q_).qual)) if ctx.src.func(q_).qual in cg else set()
             for q_ in ("fasta.Sequence.load", "fasta.Sequence.loadall")]

    def plain_two_arg(q_):
        # (file name, explicit type) -> type: two parameters, not a generator, does not open or read anything itself
        if not ctx.src.has_func(q_) or "Sequence" in q_:
            return False
        fn_ = ctx.src.func(q_)
        if len(fn_.node.args.args + fn_.node.args.kwonlyargs) != 2:
            return False
        if any(isinstance(n_, (ast.Yield, ast.YieldFrom)) for n_ in ast.walk(fn_.node)):
            return False
        return not any(isinstance(n_, ast.Call) and isinstance(n_.func, ast.Name) and n_.func.id == "open" for n_ in ast.walk(fn_.node))
    gq = sorted(q_ for q_ in (reach[0] & reach[1]) if plain_two_arg(q_))
    if not gq:
        # only one of the two readers still goes through a helper: the helper is found from that one, and the other reader
        # is judged by what it does with a file (below)
        gq = sorted(q_ for q_ in (reach[0] | reach[1]) if plain_two_arg(q_))
    if len(gq) != 1:
        raise AnalysisError(f"file-type helper of Sequence.load/loadall not identified (candidates {gq})")
    g = I.global_name(*gq[0].split(".", 1))
    s_g = fsite(ctx, gq[0])
    for fn, typ, want in (("x.fna", None, "dna"), ("x.ffn", None, "dna"), ("x.faa", None, "aa"), ("x.frn", None, "rna"),
                          ("x.fasta", None, "aa"), ("x.fna", "rna", "rna"),
                          ("GCF_000005845.2_ASM584v2_genomic.fna", None, "dna"), ("run.2/prot.v1.faa", None, "aa"),
                          ("data.v2/x.frn", None, "rna"), ("a.b.ffn", None, "dna"), ("fna", None, "aa"), ("x.fna", "aa", "aa")):
        ga = ctx.src.func(gq[0]).node.args        # (file name, explicit type) in declaration order; keyword-only ones by name
        vals = [fn, typ]
        got = I.call(g, vals[:len(ga.args)], {a_.arg: v_ for a_, v_ in zip(ga.kwonlyargs, vals[len(ga.args):])})
        ctx.check(got == want, "R4", f"type of '{fn}' (type={typ}) is {want}", f"got {got!r}", s_g)
    # load / loadall: first record / every record, typed by the extension (or by the explicit type)
    from ptstat.symval import TextFile
    I.builtins["open"] = Builtin("open", lambda *a, **k: TextFile([">p1", "AA", ">p2", "A"], str(a[0]) if a else "<file>"))
    r = I.lib.iterate(I, I.call(I.getattr(Seq, "loadall"), ["x.faa"], {}))
    ctx.check(isinstance(r, list) and len(r) == 2 and I.getattr(r[0], "sequence") == "AA" and I.getattr(r[1], "sequence") == "A",
              "R4", "Sequence.loadall yields one Sequence per record", f"got {_s(r)}", fsite(ctx, "fasta.Sequence.loadall"))
    for fn_, typ_, want_ in (("x.fna", None, "dna"), ("x.faa", None, "aa"), ("x.frn", None, "rna"), ("x.fna", "rna", "rna"), ("x.fasta", None, "aa")):
        for meth in ("load", "loadall"):
            kw_ = {} if typ_ is None else {"type": typ_}
            rr_ = raises(lambda: I.lib.iterate(I, I.call(I.getattr(Seq, meth), [fn_], dict(kw_))) if meth == "loadall"
                         else I.call(I.getattr(Seq, meth), [fn_], dict(kw_)))
            if rr_ is not None:
                ctx.fail("R4", f"Sequence.{meth}('{fn_}', type={typ_}) reads the file as {want_}", f"raises {rr_}", fsite(ctx, f"fasta.Sequence.{meth}"))
                continue
            got_ = I.call(I.getattr(Seq, meth), [fn_], dict(kw_))
            first_ = I.lib.iterate(I, got_)[0] if meth == "loadall" else got_
            ref_ = seq("AA", want_)
            same_ = I.getattr(I.getattr(first_, "labile_formula"), "atoms") == I.getattr(I.getattr(ref_, "labile_formula"), "atoms")
            ctx.check(same_, "R4", f"Sequence.{meth}('{fn_}', type={typ_}) reads the file as {want_}",
                      f"formula {_s(I.getattr(I.getattr(first_, 'labile_formula'), 'atoms'))}, expected that of the {want_} table", fsite(ctx, f"fasta.Sequence.{meth}"))
    ctx.floor("R4", 28)

    # ---- R5 literal tables: averaged codes refer to existing codes ---------------------------
    _tables(ctx)
    ctx.unit("functions_inlined", len(set(I.calls)))
    ctx.assume("the with-statement and file objects are modelled by a stub; read_fasta is analysed on line lists")


def _members(node, defined_now):
    """Value of the member-list argument of _set_amino_acid_average at this point of the module."""
    if isinstance(node, ast.Constant) and isinstance(node.value, str):
        return list(node.value)
    if isinstance(node, ast.Name) and node.id == "AMINO_ACID_CODES":
        return list(defined_now)
    if isinstance(node, ast.Call):
        fn = node.func
        if isinstance(fn, ast.Name) and fn.id in ("sorted", "list", "tuple", "set") and len(node.args) == 1:
            return _members(node.args[0], defined_now)
        if isinstance(fn, ast.Attribute) and fn.attr == "join" and len(node.args) == 1:
            return _members(node.args[0], defined_now)
        if isinstance(fn, ast.Attribute) and fn.attr == "keys" and not node.args:
            return _members(fn.value, defined_now)
    return None


def _tables(ctx):
    m = ctx.src.module("fasta")
    site = "periodictable/fasta.py code tables"
    aa_codes, avg = set(), []
    # the amino acid table literal: dict(( _("A", ...), ... ))
    aa = ctx.src.binding("fasta", "AMINO_ACID_CODES")
    for node in ast.walk(aa):
        if isinstance(node, ast.Call) and isinstance(node.func, ast.Name) and node.func.id == "_" and node.args \
                and isinstance(node.args[0], ast.Constant):
            aa_codes.add(node.args[0].value)
    literal_shape = bool(aa_codes) and not __import__("os").environ.get("C18_FORCE_BUILT")
    std = set("ACDEFGHIKLMNPQRSTVWY")
    if not literal_shape:
        # the table is not written as literal _("A", ...) entries: its keys are taken from the table the module builds
        # (interpreted with an opaque formula for every formula string; averaged entries are R2's subject), and the member
        # lists of the averaged codes from the calls the module makes to its averaging helper
        _tables_built(ctx, site, std)
        return
    ctx.check(len(aa_codes) >= 20, "R5", "the amino-acid table defines at least the 20 standard residues",
              f"{len(aa_codes)} literal codes found", site, sample=sorted(aa_codes))
    ctx.check(std <= aa_codes, "R5", "all 20 standard one-letter codes are present", f"missing {sorted(std - aa_codes)}", site)
    defined = set(aa_codes)
    order = list(sorted(aa_codes))
    want = {"B": set("DN"), "Z": set("EQ"), "J": set("LI"), "X": std, "-": set()}
    # module-level statements in order: which codes exist when each average is taken
    for st in m.tree.body:
        call = st.value if isinstance(st, ast.Expr) and isinstance(st.value, ast.Call) else None
        if call is None or not (isinstance(call.func, ast.Name) and call.func.id == "_set_amino_acid_average"):
            continue
        if len(call.args) < 2 or not isinstance(call.args[0], ast.Constant):
            raise AnalysisError(f"_set_amino_acid_average call at line {st.lineno} not understood")
        target = call.args[0].value
        codes = _members(call.args[1], sorted(defined))
        if codes is None:
            raise AnalysisError(f"member list of averaged code '{target}' (line {st.lineno}) is not a literal or a view of the table")
        missing = [c for c in codes if c not in defined]
        ctx.check(not missing, "R5", f"averaged code '{target}' is built from codes defined before it",
                  f"'{target}' averages over undefined codes {missing}", f"periodictable/fasta.py:{st.lineno}")
        if target in want:
            ctx.check(set(codes) == want[target] and len(codes) == len(set(codes)), "R5",
                      f"averaged code '{target}' stands for {''.join(sorted(want[target])) or 'nothing'} with equal weight",
                      f"'{target}' averages over '{''.join(codes)}' ({len(codes)} codes) at this point of the module",
                      f"periodictable/fasta.py:{st.lineno}")
        defined.add(target)
    # nucleotide ambiguity codes: _("R", "AG", ...) in the RNA_CODES/DNA_CODES zip
    nuc = ctx.src.binding("fasta", "CODE_TABLES")
    iupac = {"A": "A", "C": "C", "G": "G", "T": "T", "U": "T", "R": "AG", "Y": "CT", "K": "GT", "M": "AC", "S": "CG", "W": "AT",
             "B": "CGT", "D": "AGT", "H": "ACT", "V": "ACG", "N": "ACGT", "X": "", "-": ""}
    found = {}
    for node in ast.walk(m.tree):
        if isinstance(node, ast.Call) and isinstance(node.func, ast.Name) and node.func.id == "_" and len(node.args) == 3 \
                and all(isinstance(a, ast.Constant) and isinstance(a.value, str) for a in node.args):
            code, bases, _name = (a.value for a in node.args)
            if set(bases) <= set("ACGT"):
                found[code] = bases
    for code, bases in sorted(found.items()):
        if code in iupac:
            ctx.check(sorted(bases) == sorted(iupac[code]), "R5", f"nucleotide code '{code}' stands for '{iupac[code]}' (IUPAC)",
                      f"'{code}' averages over '{bases}'", site)
    ctx.floor("R5", 20)


def _tables_built(ctx, site, std):
    w, _seen = setup(ctx)
    I, A = w.I, w.atoms
    fm = I.global_name("formulas", "formula")
    n_ = [0]

    def any_formula(I_, args, kw):
        n_[0] += 1
        return I_.call(fm, [{A["element"]: sp.Symbol(f"g{n_[0]}", positive=True), A["H1"]: sp.Integer(1)}], {})
    I.stubs["formulas.parse_formula"] = any_formula
    m_ = [0]

    def any_sld(I_, args, kw):
        m_[0] += 1
        return tuple(sp.Symbol(f"sld{m_[0]}_{k}", real=True) for k in ("re", "im", "inc"))
    I.stubs["nsf.neutron_sld"] = any_sld
    I.call_log = []
    try:
        aa = I.global_name("fasta", "AMINO_ACID_CODES")
        tabs = I.global_name("fasta", "CODE_TABLES")
    except SymRaise as exc:
        raise AnalysisError(f"the code tables of fasta could not be built in the interpreter: {exc}")
    # the module-level statements that follow the table (they install the averaged codes) are executed on it
    from ptstat.symx import Frame as _Frame
    started, mod_frame = False, _Frame(I, "fasta", "fasta")
    for st in ctx.src.module("fasta").tree.body:
        if isinstance(st, ast.Assign) and any(isinstance(t_, ast.Name) and t_.id == "AMINO_ACID_CODES" for t_ in st.targets):
            started = True
            continue
        if not started:
            continue
        if isinstance(st, ast.Assign):
            break
        if isinstance(st, ast.Expr) and isinstance(st.value, ast.Call) or isinstance(st, (ast.For, ast.Delete)):
            try:
                I.exec_stmt(st, mod_frame, sp.true)
            except SymRaise as exc:
                raise AnalysisError(f"module-level statement at fasta.py:{st.lineno} raises {exc} in the interpreter")
    log, I.call_log = I.call_log, None
    if not isinstance(aa, dict) or not isinstance(tabs, dict):
        raise AnalysisError("fasta.AMINO_ACID_CODES / CODE_TABLES are not dictionaries")
    keys = {k for k in aa if isinstance(k, str)}
    ctx.check(len(keys) >= 20, "R5", "the amino-acid table defines at least the 20 standard residues", f"{len(keys)} codes: {sorted(keys)}", site,
              sample=sorted(keys))
    ctx.check(std <= keys, "R5", "all 20 standard one-letter codes are present", f"missing {sorted(std - keys)}", site)
    for code in ("B", "Z", "J", "X", "-"):
        ctx.check(code in keys, "R5", f"averaged code '{code}' is installed in the amino-acid table", "absent", site)
    # member strings handed to the averaging helper (a two-argument private function of fasta called with a string of codes)
    members = []
    for fn_, args_, kw_ in log:
        q_ = getattr(getattr(fn_, "fn", fn_), "qual", "")
        if q_.startswith("fasta.") and len(args_) >= 2 and isinstance(args_[0], str) and isinstance(args_[1], dict):
            members.append((args_[0], set(k for k in args_[1] if isinstance(k, str))))
    iupac = {"A", "C", "G", "T", "AG", "CT", "GT", "AC", "CG", "AT", "CGT", "AGT", "ACT", "ACG", "ACGT", ""}
    amino = {"DN", "EQ", "IL", "".join(sorted(std)), ""}
    nuc_calls = [(m_, t_) for m_, t_ in members if t_ and t_ <= set("ACGTU")]
    for m_, t_ in nuc_calls:
        ctx.check("".join(sorted(m_)) in iupac and len(set(m_)) == len(m_), "R5", f"nucleotide ambiguity code averaged over '{m_}': an IUPAC member list, each base once",
                  f"'{m_}' is not the member list of an IUPAC code", site)
    for m_, t_ in members:
        if (m_, t_) not in nuc_calls:
            ctx.check("".join(sorted(m_)) in amino and len(set(m_)) == len(m_) and set(m_) <= t_ | set(), "R5",
                      f"amino-acid code averaged over '{m_ if len(m_) < 6 else 'the 20 standard residues'}': the documented members, defined at that point",
                      f"'{m_}' with the table holding {sorted(t_)}", site)
    for typ in ("rna", "dna"):
        tab = tabs.get(typ)
        ctx.check(isinstance(tab, dict) and set("ACG") <= set(tab) and ("T" in tab or "U" in tab), "R5", f"the {typ} table has the four bases", f"{sorted(tab) if isinstance(tab, dict) else tab}", site)
    ctx.check(len(nuc_calls) >= 11, "R5", "the nucleotide ambiguity codes are built by the averaging helper", f"{len(nuc_calls)} averaged nucleotide codes seen", site)
    ctx.floor("R5", 20)
