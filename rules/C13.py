"""C13 - printing a formula and parsing it back gives the same formula."""
from __future__ import annotations

import ast
import re
from fractions import Fraction

import sympy as sp

from ptstat import AnalysisError, relang, peg
from ptstat.symval import SymObj, Phi, SymRaise
from spec import grammar_gen as G
from .common import fsite, raises, folder, _s, public_entry_points
from .C01 import build, ident

EXPLANATION = (
    "Formula.__str__/__repr__, _str_atoms and _str_count are interpreted from the current source and their output "
    "is parsed back with the PEG model of the grammar extracted from formula_grammar (K10), all inside the abstract "
    "interpreter.  Decided: for each atom kind (element, isotope, D and T, ion, ion of an isotope, ion of D/T) and for "
    "seeded formulas produced by parsing, by n*f, f+g and by the mixture constructors, str(f) is accepted by the "
    "grammar and parses to a formula with the same structure (Formula.__eq__); for counts over all decimal "
    "exponents 1e-12 ... 1e24 and a set of mantissas (1 to 7 significant digits, rounding boundaries) the printed "
    "count lies in the count-token language (regular-language membership) and reads back as the count rounded to six "
    "significant digits; a count of 1 is elided exactly where the parser defaults to 1; repr is formula('<str>'); a "
    "named formula prints its name.")

TECHNIQUE = ("static analysis: abstract interpretation of the printer composed with the extracted grammar model (round trip on the "
             "model), regular-language membership of printed tokens")


def run(ctx):
    F = folder(ctx)
    base = F.const("core", "element_base")
    w, gram = build(ctx)
    I = w.I
    fm = I.global_name("formulas", "formula")
    site = fsite(ctx, "formulas._str_atoms", "formulas.Formula.__str__")
    T = w.table
    parse = lambda s: I.call(fm, [s], {"table": T})
    text_of = lambda f: I.call(I.builtins["str"], [f], {})
    eqf = lambda a, b: I.lib.compare(I, ast.Eq(), a, b)
    MUL, ADD = ast.Mult(), ast.Add()

    def roundtrip(rule, label, f, site_=site):
        try:
            s = text_of(f)
        except SymRaise as exc:
            ctx.fail(rule, label, f"str() raises {exc.exc}", site_)
            return None
        if not isinstance(s, str):
            ctx.fail(rule, label, f"str() is not a concrete string: {_s(s)}", site_)
            return None
        try:
            g = parse(s)
        except SymRaise as exc:
            ctx.fail(rule, label, f"str(formula) = {s!r} is rejected by the parser ({exc.exc} {exc.msg})", site_, witness=s)
            return None
        ok = eqf(g, f)
        ctx.check(ok is True, rule, label, f"{s!r} parses to a different formula: {_s(I.heap[g.id]['structure'], 160)} instead of "
                  f"{_s(I.heap[f.id]['structure'], 160)}", site_, witness=s, sample=s)
        return s

    # ---- R1 every atom kind -------------------------------------------------------------------------
    E = w.element
    D, Tt = w.get(T, "D"), w.get(T, "T")
    kinds = {"element": E("Fe"), "isotope": w.isotope("Fe", 56), "D": D, "T": Tt, "H[1]": w.isotope("H", 1), "ion": w.ion(E("Fe"), 3), "negative ion": w.ion(E("O"), -2),
             "singly charged ion": w.ion(E("Na"), 1), "ion of an isotope": w.ion(w.isotope("Fe", 56), 2), "ion of D": w.ion(D, 1), "ion of T": w.ion(Tt, -1),
             "ion of H[1]": w.ion(w.isotope("H", 1), 1),
             # mass numbers 2 and 3 outside hydrogen (only H[2] and H[3] have names of their own)
             "He[3]": w.isotope("He", 3), "ion of He[3]": w.ion(w.isotope("He", 3), 1), "Li[3]": w.isotope("Li", 3), "He[2]": w.isotope("He", 2)}
    for label, atom in kinds.items():
        for cnt, cl in ((sp.Integer(1), "count 1"), (sp.Integer(3), "count 3"), (sp.Rational(5, 2), "count 2.5")):
            f = I.call(fm, [[(cnt, atom), (sp.Integer(2), E("Cl"))]], {})
            roundtrip("R1", f"{label}, {cl}: printed tag sequence parses back to the same atom", f)
    public_entry_points(ctx, "RW", [("formula", "formulas.formula")])
    ctx.floor("R1", 48)

    # ---- R2 count formatting ----------------------------------------------------------------------------
    sc = I.global_name("formulas", "_str_count") if ctx.src.has_func("formulas._str_count") else None
    from .C01 import count_token
    count_node = count_token(peg.Grammar(gram, I).nodes())
    if count_node is None:
        raise AnalysisError("count token not found in the extracted grammar")
    count_rx = "(" + ")|(".join(e.pattern for e in count_node) + ")"
    mantissas = ["1", "2", "9", "1.5", "2.5", "1.25", "1.23456", "1.234567", "9.99999", "9.999995", "9.9999949", "1.000001", "1.0000005", "3.14159265"]
    bad_lang, bad_val, n_counts = [], [], 0
    H = E("H")
    for ex in range(-12, 25):
        for m in mantissas:
            val = float(m) * 10.0 ** ex
            want = float("%g" % val)
            f = I.call(fm, [[(sp.Rational(repr(val)), H)]], {})
            n_counts += 1
            s = text_of(f)
            if val == 1.0:
                continue
            body = s[1:] if isinstance(s, str) and s.startswith("H") else None
            if body is None or not re.fullmatch(count_rx, body):
                bad_lang.append((val, s))
                continue
            try:
                g = parse(s)
            except SymRaise as exc:
                bad_lang.append((val, s))
                continue
            back = list(I.getattr(g, "atoms").values())[0]
            if abs(float(back) - want) > 1e-12 * want:
                bad_val.append((val, s, float(back)))
    s_cnt = fsite(ctx, "formulas._str_count") if sc else site
    ctx.check(not bad_lang, "R2", f"printed counts over 1e-12..1e24 lie in the grammar's count token /{count_rx}/ and are accepted",
              f"{len(bad_lang)} counts print in a form the grammar does not accept, e.g. {bad_lang[:3]}", s_cnt,
              witness=bad_lang[:3], sample={"counts": n_counts})
    ctx.check(not bad_val, "R2", "a printed count reads back as the count rounded to six significant digits",
              f"{len(bad_val)} counts read back differently, e.g. {bad_val[:3]}", s_cnt, witness=bad_val[:3])
    ctx.unit("counts_formatted", n_counts)
    # group counts use the same formatter
    grp = I.call(fm, [[(sp.Rational(repr(2.5e7)), [(sp.Integer(2), H), (sp.Integer(1), E("O"))])]], {})
    roundtrip("R2", "a large group count prints without exponent and parses back", grp)
    grp = I.call(fm, [[(sp.Rational(repr(1.5e-6)), [(sp.Integer(2), H), (sp.Integer(1), E("O"))])]], {})
    roundtrip("R2", "a small group count prints without exponent and parses back", grp)
    ctx.floor("R2", 4)

    # ---- R3 elision, repr, names ------------------------------------------------------------------------------
    f = parse("H2O")
    ctx.check(text_of(f) == "H2O", "R3", "a count of 1 is not printed", f"{text_of(f)!r}", site)
    g = I.call(fm, [[(sp.Integer(1), [(sp.Integer(2), H), (sp.Integer(1), E("O"))]), (sp.Integer(3), [(sp.Integer(1), E("Na")), (sp.Integer(1), E("Cl"))])]], {})
    ctx.check(text_of(g) == "H2O(NaCl)3", "R3", "a group with count 1 prints without parentheses, other groups as (...)n",
              f"{text_of(g)!r}", site)
    r = I.call(I.builtins["repr"], [f], {})
    rp = I.call(I.getattr(f, "__repr__"), [], {})
    ctx.check(rp == "formula('H2O')", "R3", "repr is formula('<str>')", f"{rp!r}", fsite(ctx, "formulas.Formula.__repr__"))
    named = I.call(fm, ["H2O"], {"table": T, "name": "water"})
    ctx.check(text_of(named) == "water" and I.call(I.getattr(named, "__repr__"), [], {}) == "formula('water')", "R3",
              "a named formula prints its name", f"{text_of(named)!r}", fsite(ctx, "formulas.Formula.__str__"))
    quoted = I.call(fm, ["H2O"], {"table": T, "name": "5' cap \\ tail"})
    rq = I.call(I.getattr(quoted, "__repr__"), [], {})
    ctx.check(rq == "formula('5' cap \\ tail')", "R3", "repr is formula('<str>') also when the text holds a quote or a backslash (it is shown, not escaped)",
              f"{rq!r}", fsite(ctx, "formulas.Formula.__repr__"))
    e = I.call(fm, [], {})
    ctx.check(text_of(e) == "" and eqf(parse(""), e) is True, "R3", "the empty formula prints as '' and parses back", f"{text_of(e)!r}", site)
    # printing is recomputed after arithmetic (no stale text)
    wf = parse("H2O")
    text_of(wf)
    w3 = I.lib.binop(I, MUL, sp.Integer(3), wf)
    ctx.check(text_of(w3) == "(H2O)3", "R3", "str(3*f) after str(f) was taken shows the product", f"{text_of(w3)!r}", fsite(ctx, "formulas.Formula.__str__"))
    I.call(I.getattr(wf, "__iadd__"), [parse("NaCl")], {})
    ctx.check(text_of(wf) == "H2ONaCl", "R3", "str(f) after f += g shows the sum", f"{text_of(wf)!r}", fsite(ctx, "formulas.Formula.__str__"))
    ctx.floor("R3", 8)

    # ---- R4 seeded formulas from parsing, arithmetic and mixtures --------------------------------------------------
    gen = G.Gen(ctx.seed + 101, base)
    n = 120 if ctx.thorough else 40
    made = []
    for k in range(n):
        text, atoms, dens = gen.compound(depth=3 if k % 3 == 0 else 2)
        try:
            made.append(("parsed " + repr(text), parse(text)))
        except SymRaise:
            continue
    extra = []
    for i in range(0, min(len(made), 24), 3):
        a, b = made[i][1], made[i + 1][1]
        extra.append((f"sum #{i}", I.lib.binop(I, ADD, a, b)))
        extra.append((f"7 * #{i}", I.lib.binop(I, MUL, sp.Integer(7), a)))
        extra.append((f"2.5 * (#{i} + #{i + 1})", I.lib.binop(I, MUL, sp.Rational(5, 2), I.lib.binop(I, ADD, a, b))))
        extra.append((f"2000000 * #{i}", I.lib.binop(I, MUL, sp.Integer(2000000), a)))
    nfail = 0
    for label, f in made + extra:
        before = len([o for o in ctx.obs if not o.ok])
        roundtrip("R4", f"round trip of {label}"[:150], f)
        nfail += len([o for o in ctx.obs if not o.ok]) - before
        if nfail >= 5:
            break
    # mixtures need concrete masses for their counts to be printable
    for sym_, m_ in (("H", 1), ("O", 16), ("Na", 23), ("Cl", sp.Rational(71, 2))):
        w.set(E(sym_), _mass=sp.Integer(m_) if isinstance(m_, int) else m_)
    w.set(D, _mass=sp.Integer(2))
    for label, args in (("mix_by_weight H2O/NaCl", ("mix_by_weight", ["H2O@1", sp.Integer(3), "NaCl@2", sp.Integer(1)])),
                        ("mix_by_volume D2O/H2O", ("mix_by_volume", ["D2O@1", sp.Integer(1), "H2O@1", sp.Integer(7)]))):
        mf = I.call(I.global_name("formulas", args[0]), list(args[1]), {"table": T})
        s = text_of(mf)
        try:
            g = parse(s)
            at_f, at_g = I.getattr(mf, "atoms"), I.getattr(g, "atoms")
            ok = set(at_f) == set(at_g) and all(abs(float(at_f[a]) - float(at_g[a])) <= 1e-5 * abs(float(at_f[a])) for a in at_f)
            ctx.check(ok, "R4", f"{label}: str parses back with every count equal to six significant digits",
                      f"{s!r}: {_s(at_g)} vs {_s(at_f)}", site, witness=s, sample=s)
        except SymRaise as exc:
            ctx.fail("R4", f"{label}: str parses back", f"{s!r} is rejected ({exc.exc})", site, witness=s)
    # a printed formula is read back as a compound whatever element it starts with - in particular elements whose
    # symbols resemble the unit and percentage words of the mixture syntax (Mg/mg, Cm/cm, V/vol, W/wt, Mo/mass ...)
    lead = [v[1] for z, v in base.items() if z > 0] if ctx.thorough else ["Mg", "Cm", "V", "W", "Mo", "Mn", "Md", "Nb", "N", "U", "K", "Kr", "Li", "Lu"]
    nlead = 0
    for sym_ in lead:
        X = E(sym_)
        if X is E("O"):
            continue
        for second in ("O", "H"):
            f_ = I.call(fm, [[(sp.Integer(1), X), (sp.Integer(2), E(second))]], {"table": T})
            before = len([o for o in ctx.obs if not o.ok])
            roundtrip("R4", f"round trip of {sym_}{second}2 (leading element {sym_})", f_)
            nlead += 1
            if len([o for o in ctx.obs if not o.ok]) - before and nlead > 6:
                break
    # an unnamed mixture of named components prints as a grammar string, not as a component's name
    for mode in ("mix_by_weight", "mix_by_volume"):
        water = I.call(fm, ["H2O@1"], {"table": T, "name": "water"})
        heavy = I.call(fm, ["D2O@1"], {"table": T, "name": "heavy water"})
        mf = I.call(I.global_name("formulas", mode), [water, sp.Integer(2), heavy, sp.Integer(1)], {"table": T})
        ctx.check(I.getattr(mf, "name") is None, "R4", f"{mode} of named components is itself unnamed",
                  f"the mixture is named {_s(I.getattr(mf, 'name'))}", site)
        s = text_of(mf)
        try:
            g = parse(s)
            at_f, at_g = I.getattr(mf, "atoms"), I.getattr(g, "atoms")
            ok = set(at_f) == set(at_g) and all(abs(float(at_f[a]) - float(at_g[a])) <= 1e-5 * abs(float(at_f[a])) for a in at_f)
            ctx.check(ok, "R4", f"{mode} of named components: str parses back with every count equal to six significant digits",
                      f"{s!r}: {_s(at_g)} vs {_s(at_f)}", site, witness=s, sample=s)
        except SymRaise as exc:
            ctx.fail("R4", f"{mode} of named components: str parses back", f"{s!r} is rejected ({exc.exc})", site, witness=s)
    ctx.floor("R4", 60)
    ctx.unit("formulas_round_tripped", len(made) + len(extra))
    ctx.assume("'%g' and '%.*f' formatting are CPython's (library semantics); the PEG model of pyparsing is trusted (see C01)")
