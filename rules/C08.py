"""C08 - atoms are unique per table and every lookup route returns the same object."""
from __future__ import annotations

import ast

import sympy as sp

from ptstat import AnalysisError
from ptstat.symval import SymObj, Phi, SymRaise
from ptstat.world import World
from .common import fsite, raises, folder, _s

EXPLANATION = (
    "core.PeriodicTable, Element, Isotope, Ion, IonSet, change_table, the _make_* restorers and "
    "define_elements are interpreted from the current source on abstract tables built by the package's own "
    "constructors.  Exhaustively over all 119 elements, and over isotopes/ions/isotope ions of a sample of "
    "them, every lookup route (number, symbol, name, 'A-Sym' string, attribute, element[A], .ion[charge], "
    "__reduce__ followed by the restorer, change_table to the same and to another table) is shown to return "
    "the identical abstract object whose number/symbol/name/isotope/charge match the key; every invalid "
    "neighbour key is shown to raise, also when asked twice; iteration is shown to be by increasing key, "
    "once each; two tables in one process are shown not to serve each other's objects.  A package-wide "
    "who-may-construct sweep shows that atoms are only created inside their caches, and the atom classes "
    "define no copy/pickle/equality hooks besides __reduce__.  element_base is linted.")

TECHNIQUE = "static analysis: abstract interpretation of the lookup/caching code over object identities, who-may-construct sweep over the call sites"

ALLOWED = {
    "Element": {"core.PeriodicTable.__init__"},
    "Isotope": {"core.Element.add_isotope"},
    "Ion": {"core.IonSet.__getitem__"},
    "IonSet": {"core.Element.__init__", "core.Isotope.__init__"},
    "PeriodicTable": {"core"},          # module level: the public table
}
HOOKS = {"__copy__", "__deepcopy__", "__getstate__", "__setstate__", "__eq__", "__ne__", "__hash__", "__reduce_ex__", "__getnewargs__"}


def _only_from(ctx, where, allowed, _seen=None):
    """*where* is an allowed construction site, or a helper every call of which comes (transitively) from one:
    splitting the cache's own constructor code into private helpers does not add a second construction site."""
    if where in allowed:
        return True
    _seen = _seen or set()
    if where in _seen:
        return True              # recursion among helpers: decided by the other callers
    cg = ctx.src.callgraph()
    if where not in cg:
        return False
    callers = list(cg.predecessors(where))
    name = where.rsplit(".", 1)[-1]
    if not callers or not name.startswith("_") or name.startswith("__"):
        return False             # a public function can be called by anyone
    # a private helper referred to other than by a call (stored, passed on) could be invoked from anywhere
    return all(_only_from(ctx, c, allowed, _seen | {where}) for c in callers)


def run(ctx):
    F = folder(ctx)
    base = F.const("core", "element_base")
    w = World(ctx.src, loaders=())
    I, T = w.I, w.table
    I.default_open = {}
    call = lambda obj, meth, *a: I.call(I.getattr(obj, meth), list(a), {})
    sub = lambda obj, k: I.lib.subscript(I, obj, sp.Integer(k) if isinstance(k, int) else k)
    heap = lambda o: I.heap[o.id]
    s_pt = "periodictable/core.py PeriodicTable"

    # (the structural part - who may construct atoms, which caches hold them - is evaluated first but an anchor it cannot
    # find does not keep the behavioural rules below from running: what they establish stands, and the analysis error is
    # raised at the end)
    deferred = None
    try:
        # ---- R1 who may construct ---------------------------------------------------------------
        for cls, allowed in ALLOWED.items():
            sites = ctx.src.constructor_calls(cls)
            found = False
            for mod, node in sites:
                where = ctx.src.enclosing_function(mod, node)
                found = True
                ok = _only_from(ctx, where, allowed)
                (ctx.ok if ok else ctx.fail)("R1", f"{cls}(...) at {where}", *([] if ok else [f"{cls} objects may only be created inside their cache "
                                             f"({sorted(allowed)}); a second construction site makes two objects for one atom"]),
                                             **({"site": f"{ctx.src.where(mod, node)} {where}"}))
            if not found:
                raise AnalysisError(f"no construction site of {cls} found")
        # the caches that hold the unique objects: discovered as the attribute in which a construction site stores what it made
        caches = {}
        for cls in ("Element", "Isotope", "Ion"):
            for mod, node in ctx.src.constructor_calls(cls):
                where = ctx.src.enclosing_function(mod, node)
                fdef = ctx.src.funcs.get(where)
                if fdef is None:
                    continue
                made = set()
                alias = {}        # local name -> attribute it was read from (isotopes = self._isotopes)
                for st in ast.walk(fdef.node):
                    if isinstance(st, ast.Assign) and isinstance(st.value, ast.Attribute):
                        for t in st.targets:
                            if isinstance(t, ast.Name):
                                alias[t.id] = st.value.attr
                for st in ast.walk(fdef.node):
                    if isinstance(st, ast.Assign):
                        is_made = st.value is node or (isinstance(st.value, ast.Name) and st.value.id in made)
                        for t in st.targets:
                            if isinstance(t, ast.Name) and st.value is node:
                                made.add(t.id)
                            if is_made and isinstance(t, ast.Subscript) and isinstance(t.value, ast.Attribute):
                                caches.setdefault(t.value.attr, set()).add(where)
                            if is_made and isinstance(t, ast.Subscript) and isinstance(t.value, ast.Name) and t.value.id in alias:
                                caches.setdefault(alias[t.value.id], set()).add(where)
        if len(caches) < 3:
            raise AnalysisError(f"atom caches not recognised (found {sorted(caches)}; expected the element, isotope and ion tables)")
        MUT = {"clear", "pop", "popitem", "update", "setdefault", "__delitem__", "__setitem__"}
        nuse = 0
        for mname, m in ctx.src.modules.items():
            for node in ast.walk(m.tree):
                attr = None
                why = None
                if isinstance(node, ast.Call) and isinstance(node.func, ast.Attribute) and node.func.attr in MUT \
                        and isinstance(node.func.value, ast.Attribute) and node.func.value.attr in caches:
                    attr, why = node.func.value.attr, f".{node.func.attr}()"
                elif isinstance(node, ast.Delete):
                    for t in node.targets:
                        tb = t.value if isinstance(t, ast.Subscript) else t
                        if isinstance(tb, ast.Attribute) and tb.attr in caches:
                            attr, why = tb.attr, "del"
                elif isinstance(node, (ast.Assign, ast.AugAssign)):
                    for t in (node.targets if isinstance(node, ast.Assign) else [node.target]):
                        if isinstance(t, ast.Attribute) and t.attr in caches:
                            attr, why = t.attr, "rebinding"
                        elif isinstance(t, ast.Subscript) and isinstance(t.value, ast.Attribute) and t.value.attr in caches:
                            attr, why = t.value.attr, "item assignment"
                if attr is None:
                    continue
                nuse += 1
                where = ctx.src.enclosing_function(mname, node)
                init_of_owner = where.endswith(".__init__") and why == "rebinding"
                ok = init_of_owner or (why == "item assignment" and _only_from(ctx, where, caches[attr] | {w_ for c in ALLOWED.values() for w_ in c}))
                (ctx.ok if ok else ctx.fail)("R1", f"cache .{attr}: {why} at {where}", *([] if ok else [
                    f"entries of the atom cache .{attr} are removed or replaced outside the code that creates them: "
                    "the atom is then created a second time and objects already handed out (D/T aliases, atoms in formulas, pickles) are no longer the table's"]),
                    **({"site": f"{ctx.src.where(mname, node)} {where}"}))
        ctx.unit("cache_writes", nuse)
        # positive example: the sweep must see a constructor call in a sample module
        pos = ast.parse("def helper(el):\n    return Isotope(el, 3)\n")
        n = sum(1 for nd in ast.walk(pos) if isinstance(nd, ast.Call) and getattr(nd.func, "id", None) == "Isotope")
        ctx.check(n == 1, "R1", "self-check: the sweep recognises a foreign Isotope(...) call", "sweep is blind", "spec")
        for cq in ("core.Element", "core.Isotope", "core.Ion"):
            c = ctx.src.cls(cq)
            defined = {st.name for st in c.body if isinstance(st, ast.FunctionDef)}
            ctx.check(not (defined & HOOKS), "R1", f"{cq.split('.')[1]} defines no copy/pickle/equality hook besides __reduce__",
                      f"defines {sorted(defined & HOOKS)}", ctx.src.where("core", c))
            ctx.check("__reduce__" in defined, "R3", f"{cq.split('.')[1]} pickles by reference (__reduce__)", "no __reduce__", ctx.src.where("core", c))
        ctx.floor("R1", 14)
    except AnalysisError as exc_:
        deferred = exc_

    # ---- R2 all 119 elements through every route -------------------------------------------------
    bad = []
    for z, (name, sym, ions, uions) in base.items():
        e = sub(T, z)
        routes = {"attribute": lambda: I.getattr(T, sym), "symbol()": lambda: call(T, "symbol", sym), "name()": lambda: call(T, "name", name.lower()),
                  "isotope()": lambda: call(T, "isotope", sym)}
        for r, get in routes.items():
            try:
                obj = get()
            except SymRaise as exc_:
                bad.append((z, sym, r, f"raises {exc_.exc}"))     # a key of the table that a route refuses
                continue
            if obj is not e:
                bad.append((z, sym, r))
        h = heap(e)
        if h.get("number") != z or h.get("symbol") != sym or h.get("name") != name.lower() or h.get("ions") != tuple(sorted(ions + uions)):
            bad.append((z, "fields"))
    ctx.check(not bad, "R2", "all 119 elements: number, symbol, name, 'Sym' string and attribute return the same object with matching fields",
              f"{bad[:5]}", s_pt, sample={"elements": len(base)})
    order = [heap(e)["number"] for e in I.lib.iterate(I, T)]
    ctx.check(order == sorted(base), "R5", "iteration visits the elements by increasing Z exactly once", f"{order[:8]}...", fsite(ctx, "core.PeriodicTable.__iter__"))
    # isotopes, D/T, ions
    H, Fe, U = I.getattr(T, "H"), I.getattr(T, "Fe"), I.getattr(T, "U")
    for el, As in ((Fe, (58, 54, 56, 57)), (U, (238, 235)), (H, (1,))):
        for A in As:
            call(el, "add_isotope", sp.Integer(A))
    D, Tt = I.getattr(T, "D"), I.getattr(T, "T")
    ctx.check(sub(H, 2) is D and sub(H, 3) is Tt and call(T, "symbol", "D") is D and call(T, "name", "deuterium") is D
              and call(T, "isotope", "D") is D and call(T, "isotope", "2-H") is D and call(T, "name", "tritium") is Tt
              and call(T, "isotope", "T") is Tt, "R2", "D and T are the isotopes H[2], H[3] through every route", "alias differs",
              s_pt)
    ctx.check(heap(D).get("symbol") == "D" and heap(D).get("isotope") == 2 and I.getattr(D, "number") == 1, "R2", "D has symbol D, A=2, Z=1", "", s_pt)
    fe56 = sub(Fe, 56)
    ctx.check(call(Fe, "add_isotope", sp.Integer(56)) is fe56 and call(T, "isotope", "56-Fe") is fe56, "R2",
              "element[A], add_isotope(A) (again) and isotope('A-Sym') return the same isotope", "differ", fsite(ctx, "core.Element.add_isotope"))
    ctx.check(heap(fe56)["isotope"] == 56 and heap(fe56)["element"] is Fe, "R2", "the isotope carries its A and its element", "", s_pt)
    ctx.check(I.getattr(Fe, "isotopes") == [54, 56, 57, 58] and [heap(i)["isotope"] for i in I.lib.iterate(I, Fe)] == [54, 56, 57, 58], "R5",
              "isotopes are listed and iterated by increasing A exactly once", f"{I.getattr(Fe, 'isotopes')}", fsite(ctx, "core.Element.__iter__"))
    # what .isotopes hands out is the caller's to change: the table's own bookkeeping is not reachable through it
    mine = I.getattr(Fe, "isotopes")
    if isinstance(mine, list):
        mine.reverse()
        del mine[:2]
    ctx.check(I.getattr(Fe, "isotopes") == [54, 56, 57, 58] and [heap(i)["isotope"] for i in I.lib.iterate(I, Fe)] == [54, 56, 57, 58]
              and call(T, "isotope", "58-Fe") is sub(Fe, 58), "R5",
              "reversing and truncating the list returned by .isotopes changes nothing in the table",
              f"isotopes now {I.getattr(Fe, 'isotopes')}, iteration {[heap(i)['isotope'] for i in I.lib.iterate(I, Fe)]}", fsite(ctx, "core.Element.__iter__"))
    # isotopes created after the isotope list was first looked at are reachable through every route
    Og = I.getattr(T, "Og")
    I.getattr(Og, "isotopes"); list(I.lib.iterate(I, Og))
    og294 = call(Og, "add_isotope", sp.Integer(294))
    ctx.check(294 in [int(x) for x in I.getattr(Og, "isotopes")] and [heap(i)["isotope"] for i in I.lib.iterate(I, Og)] == [294]
              and raises(lambda: call(T, "isotope", "294-Og")) is None and call(T, "isotope", "294-Og") is og294 and sub(Og, 294) is og294, "R2",
              "an isotope added after the isotope list was read is listed, iterated and found by 'A-Sym'",
              f"isotopes = {I.getattr(Og, 'isotopes')}; isotope('294-Og') " + str(raises(lambda: call(T, 'isotope', '294-Og')) or "ok"),
              fsite(ctx, "core.Element.add_isotope"))
    ions = heap(Fe)["ions"]
    for atom, label in ((Fe, "element"), (fe56, "isotope"), (D, "D")):
        for ch in (list(ions)[:3] if atom is not D else [1, -1]):
            i1 = sub(I.getattr(atom, "ion"), ch)
            i2 = sub(I.getattr(atom, "ion"), ch)
            ctx.check(i1 is i2 and heap(i1)["charge"] == ch and heap(i1)["element"] is atom, "R2",
                      f".ion[{ch}] of an {label} is one cached object with that charge and parent", "differs", fsite(ctx, "core.IonSet.__getitem__"))
    ctx.check(sub(I.getattr(Fe, "ion"), 2) is not sub(I.getattr(fe56, "ion"), 2), "R2", "ions of an isotope are distinct from ions of its element", "", s_pt)

    # ---- invalid neighbours raise, also the second time -------------------------------------------
    probes = [("symbol('Xx')", lambda: call(T, "symbol", "Xx"), "ValueError"), ("symbol('fe')", lambda: call(T, "symbol", "fe"), "ValueError"),
              ("symbol('symbol')", lambda: call(T, "symbol", "symbol"), "ValueError"), ("symbol('properties')", lambda: call(T, "symbol", "properties"), "ValueError"),
              ("name('nosuch')", lambda: call(T, "name", "nosuch"), "ValueError"), ("name('Iron')", lambda: call(T, "name", "Iron"), "ValueError"),
              ("isotope('56-Xx')", lambda: call(T, "isotope", "56-Xx"), "ValueError"), ("isotope('999-Fe')", lambda: call(T, "isotope", "999-Fe"), "ValueError"),
              ("isotope('a-Fe')", lambda: call(T, "isotope", "a-Fe"), "ValueError"), ("isotope('1-2-3')", lambda: call(T, "isotope", "1-2-3"), "ValueError"),
              ("isotope('4-D')", lambda: call(T, "isotope", "4-D"), "ValueError"), ("isotope('0-Fe')", lambda: call(T, "isotope", "0-Fe"), None),
              *[(f"isotope({k!r})", (lambda k=k: call(T, "isotope", k)), "ValueError")
                for k in ("Fe-56", "56-Fe-2", "Fe{2+}", "H2O", "D2", "56-Fe\n", "56-Fe ", "56Fe", "56-", "-Fe", "", "Fe2", "56-fe", "56--Fe", "56.0-Fe")],
              *[(f"symbol({k!r})", (lambda k=k: call(T, "symbol", k)), "ValueError") for k in ("Fe ", " Fe", "Fe\n", "Fe2", "FE")],
              ("table[200]", lambda: sub(T, 200), "KeyError"), ("table[-1]", lambda: sub(T, -1), "KeyError"), ("table[119]", lambda: sub(T, 119), "KeyError"),
              ("Fe[999]", lambda: sub(Fe, 999), "KeyError"), ("Fe[55]", lambda: sub(Fe, 55), "KeyError"),
              ("Fe.ion[99]", lambda: sub(I.getattr(Fe, "ion"), 99), "ValueError"), ("Fe[56].ion[9]", lambda: sub(I.getattr(fe56, "ion"), 9), "ValueError"),
              ("Ne.ion[1]", lambda: sub(I.getattr(I.getattr(T, "Ne"), "ion"), 1), "ValueError"),
              # keys that are not whole numbers name no atom (nothing is rounded or converted to reach one)
              ("table[0.5]", lambda: sub(T, sp.Rational(1, 2)), "KeyError"), ("table[26.5]", lambda: sub(T, sp.Rational(53, 2)), "KeyError"),
              ("table['26']", lambda: sub(T, "26"), "KeyError"), ("Fe[56.9]", lambda: sub(Fe, sp.Rational(569, 10)), "KeyError"),
              ("Fe['56']", lambda: sub(Fe, "56"), "KeyError"),
              ("Fe.ion[2.5]", lambda: sub(I.getattr(Fe, "ion"), sp.Rational(5, 2)), "ValueError"),
              ("Fe.ion['2']", lambda: sub(I.getattr(Fe, "ion"), "2"), "ValueError")]
    for label, fn, exc in probes:
        if exc is None:
            continue
        for attempt in ("first", "second"):
            r = raises(fn)
            ctx.check(r is not None, "R2", f"{label} raises instead of returning an object ({attempt} request)",
                      f"{label} " + (f"raised {r}" if r else "returned an object") + f" on the {attempt} request", s_pt)

    # ---- R3 pickling restores the same object; R4 change_table -----------------------------------
    # (each atom is restored twice, and the whole series is run in both orders: a restorer that remembers what it handed out
    # under the pickled numbers alone would hand H[1] out for the proton, or the other way round)
    atoms = {"element": Fe, "isotope": fe56, "D": D, "ion of element": sub(I.getattr(Fe, "ion"), 2), "ion of isotope": sub(I.getattr(fe56, "ion"), 3),
             "ion of D": sub(I.getattr(D, "ion"), 1), "neutron": sub(T, 0), "negative ion": sub(I.getattr(Fe, "ion"), -2),
             # atoms whose numbers coincide across kinds: H[1] (Z=1, A=1) and the proton H{+} (Z=1, charge 1); Fe[2]-like clashes
             "H[1]": sub(H, 1), "proton": sub(I.getattr(H, "ion"), 1), "ion of H[1]": sub(I.getattr(sub(H, 1), "ion"), 1)}
    PT = I.get_class("core.PeriodicTable")
    T2 = I.instantiate(PT, ["other"], {}, name="T2", open_attrs=())
    # a later table is built from the same element data as the first (nothing accumulates in the module-level tables)
    bad2 = []
    for z, (name, sym, ions, uions) in base.items():
        h2 = heap(sub(T2, z))
        if h2.get("symbol") != sym or h2.get("name") != name.lower() or h2.get("ions") != tuple(sorted(ions + uions)):
            bad2.append((z, sym, h2.get("ions")))
    ctx.check(not bad2, "R2", "a second table has the same symbols, names and oxidation states as the first",
              f"{bad2[:3]}: the element data changed while the first table was built", s_pt, sample={"elements": len(base)})
    for sym, A in (("Fe", 56), ("H", 1)):
        call(I.getattr(T2, sym), "add_isotope", sp.Integer(A))
    ct = I.global_name("core", "change_table")
    ident = lambda a: (I.getattr(a, "number"), I.getattr(a, "isotope") if I.call(I.global_name("core", "isisotope"), [a], {}) else 0,
                       I.getattr(a, "charge"), I.getattr(a, "table"))
    # a second pass over the atoms in the reverse order (restorers must not depend on what was restored before)
    for label, a in reversed(list(atoms.items())):
        red_ = call(a, "__reduce__")
        if isinstance(red_, tuple) and len(red_) == 2:
            try:
                back_ = I.call(red_[0], list(red_[1]), {})
            except SymRaise as exc:
                back_ = f"raises {exc.exc}"
            ctx.check(back_ is a, "R3", f"{label}: restored after the atoms that follow it in the list were restored: the same object",
                      f"restores {back_!r} ({ident(back_) if isinstance(back_, SymObj) else back_}) instead of {ident(a)}", fsite(ctx, "core._make_isotope_ion"))
    for label, a in atoms.items():
        red = call(a, "__reduce__")
        ok = isinstance(red, tuple) and len(red) == 2
        back = None
        if ok:
            try:
                back = I.call(red[0], list(red[1]), {})
            except SymRaise as exc:
                back = f"raises {exc.exc}"
        ctx.check(back is a, "R3", f"{label}: __reduce__ followed by its restorer returns the same object",
                  f"restores {back!r} with identity {ident(back) if isinstance(back, SymObj) else back} instead of {ident(a)}",
                  fsite(ctx, "core._make_isotope_ion"))
        # copy.copy / copy.deepcopy look the hooks up on the *instance* (getattr(x, '__deepcopy__', None)): a class that
        # forwards missing attributes to another object (Ion and Isotope forward to their element) hands out that object's hook
        from ptstat.symval import _MISSING as _MISS, BoundMethod as _BM
        for hook in ("__copy__", "__deepcopy__"):
            found = None
            cv = a.cls.lookup(hook) if a.cls is not None else _MISS
            if cv is not _MISS:
                found = _BM(cv, a)
            else:
                ga = a.cls.lookup("__getattr__") if a.cls is not None else _MISS
                if ga is not _MISS:
                    try:
                        found = I.call(_BM(ga, a), [hook], {})
                    except SymRaise as exc_:
                        if exc_.exc != "AttributeError":
                            raise
            if found is None:
                ctx.ok("R3", f"{label}: no {hook} hook is found on the atom (copying goes through __reduce__)", site=s_pt)
                continue
            got_ = I.call(found, [] if hook == "__copy__" else [{}], {})
            ctx.check(got_ is a, "R3", f"{label}: copy.{'copy' if hook == '__copy__' else 'deepcopy'} (the {hook} hook found on the instance) returns the atom itself",
                      f"returns {got_!r} with identity {ident(got_) if isinstance(got_, SymObj) else got_} instead of {ident(a)}", s_pt,
                      witness=f"copy.deepcopy of the {label}")
        same = I.call(ct, [a, T], {})
        ctx.check(same is a, "R4", f"{label}: change_table to its own table is the identity", f"{ident(same)} vs {ident(a)}", fsite(ctx, "core.change_table"))
        moved = I.call(ct, [a, T2], {})
        want = ident(a)[:3] + ("other",)
        ctx.check(isinstance(moved, SymObj) and ident(moved) == want and moved is not a, "R4",
                  f"{label}: change_table to another table gives that table's atom with the same Z, A and charge",
                  f"got {ident(moved) if isinstance(moved, SymObj) else moved}, expected {want}", fsite(ctx, "core.change_table"))
        red2 = call(moved, "__reduce__")
        ctx.check(raises(lambda: I.call(red2[0], list(red2[1]), {})) is None and I.call(red2[0], list(red2[1]), {}) is moved, "R3", f"{label}: an atom of a private table is restored into that table",
                  "restored elsewhere", fsite(ctx, "core._get_table"))
    from ptstat.symlib import WeakDict
    reg_ = I.global_name("core", "PRIVATE_TABLES")
    ctx.check(isinstance(reg_, dict) and not isinstance(reg_, WeakDict) and reg_.get("verif") is T, "R3",
              "the table registry used by the restorers keeps every table alive (strong references)",
              "PRIVATE_TABLES holds its tables weakly: a private table whose atoms or formulas are still in use can be collected, after "
              "which pickling/deep-copying those atoms no longer restores them", "periodictable/core.py PRIVATE_TABLES")
    rr = raises(lambda: I.call(I.global_name("core", "_get_table"), ["nosuch"], {}))
    ctx.check(rr == "ValueError", "R3", "restoring into an unknown table raises", f"{rr}", fsite(ctx, "core._get_table"))
    rr = raises(lambda: I.instantiate(PT, ["other"], {}, name="dup"))
    ctx.check(rr == "ValueError", "R1", "a second table of the same name is refused", f"{rr}", fsite(ctx, "core.PeriodicTable.__init__"))

    # ---- two tables never serve each other's objects -----------------------------------------------
    for z, (name, sym, _, _) in list(base.items())[::7]:
        for tab, tname in ((T, "verif"), (T2, "other")):
            for route, obj in (("name()", call(tab, "name", name.lower())), ("symbol()", call(tab, "symbol", sym)), ("[Z]", sub(tab, z))):
                if I.getattr(obj, "table") != tname or obj is not sub(tab, z):
                    ctx.fail("R2", f"table '{tname}' {route} for {sym}", f"serves an object of table '{I.getattr(obj, 'table')}'", s_pt)
    ctx.ok("R2", "with two tables alive, name(), symbol() and [Z] of each table serve its own elements", site=s_pt,
           sample={"elements sampled": len(list(base)[::7])})
    # the string route, asked of both tables in both orders (a lookup remembered by one table must not answer for the other)
    for A_ in (54, 56):
        call(I.getattr(T2, "Fe"), "add_isotope", sp.Integer(A_))
    for text, want in (("56-Fe", lambda tab: sub(I.getattr(tab, "Fe"), 56)), ("Fe", lambda tab: I.getattr(tab, "Fe")),
                       ("D", lambda tab: sub(I.getattr(tab, "H"), 2)), ("2-H", lambda tab: sub(I.getattr(tab, "H"), 2)),
                       ("n", lambda tab: sub(tab, 0)), ("54-Fe", lambda tab: sub(I.getattr(tab, "Fe"), 54))):
        for first, second in (((T, "verif"), (T2, "other")), ((T2, "other"), (T, "verif"))):
            for rep in (1, 2):
                for tab, tname in (first, second):
                    rr = raises(lambda: call(tab, "isotope", text))
                    if rr is not None:
                        ctx.fail("R2", f"table '{tname}' isotope('{text}') with two tables alive", f"raises {rr}", s_pt)
                        continue
                    obj = call(tab, "isotope", text)
                    if not isinstance(obj, SymObj) or I.getattr(obj, "table") != tname or obj is not want(tab):
                        ctx.fail("R2", f"table '{tname}' isotope('{text}') with two tables alive",
                                 f"serves {ident(obj) if isinstance(obj, SymObj) else obj} of table "
                                 f"'{I.getattr(obj, 'table') if isinstance(obj, SymObj) else '?'}' (asked after the other table, request {rep})", s_pt)
    ctx.ok("R2", "with two tables alive, isotope('A-Sym'/'Sym') of each table serves its own atoms, in either order of asking", site=s_pt)
    # define_elements
    ns = {}
    names = I.call(I.global_name("core", "define_elements"), [T, ns], {})
    okd = all(ns.get(v[1]) is sub(T, z) and ns.get(v[0].lower()) is sub(T, z) for z, v in base.items()) and ns.get("D") is D and ns.get("deuterium") is D \
        and ns.get("T") is Tt and set(names) == set(ns)
    ctx.check(okd, "R2", "define_elements exports every symbol and name (and D, T) bound to the table's own objects", "mismatch",
              fsite(ctx, "core.define_elements"), sample={"names": len(ns)})
    ctx.floor("R2", 50); ctx.floor("R3", 50); ctx.floor("R4", 16); ctx.floor("R5", 2)

    # ---- R6 element_base ------------------------------------------------------------------------------
    zs = sorted(base)
    ctx.check(zs == list(range(0, len(zs))), "R6", "element_base has Z = 0 ... 118 without gaps", f"{zs[:5]}", "periodictable/core.py element_base")
    syms = [v[1] for v in base.values()]
    nms = [v[0].lower() for v in base.values()]
    ctx.check(len(set(syms)) == len(syms) and len(set(nms)) == len(nms), "R6", "symbols and names are unique", "duplicates", "periodictable/core.py element_base")
    pt = ctx.src.cls("core.PeriodicTable")
    reserved = {st.name for st in pt.body if isinstance(st, ast.FunctionDef)} | {"properties", "_element", "D", "T"}
    ctx.check(not (set(syms) & reserved), "R6", "no element symbol collides with an attribute or method of PeriodicTable",
              f"{sorted(set(syms) & reserved)}", "periodictable/core.py element_base")
    bad = [v[1] for v in base.values() if any(not isinstance(c, int) or c == 0 for c in v[2] + v[3]) or len(set(v[2] + v[3])) != len(v[2] + v[3])]
    ctx.check(not bad, "R6", "ion charges are distinct non-zero integers", f"{bad}", "periodictable/core.py element_base")
    ctx.extra["exhaustive"] = True
    ctx.unit("elements", len(base))
    if deferred is not None:
        raise deferred

