"""C16 - D2O contrast matching agrees with direct substitution of labile hydrogen."""
from __future__ import annotations

import ast

import sympy as sp

from ptstat import AnalysisError, algebra
from ptstat.symval import SymObj, Phi, SymRaise
from ptstat.world import mass_sym
from .common import eq, fsite, raises, _s, callees_in_common
from .nworld import neutron_world

EXPLANATION = (
    "Value graphs of nsf.mix_values, D2O_sld, D2O_match, _D2O_slds and of fasta.Molecule (H/D forms, "
    "D2Omatch, D2Osld) and fasta.D2Omatch are built from the current source for a generic compound "
    "containing labile hydrogen H[1], ordinary H, D already present and other atoms, with symbolic "
    "counts, density, D2O fraction and volume fraction, and compared as algebraic identities with: "
    "the SLD of the compound in which a fraction d of H[1] is replaced by D and the rest by H at "
    "unchanged cell volume; the solvent mixture at volume fraction 0; linearity in the volume "
    "fraction; the match-point equation; and the agreement of the biomolecule class with the nsf "
    "functions.  The two solvent strings handed to the parser are recorded and checked.  Not "
    "decided: numeric agreement with published match points.")


class UnexpectedParse(AnalysisError):
    """a string other than the two solvent formulas was handed to the formula parser"""


COMPOUND_STRINGS = {}      # string -> [builder(table), tables it was parsed with ...]


def setup(ctx, energy_dependent=()):
    seen = []

    def parsed(I_, args, kw):
        s = args[0]
        seen.append(s)
        tab = kw.get("table") or (args[1] if len(args) > 1 else None) or I_.global_name("core", "PUBLIC_TABLE")
        if isinstance(s, str) and s in COMPOUND_STRINGS:
            COMPOUND_STRINGS[s].append(tab)
            return COMPOUND_STRINGS[s][0](tab)
        fm = I_.global_name("formulas", "formula")
        Hh, Oo, Dd = I_.getattr(tab, "H"), I_.getattr(tab, "O"), I_.getattr(tab, "D")
        import re as _re
        mm = _re.fullmatch(r"(H2O|D2O)@([0-9.]+)(n|i|)", s) if isinstance(s, str) else None
        if mm:
            hyd = Hh if mm.group(1) == "H2O" else Dd
            kw_ = {"natural_density" if mm.group(3) == "n" else "density": sp.Rational(mm.group(2))}
            return I_.call(fm, [{hyd: sp.Integer(2), Oo: sp.Integer(1)}], kw_)
        raise UnexpectedParse(f"unexpected formula string {s!r} reaches the parser in the D2O routines")
    w = neutron_world(ctx, stubs={"formulas.parse_formula": parsed}, energy_dependent=energy_dependent)
    w.I.module_cache[("core", "PUBLIC_TABLE")] = w.table
    # the elements of the abstract table that the routines look up by name
    assert w.element("O") is w.atoms["element2"]
    return w, seen


def d2o_helper(ctx):
    """the private function shared by D2O_match and D2O_sld that computes the four component SLDs - found by its role: a
    private module-level function that both public functions reach (directly or through a small class) and that itself
    reaches the SLD calculator; the top-most one if several qualify"""
    import networkx as nx
    cg = ctx.src.callgraph()
    a, b = (ctx.src.func(q_).qual for q_ in ("nsf.D2O_match", "nsf.D2O_sld"))
    calc = {ctx.src.func(q_).qual for q_ in ("nsf.neutron_sld", "nsf.neutron_scattering")}
    common = (set(nx.descendants(cg, a)) if a in cg else set()) & (set(nx.descendants(cg, b)) if b in cg else set())
    c = sorted(q_ for q_ in common if q_.count(".") == 1 and q_.rsplit(".", 1)[-1].startswith("_") and q_ not in calc
               and calc & set(nx.descendants(cg, q_)))
    top = [q_ for q_ in c if not any(o_ != q_ and q_ in nx.descendants(cg, o_) for o_ in c)]
    if len(top) != 1:
        raise AnalysisError(f"expected one helper shared by D2O_match and D2O_sld, found {top or c}")
    return top[0]


def run(ctx):
    w, seen = setup(ctx)
    DH = d2o_helper(ctx)
    I, A = w.I, w.atoms
    fm = I.global_name("formulas", "formula")
    nsld = I.global_name("nsf", "neutron_sld")
    H1, H, D, O, Fe = A["H1"], A["H"], A["DT"], A["element2"], A["element"]
    q = sp.symbols("q1:6", positive=True)
    rho, d, vf, lam = sp.symbols("rho frac_d frac_vf lam", positive=True)
    comp = {H1: q[0], H: q[1], D: q[2], O: q[3]}
    mol = I.call(fm, [dict(comp)], {"density": rho})
    kw = {"table": w.table, "wavelength": lam}
    M0 = I.getattr(mol, "mass")

    # R1 mix_values
    mv = I.global_name("nsf", "mix_values")
    x1, x2, y1, y2, t = sp.symbols("x1 x2 y1 y2 t", real=True)
    r = I.call(mv, [(x1, x2), (y1, y2), t], {})
    site = fsite(ctx, "nsf.mix_values")
    ctx.check(isinstance(r, tuple) and len(r) == 2, "R1", "mix_values mixes component-wise", f"returned {_s(r)}", site)
    eq(ctx, "R1", "mix_values(a, b, f)[0] = a0*f + b0*(1-f)", r[0], x1 * t + y1 * (1 - t), site)
    eq(ctx, "R1", "mix_values(a, b, f)[1] = a1*f + b1*(1-f)", r[1], x2 * t + y2 * (1 - t), site)

    from ptstat.symval import Vec
    ts = sp.symbols("t1:4", real=True)
    x3, y3 = sp.Symbol("x3", real=True), sp.Symbol("y3", real=True)
    rv = I.call(mv, [(x1, x2, x3), (y1, y2, y3), Vec(ts)], {})
    okv = isinstance(rv, tuple) and len(rv) == 3 and all(isinstance(c_, Vec) and len(c_) == 3 for c_ in rv)
    ctx.check(okv, "R1", "mix_values with a vector of fractions: every component is mixed at every fraction", f"returned {_s(rv)}", site)
    if okv:
        for i_, (a_, b_) in enumerate(((x1, y1), (x2, y2), (x3, y3))):
            for j_, t_ in enumerate(ts):
                eq(ctx, "R1", f"mix_values(a, b, [t1, t2, t3])[{i_}][{j_}] = a{i_}*t{j_ + 1} + b{i_}*(1 - t{j_ + 1})", rv[i_].items[j_], a_ * t_ + b_ * (1 - t_), site)
    # the four reference SLDs, computed directly
    def direct(atoms, density):
        return I.call(nsld, [dict(atoms)], {"density": density, "wavelength": lam})
    water = lambda hyd, mh: direct({hyd: sp.Integer(2), O: sp.Integer(1)},
                                   sp.Rational("0.9982") * (2 * mh + mass_sym("O")) / (2 * mass_sym("H") + mass_sym("O")))
    H2O, D2O = water(H, mass_sym("H")), water(D, mass_sym("D"))

    def substituted(frac):
        """compound with a fraction frac of H[1] replaced by D, the rest by H, cell volume kept"""
        atoms = {H: q[1] + q[0] * (1 - frac), D: q[2] + q[0] * frac, O: q[3]}
        mass = M0 + q[0] * (frac * (mass_sym("D") - mass_sym("H1")) + (1 - frac) * (mass_sym("H") - mass_sym("H1")))
        return direct(atoms, rho * mass / M0)

    s_sld = fsite(ctx, "nsf.D2O_sld")
    dsld = I.global_name("nsf", "D2O_sld")
    got = I.call(dsld, [mol], dict(kw, volume_fraction=sp.Integer(1), D2O_fraction=d))
    want = substituted(d)
    for i, nm in enumerate(("real", "imaginary")):
        eq(ctx, "R2", f"{nm} SLD at D2O fraction d = SLD of the compound with a fraction d of H[1] -> D, rest -> H (same cell volume)",
           got[i], want[i], s_sld)
    # the density may also come as a keyword (density= / natural_density=) with a compound that carries none
    got_kw = I.call(dsld, [dict(comp)], dict(kw, density=rho, volume_fraction=sp.Integer(1), D2O_fraction=d))
    for i, nm in enumerate(("real", "imaginary")):
        eq(ctx, "R2", f"{nm} SLD with density= as a keyword = SLD of the same compound carrying that density", got_kw[i], got[i], s_sld)
    ratio_nat = I.getattr(mol, "natural_mass_ratio") if False else None
    molnd = I.call(fm, [dict(comp)], {"natural_density": rho})
    got_nd_obj = I.call(dsld, [molnd], dict(kw, volume_fraction=sp.Integer(1), D2O_fraction=d))
    got_nd_kw = I.call(dsld, [dict(comp)], dict(kw, natural_density=rho, volume_fraction=sp.Integer(1), D2O_fraction=d))
    eq(ctx, "R2", "real SLD with natural_density= as a keyword = SLD of the same compound carrying that natural density",
       got_nd_kw[0], got_nd_obj[0], s_sld)
    got0 = I.call(dsld, [mol], dict(kw, volume_fraction=sp.Integer(0), D2O_fraction=d))
    for i, nm in enumerate(("real", "imaginary", "incoherent")):
        eq(ctx, "R1", f"{nm} SLD at volume fraction 0 = H2O/D2O solvent mixture", got0[i], d * D2O[i] + (1 - d) * H2O[i], s_sld)
    gotv = I.call(dsld, [mol], dict(kw, volume_fraction=vf, D2O_fraction=d))
    for i, nm in enumerate(("real", "imaginary")):
        eq(ctx, "R1", f"{nm} SLD is linear in the volume fraction between solvent and solute",
           gotv[i], vf * got[i] + (1 - vf) * got0[i], s_sld)
    gdef = I.call(dsld, [mol], dict(kw))
    eq(ctx, "R1", "defaults are volume_fraction=1, D2O_fraction=0", gdef[0], substituted(sp.Integer(0))[0], s_sld)
    # compound without labile hydrogen, and with deuterium only
    mol2 = I.call(fm, [{D: q[2], O: q[3]}], {"density": rho})
    g2 = I.call(dsld, [mol2], dict(kw, D2O_fraction=d))
    eq(ctx, "R2", "a compound without labile hydrogen does not change with the D2O fraction", g2[0],
       direct({D: q[2], O: q[3]}, rho)[0], s_sld)

    # the same formula evaluated twice at different densities: no state may leak between calls
    r1, r2 = sp.symbols("rho1 rho2", positive=True)
    ints = {H1: sp.Integer(2), O: sp.Integer(1)}
    first = I.call(dsld, [I.call(fm, [dict(ints)], {"density": r1})], dict(kw, D2O_fraction=d))
    second = I.call(dsld, [I.call(fm, [dict(ints)], {"density": r2})], dict(kw, D2O_fraction=d))
    eq(ctx, "R2", "a second evaluation of the same formula at another density does not depend on the first",
       second[0], sp.sympify(first[0]).subs(r1, r2), s_sld)
    # nothing is remembered between calls: a call with an explicit wavelength leaves the next default call unchanged
    # (decided with an energy-dependent isotope in the compound, where the SLD really depends on the wavelength)
    w3, _ = setup(ctx, energy_dependent=("isotope",))
    I3 = w3.I
    A3 = w3.atoms
    mol3 = I3.call(I3.global_name("formulas", "formula"), [{A3["H1"]: q[0], A3["isotope"]: q[2], A3["element2"]: q[3]}], {"density": rho})
    dsld3 = I3.global_name("nsf", "D2O_sld")
    lamA = sp.Symbol("lamA", positive=True)
    r0 = I3.call(dsld3, [mol3], {"table": w3.table, "D2O_fraction": d})
    r1 = I3.call(dsld3, [mol3], {"table": w3.table, "D2O_fraction": d, "wavelength": lamA})
    r2 = I3.call(dsld3, [mol3], {"table": w3.table, "D2O_fraction": d})
    ctx.check(sp.sympify(r1[0]).has(lamA), "R2", "with an energy-dependent isotope the SLD depends on the wavelength given",
              f"{_s(r1[0], 200)} does not mention the wavelength", s_sld)
    for i, nm in enumerate(("real", "imaginary")):
        eq(ctx, "R2", f"{nm} SLD at the default wavelength is the same before and after a call with wavelength=", r2[i], r0[i], s_sld)
    # match point: decided over opaque component SLDs (the four SLDs themselves are checked above)
    s_m = fsite(ctx, "nsf.D2O_match")
    w2, _ = setup(ctx)
    I2 = w2.I
    Hw, Dw, Hs, Ds = (tuple(sp.symbols(f"{n}_re {n}_im {n}_inc", real=True)) for n in ("H2O", "D2O", "Hform", "Dform"))
    # the stand-in has the shape of what the helper really returns: the helper is evaluated once, the four component SLDs are
    # located in its result by their values (not by position or field name) and replaced by opaque ones
    from ptstat import algebra as _alg_
    from ptstat.symlib import NTuple as _NT
    # (the helper's own signature is its business: its real result is observed during a public call)
    _orig = I.global_name(*DH.split(".", 1))
    _seen = []

    def _spy(I_, a_, k_):
        r_ = I_.call_closure(_orig, list(a_), dict(k_))
        _seen.append(r_)
        return r_
    I.stubs[DH] = _spy
    try:
        I.call(dsld, [mol], dict(kw, volume_fraction=sp.Integer(1), D2O_fraction=d))
    finally:
        del I.stubs[DH]
    if not _seen:
        raise AnalysisError(f"{DH} is not reached from D2O_sld")
    real = _seen[0]
    refs = {"H2O": H2O, "D2O": D2O, "Hform": substituted(sp.Integer(0)), "Dform": substituted(sp.Integer(1))}
    found = {}

    def same(v, ref):
        try:
            return _alg_.equal(v[0], ref[0], seed=ctx.seed, points=4)[0]
        except (AnalysisError, TypeError, IndexError):
            return False

    def is_sld(v):
        return isinstance(v, (tuple, list)) and len(v) == 3 and all(is_num(x) for x in v)

    def is_num(x):
        try:
            sp.sympify(x)
            return not isinstance(x, (tuple, list, dict, str))
        except (sp.SympifyError, TypeError):
            return False

    def shaped(v, sub):
        if is_sld(v):
            for role, ref in refs.items():
                if role not in found.get(id(sub), {}) and same(v, ref):
                    found.setdefault(id(sub), {})[role] = True
                    return sub[role]
            return v
        if isinstance(v, _NT):
            t = _NT([shaped(x, sub) for x in v])
            t._fields, t._tname = v._fields, v._tname
            if getattr(v, "_cls", None) is not None:
                t._cls = v._cls
            return t
        if isinstance(v, tuple):
            return tuple(shaped(x, sub) for x in v)
        if isinstance(v, list):
            return [shaped(x, sub) for x in v]
        if isinstance(v, dict):
            return {k_: shaped(x, sub) for k_, x in v.items()}
        return v

    def stand_in(sub):
        r_ = shaped(real, sub)
        if len(found.get(id(sub), {})) != 4:
            raise AnalysisError(f"the result of {DH} does not hold the four component SLDs (H2O, D2O, solute with H, solute with D): "
                                f"found {sorted(found.get(id(sub), {}))}")
        return r_
    opaque = {"H2O": Hw, "D2O": Dw, "Hform": Hs, "Dform": Ds}
    opaque_result = stand_in(opaque)
    I2.stubs[DH] = lambda I_, a, k: opaque_result
    match, msld = I2.call(I2.global_name("nsf", "D2O_match"), [None], {})
    solute = lambda x: x * Ds[0] + (1 - x) * Hs[0]
    solvent = lambda x: x * Dw[0] + (1 - x) * Hw[0]
    eq(ctx, "R1", "at the match point the solute SLD equals the solvent SLD", solute(match), solvent(match), s_m)
    eq(ctx, "R1", "D2O_match returns the SLD at the match point", msld, solute(match), s_m)
    va, vb = sp.symbols("va vb", positive=True)
    dsld2 = I2.global_name("nsf", "D2O_sld")
    ga = I2.call(dsld2, [None], dict(volume_fraction=va, D2O_fraction=match))
    gb = I2.call(dsld2, [None], dict(volume_fraction=vb, D2O_fraction=match))
    eq(ctx, "R1", "at the match point the solution SLD is the same for every volume fraction", ga[0], gb[0], s_m)
    gg = I2.call(dsld2, [None], dict(volume_fraction=vf, D2O_fraction=d))
    for i in range(3):
        eq(ctx, "R1", f"D2O_sld component {i} = mix(mix(D, H, d), mix(D2O, H2O, d), vf)", gg[i],
           vf * (d * Ds[i] + (1 - d) * Hs[i]) + (1 - vf) * (d * Dw[i] + (1 - d) * Hw[i]), s_sld)
    # fasta.D2Omatch is the same equation, as a percentage
    Hx, Dx = sp.symbols("Hx Dx", real=True)
    fm_ = I.call(I.global_name("fasta", "D2Omatch"), [Hx, Dx], {})
    fasta_result = stand_in({"H2O": (I.global_name("fasta", "H2O_SLD"), 0, 0), "D2O": (I.global_name("fasta", "D2O_SLD"), 0, 0),
                             "Hform": (Hx, 0, 0), "Dform": (Dx, 0, 0)})
    I2.stubs[DH] = lambda I_, a, k: fasta_result
    nm, _ = I2.call(I2.global_name("nsf", "D2O_match"), [None], {})
    eq(ctx, "R1", "fasta.D2Omatch(Hsld, Dsld) = 100 * the nsf match equation with the 20 C water SLDs", fm_, 100 * nm,
       fsite(ctx, "fasta.D2Omatch"))
    ctx.floor("R1", 26)
    ctx.floor("R2", 10)

    # R3 roles and solvents
    ctx.check(set(seen) == {"H2O@0.9982n", "D2O@0.9982n"}, "R3",
              "the solvents are H2O and D2O at the same natural density 0.9982 (20 C)",
              f"strings handed to the parser: {sorted(set(seen))}", fsite(ctx, DH), sample=sorted(set(seen)))
    # a compound given as a string together with table=T is parsed with T (not with the default table)
    other = I.new_obj("other_public_table", None, {}, open_attrs=set())
    COMPOUND_STRINGS.clear()
    COMPOUND_STRINGS["<compound>"] = [lambda tab: I.call(fm, [dict(comp)], {"density": rho})]
    saved = I.module_cache[("core", "PUBLIC_TABLE")]
    I.module_cache[("core", "PUBLIC_TABLE")] = other
    try:
        gs = I.call(dsld, ["<compound>"], dict(kw, volume_fraction=sp.Integer(1), D2O_fraction=d))
    finally:
        I.module_cache[("core", "PUBLIC_TABLE")] = saved
    tabs = COMPOUND_STRINGS["<compound>"][1:]
    COMPOUND_STRINGS.clear()
    seen[:] = [x for x in seen if x != "<compound>"]
    ctx.check(bool(tabs) and all(tb is w.table for tb in tabs), "R3", "a compound string given with table=T is parsed with T",
              f"parsed with {[getattr(tb, 'name', tb) for tb in tabs]}", fsite(ctx, DH))
    eq(ctx, "R3", "D2O_sld('<string>', table=T) = D2O_sld(formula, table=T)", gs[0], got[0], s_sld)
    # (private table: that H[1], H and D are taken from the table given with the compound is decided by the call above - the
    # standing public table there has no atoms at all, so a lookup in it cannot give the value compared)
    # the same formula object asked again after its density was corrected: the answer follows the object as it is now
    mol_seq = I.call(fm, [dict(comp)], {"density": rho})
    I.call(dsld, [mol_seq], dict(kw, volume_fraction=vf, D2O_fraction=d))
    rho_b = sp.Symbol("rho_corrected", positive=True)
    I.setattr(mol_seq, "density", rho_b)
    again = I.call(dsld, [mol_seq], dict(kw, volume_fraction=vf, D2O_fraction=d))
    fresh = I.call(dsld, [I.call(fm, [dict(comp)], {"density": rho_b})], dict(kw, volume_fraction=vf, D2O_fraction=d))
    for i, nm in enumerate(("real", "imaginary")):
        eq(ctx, "R3", f"{nm} SLD of the same formula object asked again after its density was corrected", again[i], fresh[i], s_sld)

    # biomolecule class
    Mol = I.get_class("fasta.Molecule")
    s_mol = fsite(ctx, "fasta.Molecule.__init__")
    V = sp.Symbol("V", positive=True)
    NA = sp.Symbol("N_A", positive=True)
    f0 = I.call(fm, [dict(comp)], {})
    m = I.instantiate(Mol, ["x", f0], {"cell_volume": V}, name="molecule", open_attrs=())
    lab = I.getattr(m, "labile_formula")
    # a parsed formula handed to Molecule stays the caller's: the molecule works on a formula of its own
    fmine = I.call(fm, [dict(comp)], {"density": rho})
    m_mine = I.instantiate(Mol, ["mine", fmine], {"cell_volume": V}, name="molecule_of_mine", open_attrs=())
    ctx.check(I.getattr(m_mine, "labile_formula") is not fmine, "R4", "Molecule(name, Formula) keeps a formula of its own, not the caller's object",
              "labile_formula is the very object the caller passed in", s_mol)
    eq(ctx, "R4", "Molecule(name, Formula, cell_volume=V) leaves the density of the caller's formula as it was", I.getattr(fmine, "density"), rho, s_mol)
    eq(ctx, "R4", "Molecule density = mass / cell volume", I.getattr(lab, "density"), sp.Integer(10) ** 24 * M0 / NA / V, s_mol)
    lam0 = I.global_name("nsf", "ABSORPTION_WAVELENGTH")
    kw0 = {"table": w.table}
    ref_match, _ = I.call(I.global_name("nsf", "D2O_match"), [lab], dict(kw0))
    eq(ctx, "R4", "Molecule.D2Omatch = 100 * nsf.D2O_match (same molecule)", I.getattr(m, "D2Omatch"), 100 * ref_match, s_mol)
    ref = I.call(dsld, [lab], dict(kw0, volume_fraction=vf, D2O_fraction=d))
    eq(ctx, "R4", "Molecule.D2Osld(vf, d) = nsf.D2O_sld(...)[0]",
       I.call(I.getattr(m, "D2Osld"), [], {"volume_fraction": vf, "D2O_fraction": d}), ref[0], fsite(ctx, "fasta.Molecule.D2Osld"))
    # the class's match point is a match point of the class's own SLD (it may lie outside [0, 1])
    va_, vb_ = sp.symbols("va vb", positive=True)
    mp = I.getattr(m, "D2Omatch") / 100
    eq(ctx, "R4", "Molecule.D2Osld at Molecule.D2Omatch is the same for every volume fraction",
       I.call(I.getattr(m, "D2Osld"), [], {"volume_fraction": va_, "D2O_fraction": mp}),
       I.call(I.getattr(m, "D2Osld"), [], {"volume_fraction": vb_, "D2O_fraction": mp}), fsite(ctx, "fasta.Molecule.D2Osld"))
    hs = I.call(nsld, [I.call(I.getattr(lab, "replace"), [H1, H], {})], {})
    ds = I.call(nsld, [I.call(I.getattr(lab, "replace"), [H1, D], {})], {})
    eq(ctx, "R4", "Molecule.sld is the SLD of the H form", I.getattr(m, "sld"), hs[0], s_mol)
    eq(ctx, "R4", "Molecule.Dsld is the SLD of the D form", I.getattr(m, "Dsld"), ds[0], s_mol)
    eq(ctx, "R4", "Molecule.mass / Dmass are the masses of the H / D forms", I.getattr(m, "Dmass") - I.getattr(m, "mass"),
       q[0] * (mass_sym("D") - mass_sym("H")), s_mol)
    # density given instead of cell volume: it is the natural density (documented)
    m2 = I.instantiate(Mol, ["y", I.call(fm, [dict(comp)], {})], {"density": rho}, name="molecule2", open_attrs=())
    lab2 = I.getattr(m2, "labile_formula")
    eq(ctx, "R4", "Molecule(density=) is the natural density of the labile formula", I.getattr(lab2, "natural_density"), rho, s_mol)
    eq(ctx, "R4", "Molecule(density=): cell volume = mass / density", I.getattr(m2, "cell_volume"),
       sp.Integer(10) ** 24 * M0 / NA / I.getattr(lab2, "density"), s_mol)
    # the tables repeat formula strings with different volumes (Glc / Gal / Man, adenosine in both base tables): each molecule
    # built from the same string keeps its own formula object and its own density
    COMPOUND_STRINGS["C6H12O6<probe>"] = [lambda tab: I.call(fm, [dict(comp)], {})]
    try:
        V1, V2 = sp.symbols("V1 V2", positive=True)
        mA = I.instantiate(Mol, ["glc", "C6H12O6<probe>"], {"cell_volume": V1}, name="moleculeA", open_attrs=())
        sldA = I.getattr(mA, "sld")
        mB = I.instantiate(Mol, ["gal", "C6H12O6<probe>"], {"cell_volume": V2}, name="moleculeB", open_attrs=())
        labA, labB = I.getattr(mA, "labile_formula"), I.getattr(mB, "labile_formula")
        ctx.check(labA is not labB, "R4", "two molecules built from the same formula string have formula objects of their own",
                  "both hold the same Formula object (its density is the one assigned last)", s_mol)
        eq(ctx, "R4", "first molecule of a repeated formula string: density = mass / its own cell volume, also after the second was built",
           I.getattr(labA, "density"), sp.Integer(10) ** 24 * M0 / NA / V1, s_mol)
        eq(ctx, "R4", "second molecule of a repeated formula string: density = mass / its own cell volume",
           I.getattr(labB, "density"), sp.Integer(10) ** 24 * M0 / NA / V2, s_mol)
        refA = I.call(nsld, [I.call(I.getattr(labA, "replace"), [H1, H], {})], {})
        eq(ctx, "R4", "first molecule of a repeated formula string: .sld is still the SLD nsf gives for its formula", sldA, refA[0], s_mol)
    finally:
        COMPOUND_STRINGS.pop("C6H12O6<probe>", None)
    ctx.floor("R4", 15)
    ctx.unit("functions_inlined", len(set(I.calls)))
    ctx.assume("the parser turns 'H2O@0.9982n' / 'D2O@0.9982n' into H2O / D2O at natural density 0.9982 (C01, C12-R2)")
