"""C03 - neutron SLD, cross sections and penetration follow the documented equations."""
from __future__ import annotations

import ast

import sympy as sp

from ptstat.world import mass_sym

from ptstat import AnalysisError
from ptstat.symval import SymObj, Phi, SymRaise, Vec
from ptstat.symlib import interp_f, vec_f
from spec import neutron as spec
from .common import eq, fsite, folder, _s, constants_lint, raises, table_data, public_entry_points
from .nworld import neutron_world

EXPLANATION = (
    "The value graph of neutron_scattering -> _calculate_scattering (found through the call graph), "
    "of Neutron.scattering_by_wavelength, Neutron.scattering and energy_dependent_init is built from "
    "the current source over a generic three-atom compound whose atoms are an element, an ion of an "
    "isotope and an energy-dependent isotope, and each of the seven outputs is compared as an "
    "algebraic identity with the equations of the neutron_scattering docstring transcribed in "
    "spec/neutron.py.  The interpolation call is kept as an uninterpreted application whose "
    "arguments (axis, table columns, absence of left/right) are checked.  The embedded tables are "
    "linted exhaustively for the sign facts the identities use.  Not decided: numerical accuracy of "
    "interpolation between nodes, agreement with other calculators.")


def _tables(ctx):
    F = folder(ctx)
    rows = [l.split(",") for l in F.const("nsf", "nsftable").split("\n")]
    ed = table_data(ctx, "nsf_tables", "ENERGY_DEPENDENT_TABLES")
    return rows, ed


def _run(ctx):
    from .common import array_hazard_sweep
    array_hazard_sweep(ctx, "R3", ("nsf",), "results then depend on what the caller does with its array between calls")
    lam = sp.Symbol("lam", positive=True)
    rho = sp.Symbol("rho", positive=True)
    w = neutron_world(ctx, energy_dependent=("H1",))
    I, A = w.I, w.atoms
    ns = I.global_name("nsf", "neutron_scattering")
    q = sp.symbols("q1:4", positive=True)
    comp = {A["element"]: q[0], A["ion_isotope"]: q[1], A["element2"]: q[2]}
    me = sp.Symbol("m_e", positive=True)
    m = [mass_sym("Fe"), mass_sym("Fe56") - 3 * me, mass_sym("O")]
    b = [sp.Symbol(f"br_{t}", real=True) - sp.I * sp.Symbol(f"bi_{t}", nonnegative=True)
         for t in ("element", "isotope", "element2")]
    s = [sp.Symbol(f"s_{t}", positive=True) for t in ("element", "isotope", "element2")]
    site = fsite(ctx, "nsf.neutron_scattering")
    from .nworld import kernel
    cs = fsite(ctx, kernel(ctx))
    ctx.ok("R2", "scattering kernel reachable from neutron_scattering", site=cs, sample=kernel(ctx))

    # R1/R2 full chain, density given
    try:
        got = spec.unpack(I.call(ns, [dict(comp)], {"density": rho, "wavelength": lam}))
    except spec.ConditionalResult as cr:
        ctx.fail("R2", "neutron_scattering returns the three SLDs, three cross sections and the penetration depth for every compound with neutron data",
                 f"the shape of the result depends on the data: {str(cr)[:300]} (an atom with b_c = 0, such as natural Sm, "
                 "or zero number density is not 'missing')", site)
        return
    want = spec.compound(q, m, b, s, rho, lam)
    M = sum(a * c for a, c in zip(q, m))
    nz = [rho * M]      # the documented equations divide by the molar mass and the density
    # the guarded case: nothing to scatter from
    vac = I.call(ns, [dict(comp)], {"density": sp.Integer(0), "wavelength": lam})
    ctx.check(vac == ((0, 0, 0), (0, 0, 0), sp.oo), "R2", "zero density gives a vacuum: zero SLD and cross sections, infinite penetration",
              f"returned {_s(vac)}", site)
    for k in spec.OUTPUTS:
        eq(ctx, "R2", f"{k} = documented equation [density=, wavelength=]", got[k], want[k], cs, nonzero=nz)
    # R1: the sums themselves (molar mass, number density) through natural_density=
    nd = sp.Symbol("rho_nat", positive=True)
    got_n = spec.unpack(I.call(ns, [dict(comp)], {"natural_density": nd, "wavelength": lam}))
    m_nat = [m[0], mass_sym("Fe") - 3 * me, m[2]]
    ratio = sum(a * c for a, c in zip(q, m_nat)) / sum(a * c for a, c in zip(q, m))
    want_n = spec.compound(q, m, b, s, nd / ratio, lam)
    for k in ("sld_re", "abs_xs", "penetration"):
        eq(ctx, "R1", f"{k} with natural_density= uses density = natural_density / natural mass ratio",
           got_n[k], want_n[k], site, nonzero=[nd * M, nd * sum(a * c for a, c in zip(q, m_nat))])
    # the same material given as a pre-built Formula that carries its own density
    fm = I.global_name("formulas", "formula")
    rho0 = sp.Symbol("rho0", positive=True)
    F = I.call(fm, [dict(comp)], {"density": rho0})
    for label, kw, wantd, nzd in (
            ("Formula with its own density, natural_density= given", {"natural_density": nd}, want_n, [nd * M]),
            ("Formula with its own density, density= given", {"density": rho}, want, nz),
            ("Formula with its own density, no density keyword", {}, spec.compound(q, m, b, s, rho0, lam), [rho0 * M])):
        gF = spec.unpack(I.call(ns, [F], dict(kw, wavelength=lam)))
        for k in ("sld_re", "penetration"):
            eq(ctx, "R1", f"{k}: {label}", gF[k], wantd[k], site,
               nonzero=nzd + [sum(a * c for a, c in zip(q, m_nat))])
    # default wavelength
    got_d = spec.unpack(I.call(ns, [dict(comp)], {"density": rho}))
    lam0 = I.global_name("nsf", "ABSORPTION_WAVELENGTH")
    eq(ctx, "R1", "default wavelength is ABSORPTION_WAVELENGTH = 1.798", got_d["abs_xs"],
       spec.compound(q, m, b, s, rho, sp.Rational("1.798"))["abs_xs"], site, nonzero=nz)
    ctx.floor("R2", 8)
    ctx.floor("R1", 10)

    # R3 scattering_by_wavelength, both branches
    sbw = fsite(ctx, "nsf.Neutron.scattering_by_wavelength")
    nFe = I.getattr(A["element"], "neutron")
    bc, tot = I.call(I.getattr(nFe, "scattering_by_wavelength"), [lam], {})
    eq(ctx, "R3", "constant branch returns b_c_complex", bc, b[0], sbw)
    eq(ctx, "R3", "constant branch returns the tabulated total cross section", tot, s[0], sbw)
    nH1 = I.getattr(A["H1"], "neutron")
    # the table branch at concrete wavelengths first (below the table, at its nodes, between them, above it): linear between
    # the nodes, the end-point values outside - whatever routine does the lookup
    from .nworld import ed_rows as _edr
    _EF = I.global_name("nsf", "ENERGY_FACTOR")
    _rows = list(reversed(_edr("H1")))
    _xp = [sp.sqrt(_EF / (1000 * r_[0])) for r_ in _rows]
    _fp = [r_[1] + sp.I * r_[2] for r_ in _rows]
    half = sp.Rational(1, 2)
    for label, x_, want_ in (("below the table", _xp[0] * half, _fp[0]), ("at the first node", _xp[0], _fp[0]),
                             ("between the first two nodes", (_xp[0] + _xp[1]) * half, (_fp[0] + _fp[1]) * half),
                             ("at the middle node", _xp[1], _fp[1]),
                             ("three quarters of the way between the last two nodes", _xp[1] + (_xp[2] - _xp[1]) * sp.Rational(3, 4),
                              _fp[1] + (_fp[2] - _fp[1]) * sp.Rational(3, 4)),
                             ("at the last node", _xp[2], _fp[2]), ("above the table", _xp[2] * 2, _fp[2])):
        rr = raises(lambda: I.call(I.getattr(nH1, "scattering_by_wavelength"), [x_], {}))
        if rr:
            ctx.fail("R3", f"table branch at a scalar wavelength {label}", f"raises {rr}", sbw)
            continue
        bc_, tot_ = I.call(I.getattr(nH1, "scattering_by_wavelength"), [x_], {})
        if isinstance(bc_, Vec) and len(bc_.items) == 1:
            bc_ = bc_.items[0]
        eq(ctx, "R3", f"table branch at a scalar wavelength {label}: the scattering length is the clamped linear interpolation of the table",
           bc_, want_, sbw)
    bce, tote = I.call(I.getattr(nH1, "scattering_by_wavelength"), [lam], {})
    # what the lookup has to be, from the generated table (energies in eV -> wavelength in Angstrom, increasing wavelength)
    from .nworld import ed_rows
    EF_ = I.global_name("nsf", "ENERGY_FACTOR")
    rows_ = list(reversed(ed_rows("H1")))
    XP = Vec([sp.sqrt(EF_ / (1000 * r_[0])) for r_ in rows_])
    FP = Vec([r_[1] + sp.I * r_[2] for r_ in rows_])
    apps = [a for a in sp.sympify(bce).atoms(sp.Function) if a.func == interp_f]
    ok = len(apps) == 1 and sp.sympify(bce) == apps[0]
    ctx.check(ok, "R3", "table branch is a single interpolation", f"extracted {_s(bce)}", sbw)
    if ok:
        x, xp, fp, left, right = apps[0].args
        clamp = sp.Symbol("clamp")
        ctx.check(x == lam, "R3", "interpolation is evaluated at the wavelength", f"evaluated at {x}", sbw)
        same_nodes = len(xp.args) == 3 and len(fp.args) == 3 and all(sp.simplify(a_ - b_) == 0 for a_, b_ in zip(xp.args, XP.items)) \
            and all(sp.simplify(a_ - b_) == 0 for a_, b_ in zip(fp.args, FP.items))
        ctx.check(same_nodes, "R3",
                  "interpolation nodes are the table's wavelengths (increasing) with the complex scattering length of the same row", f"xp={xp}, fp={fp}", sbw)
        ctx.check(left in (clamp, FP.items[0]) and right in (clamp, FP.items[-1]), "R3",
                  "outside the table the end-point values are used (numpy default, or the same ends given explicitly)",
                  f"left={left}, right={right}: values outside the table are not the nearest end point", sbw)
        eq(ctx, "R3", "table branch total cross section = 4 pi/100 |b|^2", tote,
           4 * sp.pi / 100 * sp.Abs(apps[0]) ** 2, sbw)
    # mixed compound with an energy dependent atom: same equations with b := interpolated value
    comp2 = {A["element"]: q[0], A["H1"]: q[1]}
    got2 = spec.unpack(I.call(ns, [dict(comp2)], {"density": rho, "wavelength": lam}))
    B = sp.Symbol("ebr", real=True) - sp.I * sp.Symbol("ebi", nonnegative=True)
    mH1 = mass_sym("H1")
    want2 = spec.compound(q[:2], [m[0], mH1], [b[0], B], [s[0], 4 * sp.pi / 100 * sp.Abs(B) ** 2], rho, lam)
    for k in spec.OUTPUTS:
        g2 = sp.sympify(got2[k]).xreplace({apps[0]: B}) if ok else got2[k]
        eq(ctx, "R3", f"{k} with an energy-dependent atom in the compound", g2, want2[k], cs,
           nonzero=[rho * (q[0] * m[0] + q[1] * mH1)])
    ctx.floor("R3", 19)

    # R4 energy_dependent_init over a generic 3-row table
    _r4(ctx)

    # mixed valence: the neutral atom and an ion of the same element are both counted
    compm = {A["element"]: q[0], A["ion_element"]: q[1], A["element2"]: q[2]}
    gm = spec.unpack(I.call(ns, [dict(compm)], {"density": rho, "wavelength": lam}))
    mm = [m[0], mass_sym("Fe") - 2 * me, m[2]]
    wm = spec.compound(q, mm, [b[0], b[0], b[2]], [s[0], s[0], s[2]], rho, lam)
    for k in ("sld_re", "inc_xs", "penetration"):
        eq(ctx, "R2", f"{k}: compound with Fe and Fe2+ counts both", gm[k], wm[k], cs, nonzero=[rho * sum(a * c for a, c in zip(q, mm))])
    # R5 missing data
    for label, attrs in (("b_c is None", dict(b_c=None)), ("number density is None", dict(_number_density=None))):
        w2 = neutron_world(ctx)
        I2, A2 = w2.I, w2.atoms
        n2 = I2.getattr(A2["element2"], "neutron")
        w2.set(n2, **attrs)
        r = I2.call(I2.global_name("nsf", "neutron_scattering"),
                    [{A2["element"]: q[0], A2["element2"]: q[1]}], {"density": rho, "wavelength": lam})
        if "b_c" in attrs:
            ctx.check(r == (None, None, None), "R5", f"compound with an atom whose {label} gives (None, None, None)",
                      f"returned {_s(r)}", site)
        else:
            # an atom that has neutron data but whose element has no tabulated bulk density (radium): the compound's density is
            # given, so the result is that of the equations, the same as if the bulk density were known
            w3 = neutron_world(ctx)
            full = w3.I.call(w3.I.global_name("nsf", "neutron_scattering"),
                             [{w3.atoms["element"]: q[0], w3.atoms["element2"]: q[1]}], {"density": rho, "wavelength": lam})
            okr = isinstance(r, tuple) and len(r) == 3 and r[0] is not None and isinstance(r[0], tuple)
            ctx.check(okr, "R5", "compound (density given) with an atom that has neutron data but no bulk density of its own: computed, not (None, None, None)",
                      f"returned {_s(r, 80)} although every atom has neutron data and the density was given", site,
                      witness="neutron_sld('RaCl2', density=4.9)")
            if okr:
                eq(ctx, "R5", "... and equal to the result with the bulk density known (the atom's own density is not used)", r[0][0], full[0][0], site)
        r = I2.call(I2.getattr(n2, "sld"), [], {"wavelength": lam})
        ctx.check(r == (None, None, None), "R5", f"Neutron.sld when {label} gives (None, None, None)",
                  f"returned {_s(r)}", fsite(ctx, "nsf.Neutron.sld"))
    public_entry_points(ctx, "RW", [("neutron_sld", "nsf.neutron_sld"), ("neutron_scattering", "nsf.neutron_scattering")])
    ctx.floor("R5", 4)

    # R6 element / isotope queried directly = one-atom compound at that atom's density
    for kind, mk, tag in (("element", m[0], "element"), ("isotope", mass_sym("Fe56"), "isotope")):
        atom = A[kind]
        nsf = I.getattr(atom, "neutron")
        got6 = spec.unpack(I.call(I.getattr(nsf, "scattering"), [], {"wavelength": lam}))
        dens = I.getattr(atom, "density")
        bk = sp.Symbol(f"br_{tag}", real=True) - sp.I * sp.Symbol(f"bi_{tag}", nonnegative=True)
        want6 = spec.compound([sp.Integer(1)], [mk], [bk], [sp.Symbol(f"s_{tag}", positive=True)], dens, lam)
        for k in spec.OUTPUTS:
            eq(ctx, "R6", f"{k}: {kind}.neutron.scattering() = one-atom compound at the atom's density",
               got6[k], want6[k], fsite(ctx, "nsf.Neutron.scattering"), nonzero=[dens * mk])
        got6c = spec.unpack(I.call(ns, [atom], {"wavelength": lam}))
        eq(ctx, "R6", f"neutron_scattering({kind}) uses the atom's own density", got6c["sld_re"], want6["sld_re"], site, nonzero=[dens * mk])
    ctx.floor("R6", 16)

    # R7 sign facts on the data
    rows, ed = _tables(ctx)
    bad = []
    nabs = 0
    for cols in rows:
        cell = cols[-1].replace("<", "").replace("*", "").split("(")[0]
        if cell.strip():
            nabs += 1
            if float(cell) < 0:
                bad.append(cols[0])
    ctx.check(not bad, "R7", "every absorption cell is >= 0 (so Im b_c <= 0)", f"negative absorption in {bad}",
              "periodictable/nsf.py nsftable", sample={"rows": len(rows), "absorption cells": nabs})
    badim = [(k, r) for k, vals in ed.items() for r in vals if r[2] > 0]
    import math
    incons = [(k, r) for k, vals in ed.items() for r in vals if abs(math.hypot(r[1], r[2]) - r[3]) > 0.011]
    ctx.check(not incons, "R7", "every row of the energy-dependent tables is self-consistent: |a| = hypot(Re a, Im a) to the printed precision",
              f"inconsistent rows {incons[:3]} (a mistyped cell)", "periodictable/nsf_tables.py", sample={"rows": sum(len(v) for v in ed.values())})
    ctx.check(not badim, "R7", "every tabulated Im(a) of the energy-dependent tables is <= 0",
              f"positive imaginary part at {badim[:3]}", "periodictable/nsf_tables.py",
              sample={"tables": len(ed), "rows": sum(len(v) for v in ed.values())})
    ctx.unit("table_rows", len(rows) + sum(len(v) for v in ed.values()))
    constants_lint(ctx, "R8", ["avogadro_number"], "number density N = rho N_A / M in the documented SLD equations")
    ctx.unit("functions_inlined", len(set(I.calls)))
    ctx.extra["exhaustive"] = False
    ctx.assume("numpy.interp clamps at the ends when left/right are not given and returns fp at a node")
    ctx.assume("Im b_c <= 0 for every atom (R7 checks the tables), so |Im b| = -Im b")


def _r4(ctx, R="R4"):
    """energy_dependent_init on a generic table: units, ordering, natural Lu."""
    from ptstat.world import World
    E = (sp.Integer(1), sp.Integer(2), sp.Integer(4))       # eV, increasing like every real table (checked below)
    rr = sp.symbols("r1:4", real=True)
    ii = sp.symbols("i1:4", real=True)
    gen = {("Lu", sp.Integer(176)): [(E[k], rr[k], ii[k], sp.Integer(0)) for k in range(3)],
           ("Gd", None): [(E[k], rr[k] + 1, ii[k] + 1, sp.Integer(0)) for k in range(3)]}
    w = World(ctx.src, symconst={"nsf_tables.ENERGY_DEPENDENT_TABLES": gen})
    I = w.I
    NC = I.get_class("nsf.Neutron")
    site = fsite(ctx, "nsf.energy_dependent_init")
    recs = {}
    for sym, A_ in (("Lu", 176), ("Lu", 175), ("Lu", None), ("Gd", None)):
        atom = w.element(sym) if A_ is None else w.isotope(sym, A_)
        rec = I.instantiate(NC, [], {}, name=f"nsf_{sym}{A_ or ''}")
        w.set(atom, neutron=rec)
        w.set(rec, is_energy_dependent=A_ != 175)
        if A_:
            w.set(atom, _abundance=sp.Symbol(f"ab{A_}", positive=True))
        recs[(sym, A_)] = rec
    b175 = sp.Symbol("b175r", real=True) - sp.I * sp.Symbol("b175i", nonnegative=True)
    w.set(recs[("Lu", 175)], b_c_complex=b175)
    I.call(I.global_name("nsf", "energy_dependent_init"), [w.table], {})
    EF = I.global_name("nsf", "ENERGY_FACTOR")
    lamk = [sp.sqrt(EF / (1000 * e)) for e in E]   # eV -> meV -> Angstrom (documented: energy in meV)
    lam = sp.Symbol("lam", positive=True)
    a5, a6 = sp.Symbol("ab175", positive=True), sp.Symbol("ab176", positive=True)
    want = {("Lu", 176): [rr[k] + sp.I * ii[k] for k in range(3)],
            ("Gd", None): [rr[k] + 1 + sp.I * (ii[k] + 1) for k in range(3)],
            ("Lu", None): [(b175 * a5 + (rr[k] + sp.I * ii[k]) * a6) / 100 for k in range(3)]}
    # observed through the lookup the calculators use (whatever the initialiser stores for it)
    for key, vals in want.items():
        label = f"{key[0]}{key[1] or ''}" + (" (natural: (b175*ab175 + b176*ab176)/100 on the Lu-176 grid)" if key == ("Lu", None) else "")
        r_ = raises(lambda: I.call(I.getattr(recs[key], "scattering_by_wavelength"), [lam], {}))
        if r_ is not None:
            ctx.fail(R, f"{label}: lookup at a wavelength", f"raises {r_}", site)
            continue
        bce, _tot = I.call(I.getattr(recs[key], "scattering_by_wavelength"), [lam], {})
        apps = [a_ for a_ in sp.sympify(bce).atoms(sp.Function) if a_.func == interp_f]
        if len(apps) != 1 or sp.sympify(bce) != apps[0] or len(apps[0].args[1].args) != 3 or len(apps[0].args[2].args) != 3:
            ctx.fail(R, f"{label}: the scattering length is one interpolation over the three tabulated nodes", f"extracted {_s(bce)}", site)
            continue
        xp, fp = apps[0].args[1].args, apps[0].args[2].args
        for k in range(3):
            eq(ctx, R, f"{label}: wavelength node {k} = neutron_wavelength(1000*E), increasing wavelength", xp[k], lamk[2 - k], site)
            eq(ctx, R, f"{label}: b_c node {k} = Re + i Im of the row with that energy", fp[k], vals[2 - k], site)
    # neutron_wavelength strictly decreasing in energy
    Es = sp.Symbol("E", positive=True)
    nw = I.call(I.global_name("nsf", "neutron_wavelength"), [Es], {})
    d = sp.simplify(sp.diff(nw, Es))
    ctx.check(d.is_negative is True, R, "neutron_wavelength is strictly decreasing in energy",
              f"d lambda/dE = {d} is not negative for E > 0", fsite(ctx, "nsf.neutron_wavelength"))
    # every tabulated energy column strictly increasing => reversed wavelengths increasing (np.interp needs it)
    rows, ed = _tables(ctx)
    bad = [k for k, vals in ed.items() if any(b[0] <= a[0] for a, b in zip(vals, vals[1:]))]
    ctx.check(not bad, R, "every energy-dependent table is strictly increasing in energy",
              f"not increasing: {bad}", "periodictable/nsf_tables.py", sample={"tables": len(ed)})
    ctx.floor(R, 20)


def run(ctx):
    from spec.neutron import ConditionalResult
    try:
        _run(ctx)
    except ConditionalResult as cr:
        # a result whose *shape* depends on the data (None for some values of the data, numbers otherwise) wherever it turns up
        ctx.fail("R2", "neutron results have the same shape for every atom with neutron data",
                 f"the shape of a result depends on the data: {str(cr)[:300]} (an atom with b_c = 0, such as natural Sm, is not 'missing')",
                 fsite(ctx, "nsf.neutron_scattering"))
