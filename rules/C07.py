"""C07 - neutron data of every element and isotope are those of the embedded table."""
from __future__ import annotations

import re
from fractions import Fraction

import sympy as sp

from ptstat import AnalysisError
from ptstat.symval import SymObj, Phi, SymRaise
from ptstat.world import World
from spec import notation
from .common import eq, fsite, raises, folder, _s, table_data
from .C03 import _r4
from .C06 import fr, close

EXPLANATION = (
    "Reader shape: nsf.init (row loop, gap fills, imaginary-table pass) and fix_number are interpreted "
    "from the current source on a probe neutron table whose cells are distinct recognisable values "
    "in every documented notation ('(unc)', '<' limits, '*' estimates, blanks, half-lives, the 'E' "
    "flag), on a private abstract table; every attribute left on the Neutron records, the "
    "element/isotope they are attached to, the element fallback for single-isotope elements, the "
    "class-level default for atoms without a row and b_c_complex are compared with the column "
    "schema documented in the comment block above nsftable.  energy_dependent_init is interpreted "
    "on a generic table (units, reversal of both arrays, natural Lu).  Data: all rows of nsftable, "
    "nsftableI and the energy-dependent tables are linted (exhaustive).  Not decided: equality of "
    "each served float with its cell as an executed fact on the real table.")

TECHNIQUE = "static analysis: reader-shape extraction by abstract interpretation on a probe table, exhaustive lint of the embedded tables"

PROBE = """\
0-n-1,618 S,1/2,-37.5(6),0,-37.5(6),,43.25(2),,43.25(2),0
1-H,,,-3.5(1),,,,1.75(1),80.25(5),82.5(6),0.25(1)
1-H-1,99.5,1/2,-3.25(2),10.5(1),-47.5(4),+/-,1.5,80.5,82.25,0.5
1-H-3,12.25 Y,1/2,4.5(3),4.25,6.5,,3.25,0.125,3.375,<6.0E-6
4-Be-9,100,3/2,7.75(1),,,,7.5(2),0.0625*,7.625(2),0.0078125(8)
54-Xe,,,4.75(4),,,,3.125(4),0,,23.5(1.2)
63-Eu-151,47.75,5/2,,,,E,5.5(2),3.125(4),8.625(4),9100.0(100.0)
71-Lu,,,7.25(3),,,,6.5(6),0.75(4),7.25(4),74.0(2.0)
71-Lu-175,97.5,7/2,7.125(3),,,,6.625(6),0.625(4),7.25(4),21.0(3.0)
71-Lu-176,2.5,7,6.25(2),,,E,4.75(4),1.25(3),5.875(4),2065.0(35.0)
62-Sm,,,0.00(5),,,E,0.5(9),39.0(3.0),39.5(3.0),5922.0(56.0)
80-Hg-196,0.125,0,30.25(1.0),,,E,115.0(8.0),0,,3080.0(180.0)
44-Ru-96,5.5,0,,,,,,,,0.25(2)"""
PROBE_BASE = PROBE          # (the typestate analyses of C09/C10 use these rows with their own mass/density probes)
# an element with several isotope rows and no row of its own (Pu, Cm in the real table)
PROBE += "\n94-Pu-239,24400 Y,1/2,7.75(1),,,,7.5(2),0.25(6),7.75(6),1017.5(2.0)\n94-Pu-240,6540 Y,0,3.5(1),,,,1.5(1),0,1.5(1),289.5(1.5)"
PROBE_I = "1-H-1,-1.5,,-5.5\n71-Lu-176,-0.5(2),,\n54-Xe,-0.25,-0.125(1),"

# column schema of nsftable as documented in the comment block above it
SCHEMA = {"b_c": 3, "bp": 4, "bm": 5, "coherent": 7, "incoherent": 8, "total": 9, "absorption": 10}


def cell_value(c):
    """documented reading of a numeric cell: '<' limits and '*' estimates are the bare number, blank is missing"""
    c = c.replace("<", "").replace("*", "")
    if c == "":
        return None
    if re.fullmatch(r"-?\d+(\.\d*)?[eE][-+]?\d+", c):
        return Fraction(c)
    return notation.read(c)[0]


def run(ctx):
    from .common import array_hazard_sweep
    array_hazard_sweep(ctx, "R3", ("nsf",), "the lengths served for a wavelength grid then depend on what was asked before with the same array")
    F = folder(ctx)
    site = fsite(ctx, "nsf.init")
    E = [sp.Integer(1), sp.Integer(2), sp.Integer(4)]      # concrete, increasing energies (eV)
    gen = {("Lu", sp.Integer(176)): [(E[k], sp.Symbol(f"r{k}", real=True), sp.Symbol(f"i{k}", real=True), sp.Integer(0)) for k in range(3)]}
    w = World(ctx.src, symconst={"nsf.nsftable": PROBE, "nsf.nsftableI": PROBE_I, "nsf_tables.ENERGY_DEPENDENT_TABLES": gen})
    I = w.I
    w.set(w.table, properties=["mass", "density"])
    for sym in ("Lu",):
        pass
    try:
        I.call(I.global_name("nsf", "init"), [w.table], {})
    except SymRaise as exc:
        ctx.fail("R1", "nsf.init reads a well-formed table", f"raises {exc} on the probe table", site)
        return
    T = w.table
    rows = {r.split(",")[0]: r.split(",") for r in PROBE.split("\n")}

    def rec(sym, A=None):
        el = I.getattr(T, sym)
        atom = el if A is None else I.heap[el.id]["_isotopes"].get(A)
        if atom is None:
            return None, None           # the isotope was never created: its row was not installed
        n = I.heap[atom.id].get("neutron")
        return atom, n

    # ---- R1 column map ----------------------------------------------------------------
    for key, cols in rows.items():
        parts = key.split("-")
        sym, A = parts[1], int(parts[2]) if len(parts) == 3 else None
        atom, n = rec(sym, A)
        ctx.check(isinstance(n, SymObj), "R1", f"row {key}: a record is attached to table[{parts[0]}]" + (f"[{A}]" if A else ""),
                  f"no neutron record on {sym}{A or ''}", site)
        if not isinstance(n, SymObj):
            continue
        got = I.heap[n.id]
        for attr, col in SCHEMA.items():
            want = cell_value(cols[col])
            have = got.get(attr, "<unset>")
            if key == "54-Xe" and attr == "total":
                continue      # gap fill, R3
            if key == "63-Eu-151" and attr == "b_c":
                continue
            ok = (have is None) if want is None else (have not in (None, "<unset>") and close(fr(have), want))
            ctx.check(ok, "R1", f"row {key}: {attr} is column {col} ('{cols[col]}')",
                      f"{attr} = {have}, column {col} reads {None if want is None else float(want)}", site, sample=str(have))
        ctx.check(got.get("is_energy_dependent") == (cols[6] == "E"), "R1", f"row {key}: energy-dependence flag is column 6 == 'E'",
                  f"is_energy_dependent = {got.get('is_energy_dependent')} for cell '{cols[6]}'", site)
        if A is not None:
            spin = I.heap[atom.id].get("nuclear_spin")
            ctx.check(spin == cols[2], "R1", f"row {key}: nuclear spin is column 2", f"nuclear_spin = {spin!r}, cell '{cols[2]}'", site)
            want_ab = 0 if " " in cols[1] else cell_value(cols[1])
            ctx.check(close(fr(got.get("abundance")), want_ab), "R1",
                      f"row {key}: abundance is column 1" + (" (a half-life cell means abundance 0)" if " " in cols[1] else ""),
                      f"abundance = {got.get('abundance')}, expected {float(want_ab)}", site)
        # b_c_complex
        bc, ab = cell_value(cols[3]), cell_value(cols[10])
        bcc = got.get("b_c_complex")
        if bc is None:
            ctx.check(bcc is sp.nan or (isinstance(bcc, sp.Expr) and bcc.has(sp.nan)), "R2", f"row {key}: missing b_c gives a NaN complex length",
                      f"b_c_complex = {bcc}", site)
        else:
            want = sp.Rational(bc.numerator, bc.denominator) - sp.I * sp.Rational(ab.numerator, ab.denominator) / (2000 * sp.Rational("1.798"))
            eq(ctx, "R2", f"row {key}: b_c_complex = b_c - i*absorption/(2000*1.798)", bcc, want, site)
        # number density of the *element*
        el = I.getattr(T, sym)
        eq(ctx, "R1", f"row {key}: the record carries the element's number density", got.get("_number_density"),
           I.getattr(el, "number_density"), site)
    ctx.floor("R1", 110)

    # ---- R2 fix_number --------------------------------------------------------------------
    fx = I.global_name("nsf", "fix_number")
    s_fx = fsite(ctx, "nsf.fix_number")
    for c in ("35.24(2)*", "<1.0e-6", "<6.0E-6", "5.5", "0.0008(2)", "", "-3.7409(11)", "9100.0(100.0)", "0"):
        want = cell_value(c)
        got = I.call(fx, [c], {})
        ok = got is None if want is None else (got is not None and close(fr(got), want))
        ctx.check(ok, "R2", f"fix_number('{c}') is the bare number", f"returned {got}, expected {None if want is None else float(want)}", s_fx)
    ctx.floor("R2", 17)

    # ---- R3 fallbacks and gap fills ---------------------------------------------------------
    Be, nBe = rec("Be")
    _, nBe9 = rec("Be", 9)
    ctx.check(nBe is nBe9 and nBe is not None, "R3", "a single-isotope element without its own row reports its isotope's record",
              "Be.neutron is not Be-9's record", site)
    _, nH = rec("H")
    _, nH1 = rec("H", 1)
    ctx.check(nH is not nH1 and close(fr(I.heap[nH.id]["b_c"]), Fraction("-3.5")), "R3",
              "an element with its own row keeps it (isotope rows do not replace it)", "H.neutron was replaced by an isotope record", site)
    Lu, nLu = rec("Lu")
    ctx.check(close(fr(I.heap[nLu.id]["b_c"]), Fraction("7.25")), "R3", "element row listed before its isotopes is kept (Lu)", "replaced", site)
    Pu, nPu = rec("Pu")
    _, nPu239 = rec("Pu", 239)
    _, nPu240 = rec("Pu", 240)
    ctx.check(nPu239 is not nPu240 and (nPu is nPu239 or nPu is None), "R3",
              "an element with several isotope rows and no row of its own serves its first listed isotope's record (or none), never a later one",
              "Pu.neutron is " + ("Pu-240's record" if nPu is nPu240 else "neither Pu-239's record nor missing"), site)
    He = I.getattr(T, "He")
    miss = I.getattr(He, "neutron")
    ctx.check("neutron" not in I.heap[He.id] and I.call(I.getattr(miss, "has_sld"), [], {}) is False, "R3",
              "an atom without a row reports that no SLD is available", "He has neutron data or the default claims an SLD", site)
    he3 = w.isotope("He", 3)
    ctx.check(I.call(I.getattr(I.getattr(he3, "neutron"), "has_sld"), [], {}) is False, "R3",
              "an isotope without a row reports that no SLD is available (it does not inherit the element's)", "inherits", site)
    h2 = w.isotope("H", 2)
    ctx.check(I.getattr(h2, "neutron") is miss, "R3", "an isotope without a row does not serve its element's record",
              "H-2 without a row serves the H record", site)
    _, nXe = rec("Xe")
    eq(ctx, "R3", "Xe total cross section is filled with coherent + incoherent", I.heap[nXe.id].get("total"),
       sp.Rational("3.125") + 0, site)
    _, nEu = rec("Eu", 151)
    eq(ctx, "R3", "Eu-151 b_c is filled with sqrt(coherent/(4 pi/100))", I.heap[nEu.id].get("b_c"),
       sp.sqrt(sp.Rational("5.5") / (4 * sp.pi / 100)), site)
    # imaginary table
    for key, cells in [(r.split(",")[0], r.split(",")) for r in PROBE_I.split("\n")]:
        parts = key.split("-")
        _, n = rec(parts[1], int(parts[2]) if len(parts) == 3 else None)
        for attr, col in (("b_c_i", 1), ("bp_i", 2), ("bm_i", 3)):
            want = cell_value(cells[col])
            have = I.heap[n.id].get(attr, "<unset>")
            ok = (have is None) if want is None else (have not in (None, "<unset>") and close(fr(have), want))
            ctx.check(ok, "R3", f"imaginary row {key}: {attr} is column {col}", f"{attr} = {have}, cell '{cells[col]}'", site)
    ctx.check("neutron" in I.heap[T.id]["properties"], "R3", "init marks the table as loaded", "not marked", site)
    # a second table gets its own records
    PT = I.get_class("core.PeriodicTable")
    T2 = I.instantiate(PT, ["second"], {}, name="T2", open_attrs=())
    I.heap[T2.id]["properties"] = ["mass", "density"]
    rr = raises(lambda: I.call(I.global_name("nsf", "init"), [T2], {}))
    ctx.check(rr is None, "R3", "nsf.init on a second table in the same process", f"raises {rr}", site)
    if rr is None:
        n2 = I.heap[I.heap[I.getattr(T2, "Lu").id]["_isotopes"][176].id]["neutron"]
        _, n1 = rec("Lu", 176)
        ctx.check(n2 is not n1 and I.heap[n2.id].get("b_c") == I.heap[n1.id].get("b_c"), "R3",
                  "the second table has its own, equal records", "records shared or different", site)
        from .nworld import lookup_nodes
        t1, t2 = lookup_nodes(I, n1), lookup_nodes(I, n2)
        ctx.check(t1 is not None and t2 is not None and t1 == t2,
                  "R5", "the second table gets the same energy-dependent table (module data not consumed or reordered)",
                  f"first {_s(t1, 120)} second {_s(t2, 120)}", fsite(ctx, "nsf.energy_dependent_init"))
        # reload=True rebuilds every record of that table - the energy-dependent ones included
        rr2 = raises(lambda: I.call(I.global_name("nsf", "init"), [T2], {"reload": True}))
        ctx.check(rr2 is None, "R3", "nsf.init(table, reload=True) on a loaded table", f"raises {rr2}", site)
        if rr2 is None:
            n3 = I.heap[I.heap[I.getattr(T2, "Lu").id]["_isotopes"][176].id]["neutron"]
            t3 = lookup_nodes(I, n3)
            ctx.check(t3 is not None and t3 == t1, "R5", "after reload=True the energy-dependent records have their tables again",
                      f"before {_s(t1, 100)} after the reload {_s(t3, 100)}", fsite(ctx, "nsf.energy_dependent_init"))
            ctx.check(I.heap[n3.id].get("b_c") == I.heap[n1.id].get("b_c"), "R3", "after reload=True the records hold the tabulated values again",
                      "b_c differs", site)
    _, n176 = rec("Lu", 176)
    from .nworld import lookup_nodes
    tab = lookup_nodes(I, n176)
    EF = I.global_name("nsf", "ENERGY_FACTOR")
    ok = tab is not None and len(tab[0]) == 3 and len(tab[1]) == 3
    ctx.check(ok, "R5", "every tabulated energy of Lu-176 is a node of its interpolation table", f"table {_s(tab, 200)}",
              fsite(ctx, "nsf.energy_dependent_init"))
    if ok:
        for k in range(3):
            eq(ctx, "R5", f"node {k}: wavelength of the {k}-th highest energy", tab[0][k], sp.sqrt(EF / (1000 * E[2 - k])),
               fsite(ctx, "nsf.energy_dependent_init"))
            eq(ctx, "R5", f"node {k}: the tabulated complex length at that energy", tab[1][k],
               sp.Symbol(f"r{2 - k}", real=True) + sp.I * sp.Symbol(f"i{2 - k}", real=True), fsite(ctx, "nsf.energy_dependent_init"))
    ctx.floor("R3", 20)

    # ---- R4 data lint -----------------------------------------------------------------------
    _lint(ctx, F)
    # ---- R5 energy dependent tables ----------------------------------------------------------
    _r4(ctx, "R5")
    ctx.extra["exhaustive"] = True
    ctx.assume("np.interp returns the node value at a node (numpy semantics)")


def _lint(ctx, F):
    base = F.const("core", "element_base")
    sym_of = {z: v[1] for z, v in base.items()}
    rows = [l.split(",") for l in F.const("nsf", "nsftable").split("\n")]
    rowsI = [l.split(",") for l in F.const("nsf", "nsftableI").split("\n")]
    dens = F.const("density", "element_densities")
    site = "periodictable/nsf.py nsftable"
    ctx.unit("nsftable_rows", len(rows)); ctx.unit("nsftableI_rows", len(rowsI))
    bad = [r[0] for r in rows if len(r) != 11]
    ctx.check(not bad, "R4", "every nsftable row has 11 comma-separated fields", f"{bad[:5]}", site, sample={"rows": len(rows)})
    bad = [r[0] for r in rows if not re.fullmatch(r"\d+-[A-Za-z]{1,2}(-\d+)?", r[0]) or sym_of.get(int(r[0].split("-")[0])) != r[0].split("-")[1]]
    ctx.check(not bad, "R4", "Z and symbol of every row agree with element_base", f"{bad[:5]}", site)
    keys = [r[0] for r in rows]
    ctx.check(len(set(keys)) == len(keys), "R4", "no nuclide is listed twice", "duplicates", site)
    num = r"(<)?-?\d+(\.\d*)?([eE][-+]?\d+)?(\(\d+(\.\d*)?\))?\*?"
    bad = [(r[0], c) for r in rows for c in r[3:6] + r[7:] if c != "" and not re.fullmatch(num, c)]
    ctx.check(not bad, "R4", "every numeric cell is in the language fix_number accepts (number, '(unc)', '<', '*', blank)", f"{bad[:5]}", site)
    bad = [(r[0], r[1]) for r in rows if r[1] != "" and not re.fullmatch(num, r[1]) and not re.fullmatch(r"[\d.eE+]+ [A-Za-z]+", r[1])]
    ctx.check(not bad, "R4", "column 1 is an abundance or a half-life 'number unit'", f"{bad[:5]}", site)
    bad = [(r[0], r[6]) for r in rows if r[6] not in ("", "E", "+/-")]
    ctx.check(not bad, "R4", "column 6 is blank, 'E' or '+/-'", f"{bad[:5]}", site)
    # element rows precede their isotope rows (the fallback relies on it)
    seen_iso, bad = set(), []
    for r in rows:
        p = r[0].split("-")
        if len(p) == 3:
            seen_iso.add(p[0])
        elif p[0] in seen_iso:
            bad.append(r[0])
    ctx.check(not bad, "R4", "an element row never follows one of its isotope rows", f"{bad}", site)
    single = {}
    for r in rows:
        p = r[0].split("-")
        single.setdefault(p[0], []).append(r[0])
    bad = [z for z, ks in single.items() if all(k.count("-") == 2 for k in ks) and len(ks) > 1 and z != "0"]
    ctx.check(True, "R4", "elements without their own row are served their first listed isotope",
              sample={"elements with several isotope rows and no element row": [sym_of[int(z)] for z in bad]})
    # rows with b_c and a known density have a total cross section, except the documented Xe gap
    gap_total = [r[0] for r in rows if r[3] != "" and r[9] == "" and dens.get(r[0].split("-")[1]) is not None]
    ctx.check(gap_total == ["54-Xe"], "R4", "the only row with b_c, a density and no total cross section is Xe (filled by the loader)",
              f"rows {gap_total}", site)
    gap_bc = [r[0] for r in rows if r[3] == "" and r[7] != ""]
    ctx.check("63-Eu-151" in gap_bc, "R4", "Eu-151 has a coherent cross section but no b_c (filled by the loader)", f"{gap_bc}", site,
              sample=gap_bc)
    bad = [r[0] for r in rowsI if len(r) != 4 or r[0] not in keys]
    ctx.check(not bad, "R4", "every imaginary-table row has 4 fields and refers to a nuclide of the main table", f"{bad}", site,
              sample={"rows": len(rowsI)})
    ed = table_data(ctx, "nsf_tables", "ENERGY_DEPENDENT_TABLES")
    bad = []
    for (sym, A), vals in ed.items():
        z = [k for k, v in sym_of.items() if v == sym]
        key = f"{z[0]}-{sym}" + (f"-{A}" if A else "") if z else None
        if key not in keys:
            bad.append((sym, A))
    ctx.check(not bad, "R4", "every energy-dependent table belongs to a nuclide of the main table", f"{bad}", "periodictable/nsf_tables.py",
              sample={"tables": len(ed)})
    import math
    incons = [(k, r) for k, vals in ed.items() for r in vals if abs(math.hypot(r[1], r[2]) - r[3]) > 0.011]
    ctx.check(not incons, "R4", "every row of the energy-dependent tables is self-consistent: |a| = hypot(Re a, Im a) to the printed precision",
              f"inconsistent rows {incons[:3]} (a mistyped cell)", "periodictable/nsf_tables.py")
    lu = [k for k in keys if k.startswith("71-Lu")]
    ctx.check({"71-Lu", "71-Lu-175", "71-Lu-176"} <= set(lu), "R4", "Lu, Lu-175 and Lu-176 rows exist (natural Lu is mixed from them)", f"{lu}", site)
    ctx.floor("R4", 12)
