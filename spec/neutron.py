"""Documented neutron equations (nsf.neutron_scattering.__doc__), transcribed once.

Each line cites the docstring sentence it transcribes.  Inputs: per-atom counts
q_k, masses m_k, complex scattering lengths b_k (fm), total cross sections
s_k (barn); mass density rho (g/cm^3); wavelength lam (Angstrom).
"""
import sympy as sp

N_A = sp.Symbol("N_A", positive=True)


def compound(q, m, b, s, rho, lam):
    M = sum(qk * mk for qk, mk in zip(q, m))            # "m = sum n_k m_k"
    n = sum(q)
    V = M / rho / N_A * (10 ** 8) ** 3                  # "V = m/rho . 1/N_A . (10^8)^3"
    N = n / V                                           # "N = sum n_k / V"
    bc = sum(qk * bk for qk, bk in zip(q, b)) / n       # "Re/Im(b_c) = sum n_k Re/Im(b_ck) / sum n_k"
    sig_s = sum(qk * sk for qk, sk in zip(q, s)) / n    # "sigma_s = sum n_k sigma_sk / sum n_k"
    return from_averages(N, bc, sig_s, lam)


def from_averages(N, bc, sig_s, lam):
    re_b, im_b = sp.re(bc), sp.im(bc)
    sig_c = 4 * sp.pi * sp.Abs(bc) ** 2 / 100           # "sigma_c = 4 pi |Re(b_c) + i Im(b_c)|^2 / 100"
    sig_a = -1000 * 4 * sp.pi * im_b / (2 * sp.pi / lam)  # "sigma_a = -1000.4 pi <Im(b_c)> / k, k = 2 pi/lambda"
    sig_i = sp.Max(sig_s - sig_c, 0)                    # "sigma_i = sigma_s - sigma_c" (clipped at 0: C04 non-negativity)
    b_i = sp.sqrt(100 * sig_i / (4 * sp.pi))            # "b_i = sqrt(100 sigma_i / (4 pi))"
    return {
        "sld_re": 10 * N * re_b,                        # "rho_re = 10 N Re(b_c)"
        "sld_im": -10 * N * im_b,                       # "rho_im = -10 N Im(b_c)"
        "sld_inc": 10 * N * b_i,                        # "rho_inc = 10 N b_i"
        "coh_xs": N * sig_c,                            # "Sigma_coh = N sigma_c"
        "abs_xs": N * sig_a,                            # "Sigma_abs = N sigma_a"
        "inc_xs": N * sig_i,                            # "Sigma_inc = N sigma_i"
        "penetration": 1 / (N * sig_s + N * sig_a),     # "t_u = 1/(Sigma_s + Sigma_abs)"
    }


OUTPUTS = ("sld_re", "sld_im", "sld_inc", "coh_xs", "abs_xs", "inc_xs", "penetration")


class ConditionalResult(Exception):
    """the calculator's result has a different *shape* on a data-dependent condition (e.g. (None, None, None) when b_c == 0)"""
    def __init__(self, cond, a, b):
        super().__init__(f"when {cond}: {a!r}; otherwise: {b!r}")
        self.cond, self.a, self.b = cond, a, b


def unpack(result):
    from ptstat.symval import Phi
    if isinstance(result, Phi):
        raise ConditionalResult(result.cond, result.a, result.b)
    (a, b, c), (d, e, f), g = result
    return dict(zip(OUTPUTS, (a, b, c, d, e, f, g)))
