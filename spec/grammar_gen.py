"""Derivations of the documented formula grammar (doc/sphinx/guide/formula_grammar.rst) with their reading.

    compound   :: group (separator group)* density?
    group      :: count element+ | '(' formula ')' count
    element    :: symbol isotope? ion? count?
    isotope    :: '[' number ']'          ion :: '{' number? [+-] '}'
    density    :: '@' count               count :: number | fraction
    separator  :: space? '+'? space?

Reading ("a count multiplies everything in its group and repeated atoms add"): the value of a derivation is the
multiset of (symbol, mass number, charge) with Fraction counts, the net charge and the density tag.  Only
unambiguous strings are produced: a group's leading count is written only at the start of the string or after
a separator that contains a blank or '+', since an adjacent number belongs to the preceding element; counts
have at least one digit; parenthesised groups carry no density of their own (the guide's text describes the
tag as applying to the entire formula).
"""
from __future__ import annotations

import random
from fractions import Fraction

ISOTOPES = {"H": [1, 2, 3], "C": [12, 13], "O": [16, 18], "Fe": [54, 56], "U": [235, 238], "Cl": [35, 37], "Li": [6, 7]}
COUNTS = ["2", "3", "12", "1.5", "0.25", ".5", "4.", "10", "1", "7.125", "100", "0.001"]
SEPS = [" ", "+", " + ", "+ ", " +", ""]


def count_value(text):
    return Fraction(text if not text.endswith(".") else text + "0") if text not in ("",) else Fraction(1)


class Gen:
    def __init__(self, seed, element_base):
        self.rng = random.Random(seed)
        self.base = element_base
        self.symbols = [v[1] for z, v in element_base.items() if z > 0] + ["D", "T"]
        self.ions = {v[1]: sorted(v[2] + v[3]) for v in element_base.values()}
        self.ions["D"] = self.ions["T"] = self.ions["H"]

    def count(self, p=0.6):
        return self.rng.choice(COUNTS) if self.rng.random() < p else ""

    def element(self):
        r = self.rng
        sym = r.choice(self.symbols) if r.random() < 0.5 else r.choice(["H", "C", "O", "Fe", "Na", "Cl", "D", "U", "Li", "Ca"])
        text, A, ch = sym, 0, 0
        if sym in ISOTOPES and r.random() < 0.35:
            A = r.choice(ISOTOPES[sym])
            text += f"[{A}]"
        if self.ions.get(sym) and r.random() < 0.35:
            ch = r.choice(self.ions[sym])
            text += "{" + (str(abs(ch)) if abs(ch) > 1 or r.random() < 0.3 else "") + ("+" if ch > 0 else "-") + "}"
        c = self.count()
        key = (sym, A, ch)
        if sym == "D":
            key = ("D", 2, ch)
        elif sym == "T":
            key = ("T", 3, ch)
        elif sym == "H" and A == 2:
            key = ("D", 2, ch)
        elif sym == "H" and A == 3:
            key = ("T", 3, ch)
        return text + c, {key: count_value(c)}

    def group(self, depth, lead_ok, paren=None, force_lead=False):
        r = self.rng
        self.last_paren = False
        self.last_lead = ""
        if paren is True or (paren is None and depth > 0 and r.random() < 0.35):
            inner, atoms = self.composite(depth - 1)
            c = self.count(0.7)
            self.last_paren = True
            self.last_lead = c            # for a parenthesised group: its trailing count
            return "(" + inner + ")" + c, scale(atoms, count_value(c))
        lead = (r.choice(COUNTS) if force_lead else self.count(0.4)) if lead_ok else ""
        self.last_lead = lead
        text, atoms = lead, {}
        for _ in range(r.randint(1, 3)):
            t, a = self.element()
            text += t
            atoms = add(atoms, a)
        return text, scale(atoms, count_value(lead))

    def composite(self, depth):
        r = self.rng
        text, atoms = self.group(depth, True)
        prev_paren, prev_lead = self.last_paren, self.last_lead
        for _ in range(r.randint(0, 2)):
            sep = r.choice(SEPS)
            # elements glued to an implicit group belong to that group (its leading count applies to them): an
            # empty separator is only written next to a parenthesised group
            paren = None
            if sep == "" and not prev_paren:
                paren = True if depth > 0 else None
                if paren is None:
                    sep = " "
            # blanks do not end an implicit group ('12Na O' is 12(NaO)): after a blank-only separator a new
            # implicit group is only recognisable by its own leading count
            force = sep.strip() == "" and sep != "" and not prev_paren and prev_lead != ""
            # ')' followed by blanks and a number: the number is the count of the parenthesised group
            blank_after_bare_paren = prev_paren and prev_lead == "" and sep.strip() == ""
            g, a = self.group(depth, lead_ok=(sep != "" and not blank_after_bare_paren), paren=paren, force_lead=force)
            prev_paren, prev_lead = self.last_paren, self.last_lead
            text += sep + g
            atoms = add(atoms, a)
        return text, atoms

    def compound(self, depth=2):
        r = self.rng
        text, atoms = self.composite(depth)
        dens = None
        if r.random() < 0.4:
            d = r.choice(["1", "2.16", "0.9982", "5.", ".75", "10"])
            tag = r.choice(["", "n", "i"])
            text += "@" + d + tag
            dens = (count_value(d), "natural" if tag == "n" else "isotopic")
        return text, atoms, dens


def add(a, b):
    out = dict(a)
    for k, v in b.items():
        out[k] = out.get(k, 0) + v
    return out


def scale(a, c):
    return {k: v * c for k, v in a.items()}


MALFORMED = [
    # unknown symbol
    "Xx2", "A", "Zz3O", "h2O", "H2o", "Uuo", "CaCO3 6H2Q",
    # an element's *name* is not a symbol of the table (nor is a longer word that merely starts with one)
    "Tin", "Iron2O3", "Neutron", "Deuterium2O", "Lead", "Gold", "Ca(LeadO3)2", "Hydrogen2O", "Sodium{+}", "Heh",
    # undefined isotope / charge
    "Fe[99]", "C[14]", "Ne{+}", "Fe{9+}", "H[1]{2+}", "O{3-}", "He[3]",
    # D and T are isotopes already: a further isotope tag names nothing
    "D[3]2O", "T[1]", "D[99]", "D[3]{+}Cl{-}",
    # malformed isotope
    "Fe[0]", "Fe[056]", "Fe[5", "Fe56]", "Fe[]", "Fe[5.6]", "Fe [56]",
    # malformed ion
    "Fe{+2}", "Fe{2}", "Fe{0+}", "Fe{02+}", "Fe{++}", "Fe{2+", "Fe2+}", "Fe {2+}", "Fe{}",
    # wrong tag order
    "Fe{2+}[56]",
    # brackets
    "(H2O", "H2O)", "((H2O)", "(H2O))", "()", "(H2O)(", "H2(O",
    # counts
    "Fe01", "Fe1.2.3", "Fe-2", "Fe2e3", "Fe 2", "H2O 2", "Fe1,5",
    # density tag
    "H2O@", "H2O@@1", "H2O@x", "H2O@1@2", "@1", "H2O@n", "H2O@ 1", "H2O@-1",
    # junk
    "H2O!", "H2O;", "H2O=", "H2O]", "H2O}",
]
