"""Documented uncertainty notations (util.parse_uncertainty.__doc__), as an independent reader.

  ''            -> (None, None)            "An empty string is returned as None,None"
  'v'           -> (v, 0)                  "a bare value" has zero uncertainty
  'v(u)' 'v(u)#'-> (v, u scaled to the last digits of v unless u has its own decimal point)
  '[v]'         -> (v, 0)                  "The nominal form has zero uncertainty"
  '[lo,hi]'     -> ((hi+lo)/2, (hi-lo)/sqrt(12))   rectangular distribution
"""
import re
from fractions import Fraction
from math import sqrt

CLASSES = {
    "empty": r"",
    "bare": r"-?\d+(\.\d*)?([eE][-+]?\d+)?",
    "unc": r"-?\d+(\.\d*)?\(\d+(\.\d*)?\)#?",
    "nominal": r"\[-?\d+(\.\d*)?\]",
    "range": r"\[-?\d+(\.\d*)?,-?\d+(\.\d*)?\]",
}


def lexical_class(s):
    for name, rx in CLASSES.items():
        if re.fullmatch(rx, s):
            return name
    return None


def read(s):
    """(value, uncertainty) as exact Fractions (sqrt(12) as float in the range form)."""
    c = lexical_class(s)
    if c is None:
        raise ValueError(f"cell {s!r} is in none of the documented notations")
    if c == "empty":
        return None, None
    if c == "bare":
        return Fraction(s) if "e" not in s.lower() else Fraction(float(s)), Fraction(0)
    if c == "nominal":
        return Fraction(s[1:-1]), Fraction(0)
    if c == "range":
        lo, hi = (Fraction(x) for x in s[1:-1].split(","))
        return (hi + lo) / 2, float(hi - lo) / sqrt(12)
    v, u = s.rstrip("#").rstrip(")").split("(")
    if "." not in u and "." in v:
        ndec = len(v.split(".")[1])
        unc = Fraction(int(u), 10 ** ndec)
    else:
        unc = Fraction(u)
    return Fraction(v), unc
