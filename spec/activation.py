"""Reaction chains behind activation.activity(), written as ODE systems (not closed forms).

All rates are per hour.  `root` is the saturated production rate of the first
product expressed in activity units (k1*N0(0) times the unit conversion), so
the activities below are in the units of `root`.

single capture with burn-up of target and product ('act' and every reaction
other than 'b' and '2n'):
    N0' = -k1 N0,   N1' = k1 N0 - (k2 + lam) N1,   A = lam N1
    => y = A:  y' = lam*root*exp(-k1 t) - (k2 + lam) y,   y(0) = 0

feeding by decay of an activated parent ('b'):
    Np' = R - lam_p Np,   Nd' = lam_p Np - lam Nd,   A = lam Nd
    => y' = lam*(root*(1 - exp(-lam_p t)) - y),   y(0) = 0

two-step capture ('2n'):
    N0' = -k1 N0,   N1' = k1 N0 - (k2 + lam_p) N1,   N2' = k2 N1 - lam N2,   A = lam N2
    => (D + lam)(D + k2 + lam_p)(D + k1) y = 0,  y(0) = y'(0) = 0,  y''(0) = lam*k2*root
"""
import sympy as sp


def residual_act(y, t, lam, k1, k2, root):
    return sp.diff(y, t) - lam * root * sp.exp(-k1 * t) + (k2 + lam) * y


def residual_b(y, t, lam, lam_p, root):
    return sp.diff(y, t) - lam * (root * (1 - sp.exp(-lam_p * t)) - y)


def residual_2n(y, t, lam, lam_p, k1, k2):
    D = lambda f: sp.diff(f, t)
    z = D(y) + k1 * y
    z = D(z) + (k2 + lam_p) * z
    return D(z) + lam * z
