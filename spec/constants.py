"""CODATA / AME reference values of the physical constants the documented equations use.

Values: CODATA 2018 (SI 2019 exact values where applicable), AME 2020 for the neutron mass.  A constant of the package is
accepted when it is within REL of the reference: every CODATA adjustment since 1998 differs from the 2018 one by less than
3e-7 relative, so an update of the constants module to another adjustment is never flagged, while a slipped digit in the
first six figures or a wrong exponent is.  (name -> (value, unit as written in the package))"""

REL = 1e-6

REFERENCE = {
    "avogadro_number": (6.02214076e23, "1/mol"),
    "plancks_constant": (4.135667696e-15, "eV s"),
    "electron_volt": (1.602176634e-19, "J/eV"),
    "speed_of_light": (299792458.0, "m/s"),
    "electron_radius": (2.8179403262e-15, "m"),
    "neutron_mass": (1.00866491595, "u"),
    "atomic_mass_constant": (1.66053906660e-27, "kg/u"),
    "electron_mass": (5.48579909065e-4, "u"),
}
