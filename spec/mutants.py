"""Self-test edits for the thorough tier: (property, kind, file, old, new, note).

kind 'fire'   - the edit breaks the property; the property's check must report a VIOLATION (exit 1);
kind 'silent' - a behaviour-preserving twin of the same construct; the check must stay silent (exit 0).
Edits are textual on a scratch copy of the *current* tree; an edit whose anchor text is gone is skipped and
reported as such (the repository moved on), never counted as a pass.
"""
F, N, C, A = "periodictable/formulas.py", "periodictable/nsf.py", "periodictable/core.py", "periodictable/activation.py"
X, M, D, U = "periodictable/xsf.py", "periodictable/mass.py", "periodictable/density.py", "periodictable/util.py"
FA, CM, MG, CR, CS, I_ = ("periodictable/fasta.py", "periodictable/cromermann.py", "periodictable/magnetic_ff.py",
                          "periodictable/covalent_radius.py", "periodictable/crystal_structure.py", "periodictable/__init__.py")

MUTANTS = [
    # ---- C01
    ("C01", "fire", F, 'Regex("[1-9][0-9]*")+closeiso', 'Regex("[0-9]+")+closeiso', "isotope regex widened"),
    ("C01", "fire", F, 'Regex("[1-9][0-9]*")+closeiso', 'Regex("[1-9]\\\\d*")+closeiso', "\\d also accepts non-ASCII digits"),
    ("C01", "silent", F, 'Regex("[1-9][0-9]*")+closeiso', 'Regex("[1-9][0123456789]*")+closeiso', "same language, other spelling"),
    ("C01", "fire", F, "count = Optional(~White()+(fract|whole), default=1)", "count = Optional(~White()+(whole|fract), default=1)", "alternatives reordered"),
    ("C01", "fire", F, "        return (count, symbol)\n", "        return (symbol, count)\n", "pair swapped in convert_element"),
    ("C01", "fire", F, "            total[el] += elcount*count", "            total[el] += elcount+count-1", "count added instead of multiplied"),
    ("C01", "silent", F, "        symbol, isotope, ion, count = tokens[0:4]", "        symbol, isotope = tokens[0:2]\n        ion, count = tokens[2:4]", "split unpacking"),
    ("C01", "fire", F, "        if isotope != 0:\n            symbol = symbol[isotope]\n        if ion != 0:\n            symbol = symbol.ion[ion]",
     "        if ion != 0:\n            symbol = symbol.ion[ion]", "isotope tag ignored"),
    ("C01", "fire", F, "    formula = (ungrouped_mixture | compound | grouped_mixture)", "    formula = (compound | ungrouped_mixture | grouped_mixture)", "compound tried before the mixtures: '2L H2O@1' is rejected (reverse of the fix)"),
    ("C01", "silent", F, "    formula = (ungrouped_mixture | compound | grouped_mixture)", "    formula = (ungrouped_mixture | grouped_mixture | compound)", "grouped mixture before compound (disjoint first characters)"),
    ("C01", "fire", F, "    mixture << (grouped_mixture | compound)", "    mixture << (compound | grouped_mixture)", "compound tried before the parenthesised mixture: '(1L H2O@1 // ...)' is rejected (reverse of the fix)"),
    ("C01", "fire", I_, "    from . import formulas\n    return formulas.formula(*args, **kw)\n",
     "    from . import formulas\n    if args and isinstance(args[0], str) and not kw and args in _SEEN:\n        return _SEEN[args]\n    r = formulas.formula(*args, **kw)\n    if args and isinstance(args[0], str) and not kw:\n        _SEEN[args] = r\n    return r\n_SEEN = {}\n",
     "the package-level formula() remembers string requests and hands the same object out again"),
    ("C01", "silent", I_, "    from . import formulas\n    return formulas.formula(*args, **kw)\n",
     "    from . import formulas as _f\n    result = _f.formula(*args, **kw)\n    return result\n", "same pass-through, other spelling"),
    # ---- C02
    ("C02", "fire", F, "ret.structure = ((other*q, f), )", "ret.structure = ((other+q, f), )", "single-fragment shortcut adds"),
    ("C02", "silent", F, "ret.structure = ((other*q, f), )", "ret.structure = ((q*other, f), )", "commuted product"),
    ("C02", "fire", F, "        ret = Formula()\n        ret.structure = tuple(list(self.structure) + list(other.structure))\n        return ret",
     "        self.structure = tuple(list(self.structure) + list(other.structure))\n        return self", "__add__ mutates its operand"),
    ("C02", "fire", C, "return getattr(self.element, 'mass') - constants.electron_mass*self.charge", "return getattr(self.element, 'mass') - constants.electron_mass*abs(self.charge)", "anion mass"),
    ("C02", "silent", F, "            mass += el.mass*count", "            mass += count*el.mass", "commuted product"),
    ("C02", "fire", "periodictable/constants.py", "electron_mass = 5.4857990946e-4", "electron_mass = 5.48577990946e-4", "slipped digit in the electron mass (reverse of the fix)"),
    ("C02", "silent", "periodictable/constants.py", "electron_mass = 5.4857990946e-4", "electron_mass = 5.48579909065e-4", "CODATA 2018 value"),
    # ---- C03
    ("C03", "fire", N, "    sld = 10*number_density * b_c # 1e-6/A^2", "    sld = 100*number_density * b_c # 1e-6/A^2", "wrong factor"),
    ("C03", "fire", N, "        if element.neutron.b_c is None:\n            return None, None, None\n", "        if not element.neutron.has_sld():\n            return None, None, None\n", "the guard needs the element's own bulk density again (reverse of the fix)"),
    ("C17", "fire", N, "        if element.neutron.b_c is None:\n            return None, None, None\n", "        if not element.neutron.has_sld():\n            return None, None, None\n", "direct route refuses an atom without bulk density, the calculator does not (reverse of the fix)"),
    ("C03", "silent", N, "    sld = 10*number_density * b_c # 1e-6/A^2", "    sld = number_density * b_c * 10 # 1e-6/A^2", "commuted"),
    ("C03", "fire", N, "        b_c = np.interp(wavelength, self.nsf_table[0], self.nsf_table[1])", "        b_c = np.interp(wavelength, self.nsf_table[0], self.nsf_table[1], left=np.nan)", "no clamping on the left"),
    ("C03", "silent", N, "        b_c = np.interp(wavelength, self.nsf_table[0], self.nsf_table[1])", "        xp_, fp_ = self.nsf_table\n        b_c = np.interp(wavelength, xp_, fp_)", "unpacked table"),
    ("C03", "fire", N, "atom.neutron.nsf_table = wavelength[::-1], xs[::-1]", "atom.neutron.nsf_table = wavelength[::-1], xs", "one array not reversed"),
    ("C03", "fire", N, "        if not element.neutron.has_sld():\n            return None, None, None\n        molar_mass", "        molar_mass", "missing-data guard dropped"),
    ("C03", "fire", "periodictable/constants.py", "avogadro_number = 6.02214179e23", "avogadro_number = 6.02214179e22", "exponent of Avogadro's number"),
    ("C03", "silent", "periodictable/constants.py", "avogadro_number = 6.02214179e23", "avogadro_number = 6.02214076e23", "SI 2019 exact value"),
    # ---- C04
    ("C04", "fire", N, "    sigma_i = np.maximum(sigma_s - sigma_c, 0.)  # 1 barn = 1 barn", "    sigma_i = sigma_s - sigma_c", "clip removed"),
    ("C04", "fire", N, "    b_c /= num_atoms\n    sigma_s /= num_atoms", "    b_c /= num_atoms\n    sigma_s /= len(compound.atoms)", "incoherent term normalised by the number of species"),
    ("C04", "silent", N, "    b_c /= num_atoms\n    sigma_s /= num_atoms", "    b_c, sigma_s = b_c/num_atoms, sigma_s/num_atoms", "tuple assignment"),
    ("C04", "fire", N, "/ (2 * neutron_mass * atomic_mass_constant)) * 1e23", "/ (2 * neutron_mass * atomic_mass_constant)) * 1.01e23", "energy factor off by 1 %"),
    # ---- C05
    ("C05", "fire", X, "f2 = numpy.interp(energy, xsf[0], xsf[2], left=nan, right=nan)", "f2 = numpy.interp(energy, xsf[0], xsf[2], left=nan)", "f2 extrapolates on the right"),
    ("C05", "silent", X, "f2 = numpy.interp(energy, xsf[0], xsf[2], left=nan, right=nan)", "f2 = numpy.interp(energy, xsf[0], xsf[2], right=nan, left=nan)", "keywords reordered"),
    ("C05", "fire", X, "xsf[0] *= 0.001  # Use keV in table rather than eV", "xsf[0] *= 0.01", "wrong unit factor"),
    ("C05", "silent", X, "xsf[0] *= 0.001  # Use keV in table rather than eV", "xsf[0] /= 1000", "same factor"),
    ("C20", "fire", CM, "            b = list(map(float, w1[6:11]))\n            c = float(w1[5])", "            b = list(map(float, w1[5:10]))\n            c = float(w1[10])", "c and b columns shifted"),
    ("C05", "fire", X, "    return 1 - wavelength**2/(2*pi)*(f1 + f2*1j)*1e-6", "    return 1 - wavelength**2/(2*pi)*(f1 - f2*1j)*1e-6", "sign of the absorption term"),
    ("C05", "fire", "periodictable/constants.py", "electron_radius = 2.8179402894e-15", "electron_radius = 2.8197402894e-15", "transposed digits in r_e"),
    # ---- C06
    ("C06", "fire", M, "        isotope, m, p, avg = line.split(',')", "        isotope, m, avg, p = line.split(',')", "columns swapped"),
    ("C06", "silent", M, "        isotope, m, p, avg = line.split(',')", "        isotope, m, pct, avg = line.split(',')", "local renamed"),
    ("C06", "fire", M, "    # Flush the final element, which has no following header to trigger it.\n    if z:", "    if False:", "final flush removed"),
    ("C06", "fire", D, "        return iso_el.element._density * (iso_el.mass/iso_el.element.mass)", "        return iso_el.element._density * (iso_el.element.mass/iso_el.mass)", "inverse mass ratio"),
    ("C06", "fire", U, "            return (high+low)/2, (high-low)/sqrt(12)", "            return (high+low)/2, (high-low)/sqrt(3)", "wrong width of the rectangular distribution"),
    # ---- C07
    ("C07", "fire", N, "        nsf.coherent, nsf.incoherent, nsf.total, nsf.absorption \\\n", "        nsf.incoherent, nsf.coherent, nsf.total, nsf.absorption \\\n", "coherent/incoherent swapped"),
    ("C07", "fire", N, "return parse_uncertainty(str.replace('<','').replace('*',''))[0]", "return parse_uncertainty(str.replace('<',''))[0]", "'*' no longer stripped"),
    ("C07", "fire", N, "            if element.neutron is missing:\n                element.neutron = nsf", "            element.neutron = nsf", "fallback without its guard"),
    ("C07", "silent", N, "        p = columns[1]\n        spin = columns[2]", "        p, spin = columns[1], columns[2]", "tuple assignment"),
    # ---- C08
    ("C08", "fire", C, "    return _get_table(table)[Z][n].ion[c]", "    return _get_table(table)[Z][c].ion[n]", "restorer arguments swapped"),
    ("C08", "silent", C, "def _make_isotope_ion(table, Z, n, c):\n    return _get_table(table)[Z][n].ion[c]", "def _make_isotope_ion(table, Z, A, q):\n    return _get_table(table)[Z][A].ion[q]", "parameters renamed"),
    ("C08", "fire", N, "            isotope = element.add_isotope(isotope_number)", "            isotope = Isotope(element, isotope_number)", "a loader constructs its own isotope"),
    ("C08", "fire", C, "        if number not in self._isotopes:\n            self._isotopes[number] = Isotope(self, number)", "        self._isotopes[number] = Isotope(self, number)", "add_isotope replaces the cached isotope"),
    # ---- C09
    ("C09", "fire", I_, "core.delayed_load(['neutron'], _load_neutron, isotope=True)", "core.delayed_load(['neutron'], _load_neutron)", "isotope flag dropped"),
    ("C09", "silent", I_, "core.delayed_load(['neutron'], _load_neutron, isotope=True)", "core.delayed_load(['neutron'], _load_neutron, True, True)", "flags positional"),
    ("C09", "fire", X, '    for row in spectral_lines_data.split(\'\\n\'):\n        el, K_alpha, K_beta1 = row.split()\n        el = table.symbol(el)\n        el.K_alpha = float(K_alpha)\n        el.K_beta1 = float(K_beta1)\n    # Set the units after the per-element values: if the delayed-load\n    # properties are still pending, the first assignment above clears all\n    # of them, including the units.\n    Element.K_alpha_units = "angstrom"\n    Element.K_beta1_units = "angstrom"\n', '    Element.K_alpha_units = "angstrom"\n    Element.K_beta1_units = "angstrom"\n    for row in spectral_lines_data.split(\'\\n\'):\n        el, K_alpha, K_beta1 = row.split()\n        el = table.symbol(el)\n        el.K_alpha = float(K_alpha)\n        el.K_beta1 = float(K_beta1)\n', "units written before the per-element values (cleared by the pending setter on a direct call)"),
    ("C09", "silent", CR, "    table[0].covalent_radius = 0.20\n    Element.covalent_radius_units = 'angstrom'\n    Element.covalent_radius = None\n    Element.covalent_radius_uncertainty = None\n",
     "    Element.covalent_radius_units = 'angstrom'\n    Element.covalent_radius = None\n    Element.covalent_radius_uncertainty = None\n    table[0].covalent_radius = 0.20\n", "class defaults written before the first instance write (all three names are overwritten: harmless)"),
    ("C05", "fire", CM, "        rvflat[stolflat > self.stollimit] = numpy.nan", "        rvflat[stolflat >= self.stollimit] = numpy.nan",
     "the fitted range loses its closed end (f0 at exactly Q = 24 pi becomes NaN)"),
    ("C14", "fire", A, "                precision_correction = W * (exp(-U)-exp(-V))", "                precision_correction = -W * exp(-U)*expm1(U-V)",
     "algebraically the same, but expm1(U-V) overflows for strongly absorbing targets at high fluence and long exposure"),
    ("C14", "silent", A, "                precision_correction = W * (exp(-U)-exp(-V))", "                precision_correction = W * exp(-U) - W * exp(-V)",
     "distributed product, every exponent still non-positive"),
    ("C15", "fire", A, "        initial = max(-log(target/Ia)/La for Ia, La in data if Ia > 0)", "        initial = max(-log(target/Ia)/La for Ia, La in data)", "the start value divides by the activity of every product, zero ones included (reverse of the fix)"),
    ("C15", "silent", A, "        initial = max(-log(target/Ia)/La for Ia, La in data if Ia > 0)", "        initial = max(log(Ia/target)/La for Ia, La in data if Ia > 0)", "same start value, other spelling"),
    # ---- C10
    ("C10", "fire", CS, "        table[Z].crystal_structure = dict(struct) if struct is not None else None", "        table[Z].crystal_structure = struct", "module-level dicts shared again"),
    ("C10", "fire", C, "            if el.table != PUBLIC_TABLE_NAME:\n                loader()\n", "", "the setter no longer loads the public table when a private table is written first (reverse of the fix)"),
    ("C10", "silent", C, "            if el.table != PUBLIC_TABLE_NAME:\n                loader()\n", "            if not el.table == PUBLIC_TABLE_NAME:\n                loader()\n", "same test, other spelling"),
    ("C10", "fire", N, "    missing = _MISSING\n", "    missing = Neutron()\n", "a new default record per nsf.init (reverse of the fix)"),
    ("C10", "fire", F, "    pairs = [(formula(args[i], table=table), args[i+1])\n             for i in range(0, len(args), 2)]\n    result = _mix_by_weight_pairs(pairs)",
     "    pairs = [(formula(args[i]), args[i+1])\n             for i in range(0, len(args), 2)]\n    result = _mix_by_weight_pairs(pairs)", "table= dropped"),
    ("C10", "silent", F, "    pairs = [(formula(args[i], table=table), args[i+1])\n             for i in range(0, len(args), 2)]\n    result = _mix_by_weight_pairs(pairs)",
     "    pairs = [(formula(args[i], None, None, None, table), args[i+1])\n             for i in range(0, len(args), 2)]\n    result = _mix_by_weight_pairs(pairs)", "table passed positionally"),
    ("C10", "fire", X, "    def _cache_xray(el):\n        if '_xray' not in el.__dict__ and isinstance(el, (Element, Ion)):\n            el._xray = Xray(el)\n        return el._xray",
     "    xray_objects = {}\n    def _cache_xray(el):\n        if el not in xray_objects:\n            xray_objects[el] = Xray(el)\n        return xray_objects[el]", "Xray objects kept in a map local to each init call"),
    # ---- C11
    ("C11", "fire", F, "        scale = min(q*f.density/f.mass for f, q in pairs)\n        for f, q in pairs:\n            result += ((q*f.density/f.mass)/scale) * f",
     "        scale = min(q*f.density/f.mass for f, q in pairs)\n        for f, q in pairs:\n            result += ((q/f.density/f.mass)/scale) * f", "density divides"),
    ("C11", "silent", F, "            result += ((q/f.mass)/scale) * f", "            result += (q/(f.mass*scale)) * f", "regrouped quotient"),
    ("C11", "fire", F, "LENGTH_UNITS = {'nm': 1e-9, 'um': 1e-6, 'mm': 1e-3, 'cm': 1e-2}", "LENGTH_UNITS = {'nm': 1e-9, 'um': 1e-5, 'mm': 1e-3, 'cm': 1e-2}", "um off by 10"),
    ("C11", "silent", F, "LENGTH_UNITS = {'nm': 1e-9, 'um': 1e-6, 'mm': 1e-3, 'cm': 1e-2}", "LENGTH_UNITS = {'nm': 1e-9, 'um': 0.000001, 'mm': 1e-3, 'cm': 1e-2}", "same value"),
    ("C11", "fire", F, "        piece = tokens[1:-1:2] + [tokens[-1]]\n        fract = [float(v) for v in tokens[:-1:2]]\n        fract.append(100-sum(fract))\n        #print piece, fract\n        if len(piece) != len(fract):\n            raise ValueError(\"Missing base component of mixture \"+string)",
     "        piece = tokens[1:-1:2] + [tokens[-1]]\n        fract = [float(v) for v in tokens[:-1:2]]\n        fract.append(100-fract[0])\n        #print piece, fract\n        if len(piece) != len(fract):\n            raise ValueError(\"Missing base component of mixture \"+string)", "remainder ignores later parts (by volume)"),
    # ---- C12
    ("C12", "fire", F, "        self.density = natural_density / self.natural_mass_ratio()", "        self.density = natural_density * self.natural_mass_ratio()", "setter multiplies"),
    ("C12", "silent", F, "        self.density = natural_density / self.natural_mass_ratio()", "        ratio_ = self.natural_mass_ratio()\n        self.density = natural_density / ratio_", "temporary"),
    ("C12", "fire", F, "bcc=pi*sqrt(3)/8", "bcc=pi*sqrt(3)/6", "packing factor"),
    ("C12", "silent", F, "bcc=pi*sqrt(3)/8", "bcc=sqrt(3)*pi/8", "commuted"),
    ("C12", "fire", F, "        elif tokens[-1] == 'n':\n            return Formula(structure=_immutable(tokens[:-2]), natural_density=tokens[-2])", "        elif tokens[-1] == 'i':\n            return Formula(structure=_immutable(tokens[:-2]), natural_density=tokens[-2])", "n/i tags swapped"),
    # ---- C13
    ("C13", "fire", F, "                ret += '{'+value+sign+'}'", "                ret += '{'+sign+value+'}'", "charge tag order"),
    ("C13", "silent", F, "                ret += '{'+value+sign+'}'", "                ret += '{%s%s}'%(value, sign)", "formatted differently"),
    ("C13", "fire", F, "            if count != 1:\n                ret += _str_count(count)", "            if count != 1:\n                ret += \"%g\"%count", "exponent notation back"),
    ("C13", "fire", F, "                piece = \"(%s)%s\"%(_str_atoms(fragment), _str_count(count))", "                piece = \"%s%s\"%(_str_atoms(fragment), _str_count(count))", "group parentheses dropped"),
    # ---- C14
    ("C14", "fire", A, "lam*expm1(-parent_lam*exposure) - parent_lam*expm1(-lam*exposure))", "parent_lam*expm1(-parent_lam*exposure) - lam*expm1(-lam*exposure))", "rates swapped in the 'b' branch"),
    ("C14", "silent", A, "lam*expm1(-parent_lam*exposure) - parent_lam*expm1(-lam*exposure))", "lam*(exp(-parent_lam*exposure)-1) - parent_lam*(exp(-lam*exposure)-1))", "expm1 expanded"),
    ("C14", "fire", A, "return 1./self.Cd_ratio if self.Cd_ratio >= 1 else 0", "return 1./self.Cd_ratio if self.Cd_ratio > 1 else 0", "boundary of the Cd guard"),
    ("C14", "fire", A, "                precision_correction = W * (V-U)*(1-(V+U)/2)", "                precision_correction = W * (V-U+(V+U)/2)", "old small-argument arm"),
    ("C14", "fire", A, "        result[ai] = [activity*exp(-lam*Ti) for Ti in rest_times]", "        result[ai] = [activity*exp(-parent_lam*Ti) if ai.reaction == 'b' else activity*exp(-lam*Ti) for Ti in rest_times]", "rest decay with the parent's half-life"),
    # ---- C15
    ("C15", "fire", A, "        df = lambda t: sum(-La*Ia*exp(-La*t) for Ia, La in data)", "        df = lambda t: sum(La*Ia*exp(-La*t) for Ia, La in data)", "derivative loses its sign"),
    ("C15", "silent", A, "        df = lambda t: sum(-La*Ia*exp(-La*t) for Ia, La in data)", "        df = lambda t: -sum(La*Ia*exp(-La*t) for Ia, La in data)", "minus factored out"),
    ("C15", "fire", A, "        if percent_error > 0.1:", "        if percent_error > 10:", "acceptance test loosened"),
    ("C15", "fire", A, "        if f(0) <= 0:\n            return 0", "        if f(1) <= 0:\n            return 0", "early exit one hour after removal"),
    ("C15", "fire", A, "            self._removal_activity[el] = self._removal_activity.get(el, 0) + activity_el[0]", "            self._removal_activity[el] = self._removal_activity.get(el, 0) + activity_el[1]", "removal activity taken from the first requested rest time"),
    ("C15", "fire", A, "        self.activity = {}\n        self._removal_activity = {}\n        self.environment = environment", "        self.activity = {}\n        self.environment = environment", "removal activities accumulate over repeated activations"),
    ("C15", "fire", A, '        data = [(Ia, LN2/a.Thalf_hrs) for a, Ia in self._removal_activity.items()]\n        # Build functions for total activity at time T - target and its derivative\n        # This will be zero when activity is at target\n        f = lambda t: sum(Ia*exp(-La*t) for Ia, La in data) - target\n        df = lambda t: sum(-La*Ia*exp(-La*t) for Ia, La in data)\n', '        min_rest, To = min(enumerate(self.rest_times), key=lambda x: x[1])\n        data = [(Ia[min_rest], LN2/a.Thalf_hrs) for a, Ia in self.activity.items()]\n        f = lambda t: sum(Ia*exp(-La*(t-To)) for Ia, La in data) - target\n        df = lambda t: sum(-La*Ia*exp(-La*(t-To)) for Ia, La in data)\n', "activity at removal extrapolated back from the smallest rest time (overflow; reverse of the fix)"),
    ("C15", "silent", A, "        rest_times = [0] + list(rest_times)", "        rest_times = (0,) + tuple(rest_times)", "tuple instead of list"),
    # ---- C16
    ("C16", "fire", N, "        (H2O_sld[0] - Hsld[0]) / (Dsld[0] - Hsld[0] + H2O_sld[0] - D2O_sld[0]))", "        (H2O_sld[0] - Dsld[0]) / (Dsld[0] - Hsld[0] + H2O_sld[0] - D2O_sld[0]))", "numerator"),
    ("C16", "silent", N, "        (H2O_sld[0] - Hsld[0]) / (Dsld[0] - Hsld[0] + H2O_sld[0] - D2O_sld[0]))", "        (Hsld[0] - H2O_sld[0]) / (Hsld[0] - Dsld[0] + D2O_sld[0] - H2O_sld[0]))", "both signs flipped"),
    ("C16", "fire", N, '    D2O_sld = neutron_sld("D2O@0.9982n", **sld_args)', '    D2O_sld = neutron_sld("D2O@0.9982", **sld_args)', "heavy water at the light-water isotopic density"),
    ("C16", "fire", N, "    labile_H, H, D = table.H[1], table.H, table.D", "    labile_H, H, D = table.H[1], table.D, table.H", "H and D roles swapped"),
    # ---- C17
    ("C17", "fire", N, "        sigma_c = _4PI_100 * abs(b_c)**2 # 1 barn = 1e-2 fm^2\n        sigma_i = np.maximum(sigma_s - sigma_c, 0.) # 1 barn = 1 barn",
     "        sigma_c = _4PI_100 * b_c.real**2 # 1 barn = 1e-2 fm^2\n        sigma_i = np.maximum(sigma_s - sigma_c, 0.) # 1 barn = 1 barn", "imaginary part forgotten in one copy"),
    ("C17", "silent", N, "        sigma_c = _4PI_100 * abs(b_c)**2 # 1 barn = 1e-2 fm^2\n        sigma_i = np.maximum(sigma_s - sigma_c, 0.) # 1 barn = 1 barn",
     "        sigma_c = _4PI_100 * abs(b_c)*abs(b_c) # 1 barn = 1e-2 fm^2\n        sigma_i = np.maximum(sigma_s - sigma_c, 0.) # 1 barn = 1 barn", "square written as product"),
    ("C17", "fire", N, "        b_c = np.sum(multiweights*bc_parts, axis=0)", "        b_c = np.sum(multiweights*bc_parts)", "sum over both axes"),
    # ---- C18
    ("C18", "fire", FA, "        formula, cell_volume, charge = (1/n) * formula, cell_volume/n, charge/n", "        formula, cell_volume, charge = (1/n) * formula, cell_volume, charge/n", "volume not averaged"),
    ("C18", "silent", FA, "        formula, cell_volume, charge = (1/n) * formula, cell_volume/n, charge/n", "        inv_ = 1/n\n        formula, cell_volume, charge = inv_ * formula, cell_volume*inv_, charge*inv_", "1/n computed once"),
    ("C18", "fire", FA, "            seq.append(line)\n    if name:\n        yield (name, ''.join(seq))", "            seq.append(line)", "last record not flushed"),
    ("C18", "fire", FA, "        charge = sum(p.charge for p in parts)\n        structure = []", "        charge = parts[0].charge if parts else 0\n        structure = []", "charge of the first residue only"),
    # ---- C19
    ("C19", "fire", F, "            a.isotope if isisotope(a) else 0,\n            a.charge)", "            0,\n            a.charge)", "key drops the isotope"),
    ("C19", "silent", F, "    return ((\"0\" if a.symbol in (\"C\", \"H\") else \"1\"),", "    return ((0 if a.symbol in (\"C\", \"H\") else 1),", "integer class instead of string"),
    ("C19", "fire", F, "    return tuple((atoms[el], el) for el in sorted(atoms.keys(), key=_hill_key))", "    return [(atoms[el], el) for el in sorted(atoms.keys(), key=_hill_key)]", "list structure back"),
    # ---- C20
    ("C20", "fire", CR, "        dr = float(fields[3])*0.01", "        dr = float(fields[4])*0.01", "wrong column"),
    ("C20", "silent", CR, "        r = float(fields[2])\n        dr = float(fields[3])*0.01", "        col2, col3 = fields[2], fields[3]\n        r = float(col2)\n        dr = float(col3)*0.01", "locals first"),
    ("C20", "fire", MG, "            symbol = state[0]\n            charge = int(state[1])", "            symbol = state[0:2]\n            charge = int(state[1])", "symbol slice too wide"),
    ("C20", "fire", CS, "    for Z, struct in enumerate(crystal_structures):", "    for Z, struct in enumerate(crystal_structures, 1):", "list index off by one"),
    ("C20", "fire", X, "        el.K_alpha = float(K_alpha)\n        el.K_beta1 = float(K_beta1)", "        el.K_alpha = float(K_beta1)\n        el.K_beta1 = float(K_alpha)", "emission columns swapped"),
    ("C20", "silent", MG, "            symbol = state[0:2].capitalize()\n            charge = int(state[2])", "            symbol = state[:2].capitalize()\n            charge = int(state[2:3])", "slices spelled differently"),
]
