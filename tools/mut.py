#!/usr/bin/env python3-vt
"""Dev helper: run a check on a scratch copy of /repo with one textual edit.
usage: mut.py PROP FILE OLD NEW [tier]"""
import shutil, subprocess, sys, tempfile, os
prop, rel, old, new = sys.argv[1:5]
tier = sys.argv[5] if len(sys.argv) > 5 else "quick"
d = tempfile.mkdtemp(prefix="ptmut-")
try:
    shutil.copytree("/repo/periodictable", d + "/periodictable", ignore=shutil.ignore_patterns("__pycache__"))
    os.makedirs(d + "/doc/sphinx/guide")
    shutil.copy("/repo/doc/sphinx/guide/formula_grammar.rst", d + "/doc/sphinx/guide/")
    p = os.path.join(d, rel)
    s = open(p, encoding="latin-1").read()
    assert s.count(old) >= 1, "pattern not found"
    open(p, "w", encoding="latin-1").write(s.replace(old, new, 1))
    r = subprocess.run(["/verif/check", prop, tier, "--root", d, "--no-selftest"], capture_output=True, text=True)
    print(r.stdout[-3000:], r.stderr[-2000:], "exit", r.returncode)
finally:
    shutil.rmtree(d)
