#!/usr/bin/env python3-vt
"""Regenerate MANIFEST.json from the rule modules' metadata."""
import importlib, json, sys
from pathlib import Path
V = Path(__file__).resolve().parent.parent
sys.path.insert(0, str(V))
props = [json.loads(l) for l in (V / "properties.jsonl").read_text().splitlines() if l.strip()]
NA = json.loads((V / "not_applicable.json").read_text()) if (V / "not_applicable.json").exists() else {}
checks, na = [], []
for p in props:
    pid = p["id"]
    if pid in NA:
        na.append({"property_id": pid, "reason": NA[pid]})
        continue
    try:
        m = importlib.import_module(f"rules.{pid}")
    except ModuleNotFoundError:
        na.append({"property_id": pid, "reason": "rule set not built yet (work in progress; see DESIGN.md section 4 for the planned static rules)"})
        continue
    checks.append({
        "property_id": pid,
        "quick_cmd": f"./check {pid} quick",
        "thorough_cmd": f"./check {pid} thorough",
        "evidence_file": f"/verif/evidence/{pid}.json",
        "replay_cmd_template": f"./check {pid} --replay {{path}}",
        "engine": "ptstat",
        "level_claimed": {
            "category": "other",
            "text": getattr(m, "LEVEL_TEXT", m.EXPLANATION),
            "design_ref": f"DESIGN.md section 4, {pid}",
        },
        "level_note": getattr(m, "LEVEL_NOTE", "Trusted: CPython ast/tokenize, sympy's algebra, the interpreter's model of Python "
                              "attribute lookup and of the numpy/math functions it maps to algebra; the transcription of the "
                              "documented equations in /verif/spec."),
        "technique": getattr(m, "TECHNIQUE", "static analysis: value-graph identities over the AST"),
    })
man = {
    "version": 1,
    "setup_cmd": "python3-vt -c \"import sympy, networkx, lark, jsonschema\"",
    "hooks": {"guard": "PERIODICTABLE_VERIF", "enable": "none needed: the checks only parse /repo's working tree",
              "baseline_off_cmd": "cd /repo && /venv/bin/python -m pytest -ra -q -p no:cacheprovider --timeout=900 --continue-on-collection-errors",
              "source_commits": [], "add_only": True},
    "engines": [{"name": "ptstat", "path": "/verif/ptstat", "serves_properties": [c["property_id"] for c in checks],
                 "kind_free_text": "repository-specific static analyser: AST source model and call graph, constant folder / embedded-table reader, "
                                   "value-graph builder (abstract interpretation over sympy expressions with phi merging, class model derived from core.py), "
                                   "regular-language kernel, lazy-loader typestate machine, grammar extractor"}],
    "checks": checks,
    "not_applicable": na,
    "notes": "All checks are static: they parse /repo's current working tree (python sources, embedded tables, data files, the grammar guide) and never import or run the package. "
             "Exit 0 = all rule instances discharged or listed in known_findings.json; 1 = VIOLATION; 2 = ANALYSIS-ERROR (anchor vanished / unmodelled construct).",
}
(V / "MANIFEST.json").write_text(json.dumps(man, indent=1))
print(len(checks), "checks;", len(na), "not applicable")
