#!/bin/sh
# run every quick check (no self-test, no evidence) against ROOT (default /repo) in parallel; print "ID exit" per check
ROOT=${1:-/repo}
cd /verif || exit 2
for p in C01 C02 C03 C04 C05 C06 C07 C08 C09 C10 C11 C12 C13 C14 C15 C16 C17 C18 C19 C20; do
  ( ./check $p quick --root "$ROOT" --no-selftest --no-evidence > /dev/null 2>&1; echo "$p $?" ) &
done 2>/dev/null
wait
