#!/usr/bin/env python3
"""Re-verify a filed seed against /repo HEAD (3-way apply), rewrite its patch against HEAD, or retire it.
usage: seed_refresh.py SEED"""
import json, os, shutil, subprocess, sys, tempfile
seed = sys.argv[1]
d = f"/verif/seeded/{seed}"
wt = tempfile.mkdtemp(prefix="seedrefresh-"); os.rmdir(wt)
def run(cmd, **kw):
    return subprocess.run(cmd, shell=True, capture_output=True, text=True, **kw)
try:
    assert run(f"git -C /repo worktree add -q --detach {wt} HEAD").returncode == 0
    env = dict(os.environ, PYTHONPATH=wt)
    demo = f"cd {wt} && /venv/bin/python {d}/demo.py"
    clean_ok = run(demo, env=env).returncode == 0
    a = run(f"git -C {wt} apply --3way {d}/patch.diff")
    applies = a.returncode == 0 and "with conflicts" not in (a.stderr + a.stdout)
    suite = demo_fails = None
    if applies:
        suite = run(f"cd {wt} && /venv/bin/python -m pytest -q -p no:cacheprovider --timeout=900 2>&1 | tail -1").stdout.strip()
        dr = run(demo, env=env)
        demo_fails = dr.returncode != 0
    ok = clean_ok and applies and suite and "42 passed" in suite and "failed" not in suite and demo_fails
    print(f"{seed}: clean_demo_ok={clean_ok} applies={applies} suite={suite!r} demo_fails={demo_fails} => {'KEEP' if ok else 'RETIRE'}")
    meta = json.load(open(d + "/meta.json"))
    head = run("git -C /repo rev-parse --short HEAD").stdout.strip()
    if ok:
        newp = run(f"git -C {wt} diff HEAD").stdout
        open(d + "/patch.diff", "w").write(newp)
        meta["verified"].update({"base_commit": head, "suite_with_patch": suite, "demo_with_patch": f"exit {dr.returncode}", "demo_on_clean_tree": "exit 0"})
        json.dump(meta, open(d + "/meta.json", "w"), indent=1)
    else:
        os.makedirs("/verif/seeded/_retired", exist_ok=True)
        meta["retired"] = {"at_commit": head, "clean_demo_ok": clean_ok, "applies": applies, "suite": suite, "demo_fails": demo_fails,
                           "reason": "no longer a violation on (or no longer applicable to) the repaired tree"}
        json.dump(meta, open(d + "/meta.json", "w"), indent=1)
        shutil.move(d, f"/verif/seeded/_retired/{seed}")
finally:
    run(f"git -C /repo worktree remove --force {wt}")
