#!/usr/bin/env python3
"""Blind-spot search by automatic mutation (development aid, not a registered check).

Phase 1 (gen)   : enumerate single-node AST mutants of the package (operators, constants, negated tests, swapped
                  arguments, deleted statements), spliced into the original text so that everything else stays byte-identical.
Phase 2 (tests) : run the pinned suite on each mutant in a scratch copy; mutants that fail it are of no interest.
Phase 3 (checks): run every check (quick, no self-test) on the survivors; a survivor that no check reports is a candidate
                  blind spot (or an equivalent mutant / code no property talks about) - to be triaged by hand.

usage: mutscan.py gen OUT.json [N] [SEED]
       mutscan.py tests OUT.json [JOBS]
       mutscan.py checks OUT.json [JOBS]
       mutscan.py report OUT.json
"""
import ast, glob, json, os, random, shutil, subprocess, sys, tempfile
from concurrent.futures import ThreadPoolExecutor

PKG = "/repo/periodictable"
SKIP_FUNCS = {"plot_xsf", "emission_table", "sld_table", "energy_dependent_table", "absorption_comparison_table", "coherent_comparison_table",
              "incoherent_comparison_table", "total_comparison_table", "compare", "_diff", "main", "demo", "test", "show_table", "fasta_table",
              "sld_plot", "table", "xray_sld_plot", "print_scattering", "cromermann_table", "list", "_make_isotope_ion", "data_files"}
SKIP_FILES = {"nsf_tables.py", "plot.py", "__main__.py"}

CMP = {ast.Lt: [ast.LtE, ast.Gt], ast.LtE: [ast.Lt], ast.Gt: [ast.GtE, ast.Lt], ast.GtE: [ast.Gt], ast.Eq: [ast.NotEq], ast.NotEq: [ast.Eq],
       ast.Is: [ast.IsNot], ast.IsNot: [ast.Is], ast.In: [ast.NotIn], ast.NotIn: [ast.In]}
BIN = {ast.Add: [ast.Sub], ast.Sub: [ast.Add], ast.Mult: [ast.Div], ast.Div: [ast.Mult], ast.Pow: [ast.Mult], ast.FloorDiv: [ast.Div],
       ast.Mod: [ast.Mult]}


def mutants_of(path):
    src = open(path, encoding="latin-1").read()
    tree = ast.parse(src)
    out = []
    lines = src.split("\n")
    offs = [0]
    for l in lines:
        offs.append(offs[-1] + len(l) + 1)

    def pos(n):
        # ast columns are utf-8 byte offsets; files here are ascii/latin-1 -> treat as characters
        return offs[n.lineno - 1] + n.col_offset, offs[n.end_lineno - 1] + n.end_col_offset

    def add(node, new_node, kind, fn):
        a, b = pos(node)
        try:
            text = ast.unparse(new_node)
        except Exception:
            return
        if isinstance(node, ast.expr):
            text = "(" + text + ")"
        out.append({"file": os.path.relpath(path, "/repo"), "func": fn, "line": node.lineno, "kind": kind, "a": a, "b": b,
                    "old": src[a:b][:80], "new": text})

    def walk(node, fn):
        for child in ast.iter_child_nodes(node):
            f2 = fn
            if isinstance(child, (ast.FunctionDef, ast.ClassDef)):
                f2 = (fn + "." if fn else "") + child.name
                if child.name in SKIP_FUNCS:
                    continue
            visit(child, f2)
            walk(child, f2)

    def visit(n, fn):
        import copy
        if isinstance(n, ast.Compare) and len(n.ops) == 1:
            for alt in CMP.get(type(n.ops[0]), []):
                m = copy.deepcopy(n); m.ops = [alt()]
                add(n, m, "cmp", fn)
        elif isinstance(n, ast.BinOp) and type(n.op) in BIN:
            if isinstance(n.op, ast.Mod) and isinstance(n.left, ast.Constant) and isinstance(n.left.value, str):
                return
            for alt in BIN[type(n.op)]:
                m = copy.deepcopy(n); m.op = alt()
                add(n, m, "binop", fn)
        elif isinstance(n, ast.BoolOp):
            m = copy.deepcopy(n); m.op = ast.Or() if isinstance(n.op, ast.And) else ast.And()
            add(n, m, "boolop", fn)
        elif isinstance(n, ast.UnaryOp) and isinstance(n.op, ast.Not):
            add(n, copy.deepcopy(n.operand), "not-removed", fn)
        elif isinstance(n, ast.UnaryOp) and isinstance(n.op, ast.USub) and not isinstance(n.operand, ast.Constant):
            add(n, copy.deepcopy(n.operand), "neg-removed", fn)
        elif isinstance(n, ast.Constant) and isinstance(n.value, bool):
            add(n, ast.Constant(not n.value), "bool", fn)
        elif isinstance(n, ast.Constant) and isinstance(n.value, (int, float)) and not isinstance(n.value, bool):
            v = n.value
            alts = [v + 1] if isinstance(v, int) else [v * 1.01 if v else 1.0]
            if v == 1:
                alts = [0, 2]
            elif v == 0:
                alts = [1]
            for a_ in alts:
                add(n, ast.Constant(a_), "const", fn)
        elif isinstance(n, ast.If):
            a, b = pos(n.test)
            out.append({"file": os.path.relpath(path, "/repo"), "func": fn, "line": n.lineno, "kind": "if-negated", "a": a, "b": b,
                        "old": src[a:b][:80], "new": "(not (" + src[a:b] + "))"})
        elif isinstance(n, ast.IfExp):
            m = copy.deepcopy(n); m.body, m.orelse = m.orelse, m.body
            add(n, m, "ifexp-swapped", fn)
        elif isinstance(n, ast.Call) and len(n.args) >= 2 and not any(isinstance(x, ast.Starred) for x in n.args[:2]):
            if ast.dump(n.args[0]) != ast.dump(n.args[1]):
                m = copy.deepcopy(n); m.args[0], m.args[1] = m.args[1], m.args[0]
                add(n, m, "args-swapped", fn)
        elif isinstance(n, (ast.Assign, ast.AugAssign)) or (isinstance(n, ast.Expr) and isinstance(n.value, ast.Call)):
            if fn and not (isinstance(n, ast.Expr) and isinstance(n.value, ast.Constant)):
                a, b = pos(n)
                out.append({"file": os.path.relpath(path, "/repo"), "func": fn, "line": n.lineno, "kind": "stmt-deleted", "a": a, "b": b,
                            "old": src[a:b][:80], "new": "pass"})
        elif isinstance(n, ast.Return) and n.value is not None and not (isinstance(n.value, ast.Constant) and n.value.value is None):
            a, b = pos(n.value)
            out.append({"file": os.path.relpath(path, "/repo"), "func": fn, "line": n.lineno, "kind": "return-none", "a": a, "b": b,
                        "old": src[a:b][:80], "new": "None"})
    walk(tree, "")
    return out


def apply(m, root):
    p = os.path.join(root, m["file"])
    s = open(p, encoding="latin-1").read()
    s = s[:m["a"]] + m["new"] + s[m["b"]:]
    open(p, "w", encoding="latin-1").write(s)
    try:
        compile(s, p, "exec")
        return True
    except SyntaxError:
        return False


def scratch():
    d = tempfile.mkdtemp(prefix="mutscan-")
    shutil.copytree("/repo", d + "/r", ignore=shutil.ignore_patterns(".git", "__pycache__", "*.egg-info", ".coverage", ".pytest_cache"))
    return d


def main():
    cmd, path = sys.argv[1], sys.argv[2]
    if cmd == "gen":
        n = int(sys.argv[3]) if len(sys.argv) > 3 else 1000
        rng = random.Random(int(sys.argv[4]) if len(sys.argv) > 4 else 1)
        allm = []
        for f in sorted(glob.glob(PKG + "/*.py")):
            if os.path.basename(f) in SKIP_FILES:
                continue
            allm += mutants_of(f)
        # no mutants inside data literals at module level (tables are linted separately) or docstrings
        allm = [m for m in allm if m["func"]]
        rng.shuffle(allm)
        # stratify: at most 6 per function
        per, pick = {}, []
        for m in allm:
            k = (m["file"], m["func"])
            if per.get(k, 0) < 6:
                per[k] = per.get(k, 0) + 1
                pick.append(m)
            if len(pick) >= n:
                break
        for i, m in enumerate(pick):
            m["id"] = i
        json.dump({"mutants": pick, "total_available": len(allm)}, open(path, "w"), indent=0)
        print(len(pick), "of", len(allm))
    elif cmd == "tests":
        jobs = int(sys.argv[3]) if len(sys.argv) > 3 else 8
        data = json.load(open(path))

        def one(m):
            if "tests" in m:
                return m
            d = scratch()
            try:
                if not apply(m, d + "/r"):
                    m["tests"] = "syntax"
                    return m
                r = subprocess.run("/venv/bin/python -m pytest -q -x -p no:cacheprovider --timeout=120 2>&1 | tail -1", shell=True, cwd=d + "/r",
                                   capture_output=True, text=True, env=dict(os.environ, PYTHONPATH=d + "/r"), timeout=900)
                m["tests"] = "pass" if ("42 passed" in r.stdout and "failed" not in r.stdout) else "fail"
            except subprocess.TimeoutExpired:
                m["tests"] = "timeout"
            finally:
                shutil.rmtree(d, ignore_errors=True)
            return m
        with ThreadPoolExecutor(jobs) as ex:
            for k, m in enumerate(ex.map(one, data["mutants"])):
                if k % 50 == 0:
                    json.dump(data, open(path, "w"), indent=0)
                    print(k, flush=True)
        json.dump(data, open(path, "w"), indent=0)
        print({t: sum(1 for m in data["mutants"] if m.get("tests") == t) for t in ("pass", "fail", "syntax", "timeout")})
    elif cmd == "checks":
        jobs = int(sys.argv[3]) if len(sys.argv) > 3 else 4
        data = json.load(open(path))
        props = sorted(os.path.basename(p)[:-3] for p in glob.glob("/verif/rules/C[0-9][0-9].py"))

        def one(m):
            if m.get("tests") != "pass" or "checks" in m:
                return m
            d = scratch()
            try:
                apply(m, d + "/r")
                res = {}
                for p in props:
                    c = subprocess.run(["/verif/check", p, "quick", "--root", d + "/r", "--no-selftest", "--no-evidence"], capture_output=True, text=True)
                    if c.returncode:
                        first = [l for l in c.stdout.splitlines() if l.startswith(("FINDING", "ANALYSIS-ERROR"))]
                        res[p] = [c.returncode, first[0][:160] if first else ""]
                m["checks"] = res
            finally:
                shutil.rmtree(d, ignore_errors=True)
            return m
        with ThreadPoolExecutor(jobs) as ex:
            for k, m in enumerate(ex.map(one, data["mutants"])):
                if k % 25 == 0:
                    json.dump(data, open(path, "w"), indent=0)
                    print(k, flush=True)
        json.dump(data, open(path, "w"), indent=0)
    elif cmd == "report":
        data = json.load(open(path))
        ms = data["mutants"]
        surv = [m for m in ms if m.get("tests") == "pass"]
        done = [m for m in surv if "checks" in m]
        viol = [m for m in done if any(v[0] == 1 for v in m["checks"].values())]
        ae = [m for m in done if m not in viol and m["checks"]]
        silent = [m for m in done if not m["checks"]]
        print(f"mutants {len(ms)}; suite still green {len(surv)}; checked {len(done)}: reported {len(viol)}, analysis-error only {len(ae)}, silent {len(silent)}")
        for m in silent + ae:
            tag = "AE " if m["checks"] else "   "
            print(f"{tag}#{m['id']} {m['file']}:{m['line']} {m['func']} [{m['kind']}] {m['old']!r} -> {m['new'][:60]!r}"
                  + (f"  {list(m['checks'].items())[0]}" if m["checks"] else ""))


if __name__ == "__main__":
    main()
