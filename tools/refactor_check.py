#!/usr/bin/env python3
"""Verify a behaviour-preserving refactoring from a sub-agent and run every check against it (must stay silent).
usage: refactor_check.py SRC_DIR NAME      (SRC_DIR has patch.diff, equiv.py)  -> files it under /verif/seeded/refactors/NAME"""
import glob, hashlib, json, os, shutil, subprocess, sys, tempfile
src, name = sys.argv[1], sys.argv[2]
dst = f"/verif/seeded/refactors/{name}"
def run(cmd, **kw):
    return subprocess.run(cmd, shell=True, capture_output=True, text=True, **kw)
wt = tempfile.mkdtemp(prefix="rfverify-"); os.rmdir(wt)
try:
    assert run(f"git -C /repo worktree add -q --detach {wt} HEAD").returncode == 0
    env = dict(os.environ, PYTHONPATH=wt)
    eq = f"cd {wt} && /venv/bin/python {src}/equiv.py"
    c = run(eq, env=env)
    a = run(f"git -C {wt} apply --3way {src}/patch.diff")
    applies = a.returncode == 0
    suite = run(f"cd {wt} && /venv/bin/python -m pytest -q -p no:cacheprovider --timeout=900 2>&1 | tail -1").stdout.strip() if applies else ""
    p = run(eq, env=env) if applies else None
    same = applies and c.returncode == 0 and p.returncode == 0 and c.stdout == p.stdout and len(c.stdout) > 20
    ok = same and "42 passed" in suite and "failed" not in suite
    res = {}
    if ok:
        props = sorted(os.path.basename(x)[:-3] for x in glob.glob("/verif/rules/C[0-9][0-9].py"))
        import concurrent.futures as cf
        def one(pp):
            r = subprocess.run(["/verif/check", pp, "quick", "--root", wt, "--no-selftest"], capture_output=True, text=True)
            first = [l for l in r.stdout.splitlines() if l.startswith(("FINDING", "ANALYSIS-ERROR"))]
            return pp, r.returncode, (first[0][:240] if first else "")
        with cf.ThreadPoolExecutor(int(os.environ.get("RF_JOBS", "10"))) as ex:
            for pp, rc, first in ex.map(one, props):
                if rc != 0:
                    res[pp] = {"exit": rc, "first": first}
        os.makedirs(dst, exist_ok=True)
        newpatch = run(f"git -C {wt} diff HEAD").stdout
        open(dst + "/patch.diff", "w").write(newpatch)
        if os.path.realpath(src) != os.path.realpath(dst):
            shutil.copy(src + "/equiv.py", dst)
            if os.path.exists(src + "/notes.md"):
                shutil.copy(src + "/notes.md", dst)
        json.dump({"name": name, "verified": {"base_commit": run("git -C /repo rev-parse --short HEAD").stdout.strip(), "suite": suite,
                   "equiv_sha256": hashlib.sha256(c.stdout.encode()).hexdigest(), "equiv_identical": True},
                   "checks_not_silent": res}, open(dst + "/meta.json", "w"), indent=1)
    print(f"{name}: applies={applies} suite={suite!r} equiv_identical={same} => {'OK' if ok else 'REJECT'}; not silent: {json.dumps(res)[:600] if res else 'none'}")
finally:
    run(f"git -C /repo worktree remove --force {wt}")
