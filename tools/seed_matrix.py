#!/usr/bin/env python3
"""Run every built check against every filed seed (scratch copies, in parallel); write seeded/MATRIX.json.
usage: seed_matrix.py [own|all] [jobs]"""
import concurrent.futures as cf, glob, json, os, shutil, subprocess, sys, tempfile
mode = sys.argv[1] if len(sys.argv) > 1 else "all"
jobs = int(sys.argv[2]) if len(sys.argv) > 2 else 12
seeds = sorted(os.path.basename(p) for p in glob.glob("/verif/seeded/C*-*"))
import re
FILTER = os.environ.get("SEED_FILTER")          # regex: run only these seeds and merge into the existing matrix
if FILTER:
    seeds = [s for s in seeds if re.search(FILTER, s)]
props = sorted(os.path.basename(p)[:-3] for p in glob.glob("/verif/rules/C[0-9][0-9].py"))

def one(seed):
    d = f"/verif/seeded/{seed}"
    meta = json.load(open(d + "/meta.json"))
    tmp = tempfile.mkdtemp(prefix="seedmx-")
    res = {}
    try:
        shutil.copytree("/repo", tmp + "/r", ignore=shutil.ignore_patterns(".git", "__pycache__", "*.egg-info", ".coverage", "build"))
        r = subprocess.run(["git", "apply", d + "/patch.diff"], cwd=tmp + "/r", capture_output=True, text=True)
        if r.returncode:
            return seed, {"_error": "patch does not apply"}
        for p in (props if mode == "all" else [meta["property"]]):
            c = subprocess.run(["/verif/check", p, "quick", "--root", tmp + "/r", "--no-selftest"], capture_output=True, text=True)
            first = [l for l in c.stdout.splitlines() if l.startswith(("FINDING", "ANALYSIS-ERROR"))]
            res[p] = {"exit": c.returncode, "first": first[0][:220] if first else ""}
    finally:
        shutil.rmtree(tmp)
    return seed, res

# mode 'own': the check of the seed's own property only; 'all': every check; 'auto': own first, then every check for the
# seeds their own check did not report.  Results are merged into the existing matrix and written as they arrive.
out = json.load(open("/verif/seeded/MATRIX.json")) if os.path.exists("/verif/seeded/MATRIX.json") else {}
out = {k: v for k, v in out.items() if os.path.isdir(f"/verif/seeded/{k}")}


def save():
    json.dump(out, open("/verif/seeded/MATRIX.json.tmp", "w"), indent=1)
    os.replace("/verif/seeded/MATRIX.json.tmp", "/verif/seeded/MATRIX.json")


passes = [("own", seeds)] if mode in ("own", "auto") else [("all", seeds)]
if mode == "auto":
    passes.append(("all", None))
for pmode, todo in passes:
    if todo is None:
        todo = [s for s in seeds if not (isinstance(out.get(s, {}).get(s.split("-")[0]), dict) and out[s][s.split("-")[0]].get("exit") == 1)]
        print(f"second pass (all checks) for {len(todo)} seeds", flush=True)
    mode = pmode
    with cf.ThreadPoolExecutor(jobs) as ex:
        for n_, (seed, res) in enumerate(ex.map(one, todo)):
            if pmode == "own" and isinstance(out.get(seed), dict) and "_error" not in res:
                merged = {k: v for k, v in out[seed].items() if k != "_error"}
                merged.update(res)
                res = merged
            out[seed] = res
            if n_ % 10 == 9:
                save()
            caught = [p for p, r in res.items() if isinstance(r, dict) and r.get("exit") == 1]
            errs = [p for p, r in res.items() if isinstance(r, dict) and r.get("exit") == 2]
            print(f"{seed}: caught by {caught or '-'}" + (f"; analysis-error in {errs}" if errs else ""), flush=True)
save()
missed = [s for s, r in sorted(out.items()) if not any(isinstance(x, dict) and x.get("exit") == 1 for x in r.values())]
print("MISSED:", missed)
