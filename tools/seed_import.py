#!/usr/bin/env python3
"""Verify a sub-agent's seeded change in a scratch worktree and file it under /verif/seeded/.
usage: seed_import.py CXX K   (reads /tmp/seed/out/CXX/K)"""
import json, os, shutil, subprocess, sys, tempfile
pid, k = sys.argv[1], sys.argv[2]
rnd = int(os.environ.get("SEED_ROUND", "1"))
src = f"/tmp/seed/out{'' if rnd == 1 else rnd}/{pid}/{k}"
dst = f"/verif/seeded/{pid}-{int(k) + {1: 0, 2: 3, 3: 6, 4: 10, 5: 14, 6: 18, 7: 22, 8: 25, 9: 28, 10: 31, 11: 34}[rnd]}"
if not os.path.exists(src + "/patch.diff"):
    sys.exit(f"{src}: no patch")
wt = tempfile.mkdtemp(prefix="seedverify-")
os.rmdir(wt)
def run(cmd, **kw):
    return subprocess.run(cmd, shell=True, capture_output=True, text=True, **kw)
try:
    r = run(f"git -C /repo worktree add -q --detach {wt} HEAD")
    assert r.returncode == 0, r.stderr
    env = dict(os.environ, PYTHONPATH=wt)
    demo = f"cd {wt} && /venv/bin/python {src}/demo.py"
    c = run(demo, env=env)
    clean_ok = c.returncode == 0
    a = run(f"git -C {wt} apply {src}/patch.diff")
    applies = a.returncode == 0
    t = run(f"cd {wt} && /venv/bin/python -m pytest -q -p no:cacheprovider --timeout=900 2>&1 | tail -1")
    suite = t.stdout.strip()
    suite_ok = "42 passed" in suite and "failed" not in suite
    d = run(demo, env=env)
    demo_fails = d.returncode != 0
    ok = clean_ok and applies and suite_ok and demo_fails
    print(f"{os.path.basename(dst)}: clean_demo_ok={clean_ok} applies={applies} suite='{suite}' demo_fails_with_patch={demo_fails} => {'KEEP' if ok else 'REJECT'}")
    if ok:
        os.makedirs(dst, exist_ok=True)
        shutil.copy(src + "/patch.diff", dst)
        shutil.copy(src + "/demo.py", dst)
        notes = open(src + "/notes.md").read() if os.path.exists(src + "/notes.md") else ""
        open(dst + "/notes.md", "w").write(notes)
        files = [l[6:].strip() for l in open(src + "/patch.diff") if l.startswith("+++ b/")]
        meta = {"property": pid, "seed": os.path.basename(dst), "round": rnd, "files_changed": files,
                "needs_to_manifest": notes[:1500],
                "verified": {"base_commit": run("git -C /repo rev-parse --short HEAD").stdout.strip(),
                             "demo_on_clean_tree": "exit 0", "suite_with_patch": suite,
                             "demo_with_patch": f"exit {d.returncode}",
                             "demo_tail": (d.stdout + d.stderr)[-400:]},
                "how": "scratch git worktree of /repo HEAD; demo.py on clean tree; git apply patch.diff; full pinned pytest suite; demo.py again"}
        json.dump(meta, open(dst + "/meta.json", "w"), indent=1)
finally:
    run(f"git -C /repo worktree remove --force {wt}")
