#!/usr/bin/env python3
"""Re-run selected checks on every filed behaviour-preserving refactoring (all must stay silent).
usage: refactor_quick.py [JOBS] ; env RF_PROPS="C08 C14" (default: all), RF_FILTER=regex on the refactor name.
The refactorings were verified when they were filed (suite + differential probe); this only applies the patch to a scratch
copy of /repo's working tree and runs the checks."""
import concurrent.futures as cf, glob, json, os, re, shutil, subprocess, sys, tempfile
jobs = int(sys.argv[1]) if len(sys.argv) > 1 else 12
props = os.environ.get("RF_PROPS", "").split() or sorted(os.path.basename(x)[:-3] for x in glob.glob("/verif/rules/C[0-9][0-9].py"))
flt = re.compile(os.environ.get("RF_FILTER", "."))
names = sorted(n for n in os.listdir("/verif/seeded/refactors") if flt.search(n) and os.path.exists(f"/verif/seeded/refactors/{n}/patch.diff"))


def one(name):
    tmp = tempfile.mkdtemp(prefix="rfq-")
    try:
        shutil.copytree("/repo", tmp + "/r", ignore=shutil.ignore_patterns(".git", "__pycache__", "*.egg-info", ".coverage"))
        a = subprocess.run(["git", "apply", f"/verif/seeded/refactors/{name}/patch.diff"], cwd=tmp + "/r", capture_output=True, text=True)
        if a.returncode:
            return name, {"patch": a.stderr[:200]}
        res = {}
        for p in props:
            r = subprocess.run(["/verif/check", p, "quick", "--root", tmp + "/r", "--no-selftest", "--no-evidence"], capture_output=True, text=True)
            if r.returncode != 0:
                first = [l for l in r.stdout.splitlines() if l.startswith(("FINDING", "ANALYSIS-ERROR"))]
                res[p] = {"exit": r.returncode, "first": first[0][:240] if first else ""}
        return name, res
    finally:
        shutil.rmtree(tmp, ignore_errors=True)


bad = 0
with cf.ThreadPoolExecutor(jobs) as ex:
    for name, res in ex.map(one, names):
        if res:
            bad += 1
            print(name, json.dumps(res)[:500], flush=True)
print(f"{len(names)} refactorings x {len(props)} checks: {bad} not silent")
