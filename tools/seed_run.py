#!/usr/bin/env python3
"""Run checks against a seeded change applied to a scratch copy of /repo's working tree.
usage: seed_run.py SEED [PROP ...]   (default: the seed's own property; 'all' = every built check)"""
import glob, json, os, shutil, subprocess, sys, tempfile
seed = sys.argv[1]
d = f"/verif/seeded/{seed}"
meta = json.load(open(d + "/meta.json"))
props = sys.argv[2:] or [meta["property"]]
if props == ["all"]:
    props = sorted(os.path.basename(p)[:-3] for p in glob.glob("/verif/rules/C[0-9][0-9].py"))
tmp = tempfile.mkdtemp(prefix="seedrun-")
try:
    shutil.copytree("/repo", tmp + "/r", ignore=shutil.ignore_patterns(".git", "__pycache__", "*.egg-info", ".coverage"))
    r = subprocess.run(["git", "apply", d + "/patch.diff"], cwd=tmp + "/r", capture_output=True, text=True)
    if r.returncode:
        print(seed, "PATCH DOES NOT APPLY", r.stderr[:200]); sys.exit(3)
    res = {}
    for p in props:
        if not os.path.exists(f"/verif/rules/{p}.py"):
            res[p] = "unbuilt"; continue
        c = subprocess.run(["/verif/check", p, "quick", "--root", tmp + "/r", "--no-selftest"], capture_output=True, text=True)
        tag = {0: "silent", 1: "VIOLATION", 2: "ANALYSIS-ERROR"}.get(c.returncode, str(c.returncode))
        first = [l for l in c.stdout.splitlines() if l.startswith(("FINDING", "ANALYSIS-ERROR"))]
        res[p] = tag + (": " + first[0][:170] if first else "")
    print(seed, json.dumps(res, indent=1))
finally:
    shutil.rmtree(tmp)
