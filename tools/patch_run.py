#!/usr/bin/env python3
"""Run checks against /repo's working tree with an arbitrary patch applied (scratch copy, removed afterwards).
usage: patch_run.py PATCH.diff [PROP ...|all] [--full]   (--full prints every FINDING / ANALYSIS-ERROR line)"""
import glob, json, os, shutil, subprocess, sys, tempfile
args = [a for a in sys.argv[1:] if a != "--full"]
full = "--full" in sys.argv
patch = os.path.abspath(args[0])
props = args[1:] or ["all"]
if props == ["all"]:
    props = sorted(os.path.basename(p)[:-3] for p in glob.glob("/verif/rules/C[0-9][0-9].py"))
tmp = tempfile.mkdtemp(prefix="patchrun-")
try:
    shutil.copytree("/repo", tmp + "/r", ignore=shutil.ignore_patterns(".git", "__pycache__", "*.egg-info", ".coverage"))
    subprocess.run(["git", "init", "-q"], cwd=tmp + "/r")
    subprocess.run("git add -A && git -c user.email=a@b -c user.name=x commit -qm base", shell=True, cwd=tmp + "/r")
    r = subprocess.run(["git", "apply", "--3way", patch], cwd=tmp + "/r", capture_output=True, text=True)
    if r.returncode:
        print("PATCH DOES NOT APPLY", r.stderr[:300]); sys.exit(3)
    import concurrent.futures as cf
    def one(p):
        c = subprocess.run(["/verif/check", p, "quick", "--root", tmp + "/r", "--no-selftest", "--no-evidence"], capture_output=True, text=True)
        lines = [l for l in c.stdout.splitlines() if l.startswith(("FINDING", "ANALYSIS-ERROR"))]
        return p, c.returncode, lines
    with cf.ThreadPoolExecutor(8) as ex:
        for p, rc, lines in ex.map(one, props):
            tag = {0: "silent", 1: "VIOLATION", 2: "ANALYSIS-ERROR"}.get(rc, str(rc))
            if rc or full:
                print(p, tag)
                for l in (lines if full else lines[:2]):
                    print("   ", l[:260])
    print("done", os.path.basename(os.path.dirname(patch)))
finally:
    shutil.rmtree(tmp)
