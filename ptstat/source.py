"""K1 - source model of the ``periodictable`` package.

Everything is obtained with ``tokenize.open`` + ``ast.parse``; nothing is
imported or executed.  The model offers:

* modules by short name (``core``, ``formulas`` ...), their AST, text, digest;
* an index of every function (incl. methods, nested defs and lambdas bound to
  a name) by dotted qualified name, e.g. ``formulas.Formula.natural_mass_ratio``
  or ``formulas.formula_grammar.convert_element``;
* per-module import tables that resolve a local name to a package object
  (``from .core import isatom`` -> ``core.isatom``; ``from . import nsf``);
* a resolved call graph (networkx) over those functions.
"""
from __future__ import annotations

import ast
import hashlib
import os
import tokenize
from dataclasses import dataclass, field
from pathlib import Path

import networkx as nx

from . import AnalysisError

PKG = "periodictable"


@dataclass
class Module:
    name: str
    path: Path
    text: str
    tree: ast.Module
    digest: str
    # local name -> ("module", modname) | ("object", modname, objname) | ("external", dotted)
    imports: dict = field(default_factory=dict)
    # top-level bindings: name -> ast node (FunctionDef / ClassDef / value expr)
    bindings: dict = field(default_factory=dict)

    @property
    def lines(self):
        return self.text.split("\n")


@dataclass
class Func:
    qual: str            # e.g. "formulas.Formula.mass"
    module: str
    node: ast.AST        # FunctionDef or Lambda
    cls: str | None      # enclosing class name if a method
    parent: str | None   # enclosing function qual if nested
    decorators: tuple = ()

    @property
    def name(self):
        return self.qual.rsplit(".", 1)[-1]


def _digest(b: bytes) -> str:
    return hashlib.sha256(b).hexdigest()[:16]


class SourceModel:
    def __init__(self, root: str | os.PathLike):
        self.root = Path(root)
        self.pkgdir = self.root / PKG
        if not self.pkgdir.is_dir():
            raise AnalysisError(f"package directory {self.pkgdir} not found")
        self.modules: dict[str, Module] = {}
        self.funcs: dict[str, Func] = {}
        self.classes: dict[str, ast.ClassDef] = {}   # "core.Element" -> node
        self.consulted: dict[str, str] = {}          # relative path -> digest
        for path in sorted(self.pkgdir.glob("*.py")):
            self._load(path)
        for m in self.modules.values():
            self._index_imports(m)
            self._index_defs(m)
        self._callgraph = None

    # ------------------------------------------------------------------ loading
    def _load(self, path: Path):
        with tokenize.open(path) as fh:
            text = fh.read()
        try:
            tree = ast.parse(text, filename=str(path))
        except SyntaxError as exc:  # pragma: no cover
            raise AnalysisError(f"cannot parse {path}: {exc}")
        name = path.stem if path.stem != "__init__" else "__init__"
        m = Module(name=name, path=path, text=text, tree=tree,
                   digest=_digest(path.read_bytes()))
        self.modules[name] = m
        self.consulted[str(path.relative_to(self.root))] = m.digest

    def data_file(self, rel: str) -> str:
        """Return text of a data file below the repo root, recording its digest."""
        p = self.root / rel
        if not p.is_file():
            raise AnalysisError(f"data file {rel} not found")
        b = p.read_bytes()
        self.consulted[rel] = _digest(b)
        return b.decode("latin-1")

    def _index_imports(self, m: Module):
        for node in ast.walk(m.tree):
            if isinstance(node, ast.ImportFrom):
                if node.level >= 1 or (node.module or "").startswith(PKG):
                    mod = node.module or ""
                    if mod.startswith(PKG):
                        mod = mod[len(PKG):].lstrip(".")
                    for a in node.names:
                        local = a.asname or a.name
                        if mod == "":
                            # from . import nsf
                            m.imports[local] = ("module", a.name)
                        else:
                            m.imports[local] = ("object", mod, a.name)
                else:
                    for a in node.names:
                        local = a.asname or a.name
                        m.imports[local] = ("external", f"{node.module}.{a.name}")
            elif isinstance(node, ast.Import):
                for a in node.names:
                    local = a.asname or a.name.split(".")[0]
                    full = a.name if a.asname else a.name.split(".")[0]
                    if full.startswith(PKG + "."):
                        m.imports[local] = ("module", full[len(PKG) + 1:])
                    else:
                        m.imports[local] = ("external", full)

    def _index_defs(self, m: Module):
        def visit(body, prefix, cls, parent):
            for node in body:
                if isinstance(node, (ast.FunctionDef, ast.AsyncFunctionDef)):
                    qual = f"{prefix}.{node.name}"
                    decos = tuple(ast.unparse(d) for d in node.decorator_list)
                    # property setters share a name with the getter
                    if any(d.endswith(".setter") for d in decos):
                        qual += ".setter"
                    self.funcs[qual] = Func(qual, m.name, node, cls, parent, decos)
                    visit(node.body, qual, None, qual)
                elif isinstance(node, ast.ClassDef):
                    cq = f"{prefix}.{node.name}"
                    self.classes[cq] = node
                    visit(node.body, cq, node.name, parent)
                elif isinstance(node, (ast.If, ast.Try, ast.With, ast.For, ast.While)):
                    for fld in ("body", "orelse", "finalbody"):
                        visit(getattr(node, fld, []) or [], prefix, cls, parent)
                    for h in getattr(node, "handlers", []) or []:
                        visit(h.body, prefix, cls, parent)
                elif isinstance(node, ast.Assign) and isinstance(node.value, ast.Lambda):
                    for t in node.targets:
                        if isinstance(t, ast.Name):
                            qual = f"{prefix}.{t.id}"
                            self.funcs[qual] = Func(qual, m.name, node.value, cls, parent)
        visit(m.tree.body, m.name, None, None)
        m.history = {}          # name -> value nodes of its successive module-level assignments (X = ...; X = f(X))
        m.func_history = {}     # name -> the successive module-level definitions of a function name (def _ ...; def _ ...)
        for node in m.tree.body:
            if isinstance(node, ast.FunctionDef):
                m.func_history.setdefault(node.name, []).append(node)
            if isinstance(node, (ast.FunctionDef, ast.ClassDef)):
                m.bindings[node.name] = node
            elif isinstance(node, ast.Assign):
                for t in node.targets:
                    if isinstance(t, ast.Name):
                        m.bindings[t.id] = node.value
                        m.history.setdefault(t.id, []).append(node.value)
                    elif isinstance(t, (ast.Tuple, ast.List)) and all(isinstance(e, ast.Name) for e in t.elts):
                        # A, B = <expression>: each name is the element of the value at its position
                        for i_, e in enumerate(t.elts):
                            sub = ast.Subscript(value=node.value, slice=ast.Constant(value=i_), ctx=ast.Load())
                            ast.copy_location(sub, node.value)
                            ast.fix_missing_locations(sub)
                            m.bindings[e.id] = sub
                            m.history.setdefault(e.id, []).append(sub)
            elif isinstance(node, ast.AnnAssign) and isinstance(node.target, ast.Name) and node.value:
                m.bindings[node.target.id] = node.value
                m.history.setdefault(node.target.id, []).append(node.value)

    # ----------------------------------------------------------------- lookups
    def module(self, name: str) -> Module:
        try:
            return self.modules[name]
        except KeyError:
            raise AnalysisError(f"module {PKG}.{name} not found")

    def _follow_reexport(self, qual: str, kind: str):
        """module.name where *name* is imported into *module* from another module of the package (a function or class that
        was moved and re-exported keeps its public address)"""
        mod, _, name = qual.partition(".")
        if mod in self.modules and "." not in name:
            try:
                r = self.resolve(mod, name)
            except AnalysisError:
                r = None
            if r and r[0] == kind:
                return r[1]
        if mod in self.modules and name.count(".") == 1:           # Class.method of a re-exported class
            cname, meth = name.split(".")
            r = self.resolve(mod, cname)
            if r and r[0] == "class":
                return f"{r[1]}.{meth}"
        return None

    def func(self, qual: str) -> Func:
        try:
            return self.funcs[qual]
        except KeyError:
            q2 = self._follow_reexport(qual, "func")
            if q2 and q2 in self.funcs:
                return self.funcs[q2]
            raise AnalysisError(f"anchor function {qual} not found")

    def cls(self, qual: str) -> ast.ClassDef:
        try:
            return self.classes[qual]
        except KeyError:
            q2 = self._follow_reexport(qual, "class")
            if q2 and q2 in self.classes:
                return self.classes[q2]
            raise AnalysisError(f"anchor class {qual} not found")

    def has_func(self, qual: str) -> bool:
        return qual in self.funcs

    def binding(self, module: str, name: str):
        m = self.module(module)
        if name not in m.bindings:
            raise AnalysisError(f"top-level binding {module}.{name} not found")
        return m.bindings[name]

    def where(self, module: str, node: ast.AST) -> str:
        m = self.module(module)
        return f"{m.path.relative_to(self.root)}:{getattr(node, 'lineno', 0)}"

    def resolve(self, module: str, name: str):
        """Resolve a bare name used in *module* to a package object.

        Returns ("func", qual) | ("class", qual) | ("module", modname) |
        ("value", module, astnode) | ("external", dotted) | None.
        """
        m = self.module(module)
        if name in m.bindings:
            b = m.bindings[name]
            if isinstance(b, ast.FunctionDef):
                return ("func", f"{module}.{name}")
            if isinstance(b, ast.ClassDef):
                return ("class", f"{module}.{name}")
            if isinstance(b, ast.Lambda):
                return ("func", f"{module}.{name}")
            return ("value", module, b, name)
        if name in m.imports:
            imp = m.imports[name]
            if imp[0] == "module":
                return ("module", imp[1])
            if imp[0] == "object":
                _, mod, obj = imp
                if mod in self.modules:
                    if obj in self.modules[mod].bindings or obj in self.modules[mod].imports:
                        return self.resolve(mod, obj)
                    return None
                return ("external", f"{mod}.{obj}")
            return ("external", imp[1])
        return None

    def resolve_attr(self, module: str, node: ast.Attribute):
        """Resolve ``alias.name`` where alias is a package module."""
        if isinstance(node.value, ast.Name):
            r = self.resolve(module, node.value.id)
            if r and r[0] == "module" and r[1] in self.modules:
                return self.resolve(r[1], node.attr)
            if r and r[0] == "class":
                q = f"{r[1]}.{node.attr}"
                if q in self.funcs:
                    return ("func", q)
        return None

    # -------------------------------------------------------------- call graph
    def callgraph(self) -> nx.DiGraph:
        if self._callgraph is not None:
            return self._callgraph
        g = nx.DiGraph()
        for q in self.funcs:
            g.add_node(q)
        for q, f in self.funcs.items():
            for callee, site in self.calls_in(f):
                g.add_edge(q, callee)
                g.edges[q, callee].setdefault("sites", []).append(site)
        self._callgraph = g
        return g

    def _local_scope_funcs(self, f: Func) -> dict:
        """Names of nested defs visible inside *f* (its own and enclosing)."""
        out = {}
        chain = []
        p = f
        while p is not None:
            chain.append(p)
            p = self.funcs.get(p.parent) if p.parent else None
        for fn in reversed(chain):
            prefix = fn.qual + "."
            for q in self.funcs:
                if q.startswith(prefix) and "." not in q[len(prefix):]:
                    out[q[len(prefix):]] = q
        return out

    def calls_in(self, f: Func):
        """Yield (callee qual, ast.Call) for calls in *f* resolved to package functions.

        Does not descend into nested function definitions (they are indexed
        separately) but does include lambdas that are not bound to a name.
        """
        local = self._local_scope_funcs(f)
        body = f.node.body if isinstance(f.node.body, list) else [f.node.body]

        def walk(n):
            for child in ast.iter_child_nodes(n):
                if isinstance(child, (ast.FunctionDef, ast.AsyncFunctionDef, ast.ClassDef)):
                    continue
                yield child
                yield from walk(child)

        for stmt in body:
            nodes = [stmt] + list(walk(stmt))
            for n in nodes:
                if not isinstance(n, ast.Call):
                    continue
                fn = n.func
                target = None
                if isinstance(fn, ast.Name):
                    if fn.id in local:
                        target = ("func", local[fn.id])
                    else:
                        target = self.resolve(f.module, fn.id)
                elif isinstance(fn, ast.Attribute):
                    target = self.resolve_attr(f.module, fn)
                    if target is None and isinstance(fn.value, ast.Name) and fn.value.id == "self" and f.cls:
                        q = f"{f.module}.{f.cls}.{fn.attr}"
                        if q in self.funcs:
                            target = ("func", q)
                if target and target[0] == "func":
                    yield target[1], n
                elif target and target[0] == "class":
                    init = target[1] + ".__init__"
                    if init in self.funcs:
                        yield init, n

    def constructor_calls(self, clsname: str):
        """All call sites ``clsname(...)`` in the package: (func qual or module, Call)."""
        out = []
        for m in self.modules.values():
            for node in ast.walk(m.tree):
                if isinstance(node, ast.Call):
                    fn = node.func
                    nm = fn.id if isinstance(fn, ast.Name) else fn.attr if isinstance(fn, ast.Attribute) else None
                    if nm == clsname:
                        out.append((m.name, node))
        return out

    def enclosing_function(self, module: str, node: ast.AST) -> str:
        """Qualified name of the innermost function containing *node* (by position)."""
        best, span = module, None
        ln = getattr(node, "lineno", None)
        for q, f in self.funcs.items():
            if f.module != module or ln is None:
                continue
            a, b = f.node.lineno, getattr(f.node, "end_lineno", f.node.lineno)
            if a <= ln <= b and (span is None or b - a < span):
                best, span = q, b - a
        return best


def norm(node: ast.AST) -> str:
    """Normalised text of a statement/expression (position independent)."""
    return ast.unparse(node)
