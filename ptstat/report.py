"""Verdicts, evidence files, known findings.

A rule set is a function ``run(ctx) -> None`` that calls ``ctx.ok(...)`` /
``ctx.fail(...)`` once per *rule instance* (obligation).  The runner turns the
collected obligations into the exit status, the stdout lines the harness reads
and ``/verif/evidence/<ID>.json``.
"""
from __future__ import annotations

import hashlib
import json
import os
import sys
import time
import traceback
from dataclasses import dataclass, field, asdict
from pathlib import Path

from . import AnalysisError
from .source import SourceModel

VERIF = Path(__file__).resolve().parent.parent
KNOWN = VERIF / "known_findings.json"


@dataclass
class Ob:
    rule: str
    key: str            # construct key (qualified name + normalised text / instance name)
    ok: bool
    msg: str = ""
    site: str = ""      # file:line function
    witness: object = None
    nontrivial: bool = True
    known: bool = False


class Ctx:
    def __init__(self, prop: str, tier: str, seed: int, root: str):
        self.prop = prop
        self.tier = tier
        self.seed = seed
        self.root = root
        self.obs: list[Ob] = []
        self.samples: list = []
        self.units: dict = {}
        self.assumptions: list[str] = []
        self.notes: list[str] = []
        self.extra: dict = {}
        self._src = None
        self.floors: dict[str, int] = {}

    @property
    def src(self) -> SourceModel:
        if self._src is None:
            self._src = SourceModel(self.root)
        return self._src

    @property
    def thorough(self) -> bool:
        return self.tier == "thorough"

    # -- recording ---------------------------------------------------------
    def _trace(self, ob):
        if os.environ.get("PTSTAT_TRACE"):
            now = time.time()
            last = getattr(self, "_tlast", now)
            self._tlast = now
            print(f"  [{now - last:6.2f}s] {'ok  ' if ob.ok else 'FAIL'} {ob.rule} {ob.key}" + ("" if ob.ok else f" :: {ob.msg[:300]}"), flush=True)

    def ok(self, rule, key, msg="", site="", sample=None, nontrivial=True):
        self.obs.append(Ob(rule, key, True, msg, site, None, nontrivial))
        self._trace(self.obs[-1])
        if sample is not None and len(self.samples) < 40:
            self.samples.append({"rule": rule, "instance": key, "detail": sample})

    def fail(self, rule, key, msg, site="", witness=None):
        self.obs.append(Ob(rule, key, False, msg, site, witness))
        self._trace(self.obs[-1])

    def check(self, cond, rule, key, msg="", site="", witness=None, sample=None):
        if cond:
            self.ok(rule, key, msg if sample is None else "", site, sample if sample is not None else (msg or None))
        else:
            self.fail(rule, key, msg, site, witness)
        return cond

    def unit(self, name, n=1):
        self.units[name] = self.units.get(name, 0) + n

    def floor(self, rule, n):
        """Minimum number of instances *rule* must have produced (confirmed by hand)."""
        self.floors[rule] = n

    def assume(self, text):
        if text not in self.assumptions:
            self.assumptions.append(text)


def load_known():
    if not KNOWN.exists():
        return {"findings": [], "fixed": []}
    return json.loads(KNOWN.read_text())


def _replay_path(prop, ob: Ob) -> Path:
    h = hashlib.sha1((ob.rule + "|" + ob.key).encode()).hexdigest()[:10]
    d = VERIF / "replay"
    d.mkdir(exist_ok=True)
    return d / f"{prop}-{ob.rule}-{h}.json"


def run_property(prop: str, tier: str, runfn, explanation: str, root: str,
                 only: tuple | None = None, write_evidence: bool = True,
                 quiet: bool = False) -> int:
    """Run one property's rule set; return process exit status."""
    t0 = time.time()
    seed = int(os.environ.get("VERIF_SEED", "0") or 0)
    ctx = Ctx(prop, tier, seed, root)
    status = 0
    err = None
    try:
        runfn(ctx)
        # floors: a rule that matched fewer constructs than confirmed by hand is broken
        anyfail = any(not o.ok for o in ctx.obs)
        for rule, n in ctx.floors.items():
            have = sum(1 for o in ctx.obs if o.rule == rule)
            # a failed obligation may legitimately cut a rule short; it is reported as such
            if have < n and not anyfail:
                raise AnalysisError(
                    f"rule {rule} produced {have} instances, expected at least {n} "
                    f"(anchor moved or construct no longer recognised)")
        if not ctx.obs:
            raise AnalysisError("no rule instance was evaluated")
        _kl = {(k["rule"], k["key"]) for k in load_known().get("findings", []) if k["property"] == prop}
        # (listed known findings do not stop the self-test: the seeded edits must still be told apart from them)
        if tier == "thorough" and not os.environ.get("PTSTAT_NO_SELFTEST") and not any(not o.ok and (o.rule, o.key) not in _kl for o in ctx.obs):
            from . import selftest
            res = selftest.run(prop, root)
            ctx.extra["selftest"] = res
            misses = [r for r in res if r["result"] == "MISS"]
            ctx.unit("selftest_edits", len(res))
            ctx.unit("selftest_skipped", sum(1 for r in res if r["result"] == "skipped"))
            if misses:
                raise AnalysisError("self-test: " + "; ".join(
                    f"{'seeded edit not reported' if r['kind'] == 'fire' else 'behaviour-preserving twin raised an alarm'}: {r['note']}"
                    for r in misses[:3]))
    except AnalysisError as exc:
        err = f"{exc}"
        if os.environ.get("PTSTAT_DEBUG"):
            traceback.print_exc()
        status = 2
    except Exception as exc:  # a bug in the checker is not a violation
        err = f"internal error: {exc.__class__.__name__}: {exc}"
        if os.environ.get("PTSTAT_DEBUG"):
            traceback.print_exc()
        else:
            tb = traceback.extract_tb(exc.__traceback__)[-1]
            err += f" at {Path(tb.filename).name}:{tb.lineno}"
        status = 2

    known = load_known()
    klist = [k for k in known.get("findings", []) if k["property"] == prop]
    out = []
    nviol = 0
    used_known = set()
    if only is not None:
        ctx.obs = [o for o in ctx.obs if (o.rule, o.key) == tuple(only)]
    for ob in ctx.obs:
        if ob.ok:
            continue
        match = None
        for k in klist:
            if k["rule"] == ob.rule and k["key"] == ob.key:
                match = k
                break
        if match is not None:
            ob.known = True
            used_known.add((match["rule"], match["key"]))
            out.append(f"KNOWN-FINDING: property={prop} rule={ob.rule} {ob.key}: {match['what']}")
        else:
            nviol += 1
            rp = _replay_path(prop, ob)
            rec = {"property": prop, "rule": ob.rule, "key": ob.key, "message": ob.msg,
                   "site": ob.site, "witness": ob.witness, "tier": tier, "seed": seed}
            rp.write_text(json.dumps(rec, indent=1, default=str))
            out.append(f"FINDING property={prop} rule={ob.rule} instance={ob.key}\n"
                       f"    at {ob.site}\n    {ob.msg}"
                       + (f"\n    witness: {ob.witness}" if ob.witness is not None else ""))
            out.append(f"VIOLATION property={prop} replay={rp}")
    if status == 2:
        out.append(f"ANALYSIS-ERROR property={prop} {err}")
        # a violation already established on a named construct stands even if a later part of the
        # analysis could not be completed; without one the run is analysis-broken (exit 2)
    if nviol:
        status = 1

    wall = time.time() - t0
    rules = {}
    for ob in ctx.obs:
        r = rules.setdefault(ob.rule, {"instances": 0, "discharged": 0, "known_findings": 0, "violations": 0})
        r["instances"] += 1
        if ob.ok:
            r["discharged"] += 1
        elif ob.known:
            r["known_findings"] += 1
        else:
            r["violations"] += 1
    distinct = len({(o.rule, o.key) for o in ctx.obs if o.nontrivial})
    samples = ctx.samples[:12]
    if not samples:
        samples = [{"rule": o.rule, "instance": o.key, "detail": o.msg} for o in ctx.obs[:5]]
    cov = {
        "explanation": explanation,
        "evaluations": len(ctx.obs),
        "distinct_nontrivial": distinct,
        "rule": "one evaluation = one rule instance (obligation) decided on a construct of the "
                "current source tree; distinct = distinct (rule, construct key) pairs; an "
                "instance is non-trivial when it matched a real construct (not a vacuous pass)",
        "samples": samples,
        "obligations": len(ctx.obs),
        "discharged": sum(1 for o in ctx.obs if o.ok),
        "known_findings": sum(1 for o in ctx.obs if o.known),
        "rules": rules,
        "analysed_units": ctx.units,
        "exhaustive": bool(ctx.extra.get("exhaustive", False)),
        "files_consulted": ctx.src.consulted if ctx._src is not None else {},
        "root": str(root),
        "notes": ctx.notes,
    }
    for k, v in ctx.extra.items():
        if k not in cov:
            cov[k] = v
    if err:
        cov["analysis_error"] = err
    ev = {
        "property_id": prop, "tier": tier, "seed": seed, "level": "other",
        "coverage": cov, "assumptions": ctx.assumptions, "wall_s": round(wall, 3),
        "violations": nviol,
    }
    if write_evidence:
        d = VERIF / "evidence"
        d.mkdir(exist_ok=True)
        (d / f"{prop}.json").write_text(json.dumps(ev, indent=1, default=str))
    if not quiet:
        summary = ", ".join(f"{r}:{v['discharged']}/{v['instances']}" for r, v in sorted(rules.items()))
        print(f"[{prop} {tier}] {len(ctx.obs)} rule instances ({summary}); "
              f"units: {ctx.units}; {wall:.2f}s")
        for l in out:
            print(l)
        if status == 0:
            print(f"OK property={prop}")
    ctx_out = {"status": status, "obs": ctx.obs, "lines": out, "err": err}
    run_property.last = ctx_out
    return status
