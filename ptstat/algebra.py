"""Decisions over value graphs (sympy expressions): identity, homogeneity, sign."""
from __future__ import annotations

import random

import sympy as sp

from . import AnalysisError


SMALL = {"m_e"}


class _Timeout(Exception):
    pass


class time_limit:
    """Bound a symbolic step by wall time; the enclosing process alarm (cli budget) is restored."""
    def __init__(self, seconds):
        self.seconds = seconds

    def __enter__(self):
        import signal, time
        self._signal = signal
        self._t0 = time.time()
        self._old_handler = signal.getsignal(signal.SIGALRM)
        self._old_left = signal.alarm(0)

        def handler(signum, frame):
            raise _Timeout()
        try:
            signal.signal(signal.SIGALRM, handler)
            signal.setitimer(signal.ITIMER_REAL, self.seconds)
            self._armed = True
        except ValueError:      # not in the main thread
            self._armed = False
        return self

    def __exit__(self, et, ev, tb):
        import time
        signal = self._signal
        if self._armed:
            signal.setitimer(signal.ITIMER_REAL, 0)
            signal.signal(signal.SIGALRM, self._old_handler)
            if self._old_left:
                left = max(1, int(self._old_left - (time.time() - self._t0)))
                signal.alarm(left)
        return et is not None and issubclass(et, _Timeout) and False


def _arms(e):
    """Flatten a (possibly nested) Piecewise into [(expr, [conds...])] with
    the negations of earlier arms made explicit."""
    e = sp.piecewise_fold(e) if e.has(sp.Piecewise) else e
    if not isinstance(e, sp.Piecewise):
        if e.has(sp.Piecewise):
            # piecewise inside a function (Abs, Max...) - fold did not lift it; expand by hand
            pw = next(iter(e.atoms(sp.Piecewise)))
            out = []
            neg = []
            for ex, c in pw.args:
                for sub, cs in _arms(e.xreplace({pw: ex})):
                    out.append((sub, neg + ([c] if c is not sp.true else []) + cs))
                if c is not sp.true:
                    neg = neg + [sp.Not(c)]
            return out
        return [(e, [])]
    out = []
    neg = []
    for ex, c in e.args:
        for sub, cs in _arms(ex):
            out.append((sub, neg + ([c] if c is not sp.true else []) + cs))
        if c is not sp.true:
            neg = neg + [sp.Not(c)]
    return out


def _subs_from(conds):
    """Substitutions implied by equality conditions (x == const or sym == expr)."""
    subs = {}
    infeasible = False
    for c in conds:
        c = sp.simplify_logic(c) if isinstance(c, (sp.And, sp.Or, sp.Not)) else c
        for a in (c.args if isinstance(c, sp.And) else [c]):
            if a is sp.false:
                infeasible = True
            if isinstance(a, sp.Eq):
                l, r = a.args
                if l.is_Symbol:
                    subs[l] = r
                elif r.is_Symbol:
                    subs[r] = l
                else:
                    # linear solve only (cheap); a condition that cannot be used stays unused, which is sound:
                    # the arm is then checked as an unconditional identity
                    try:
                        with time_limit(1):
                            sym_, sol_ = sp.solve_linear(l - r)
                        if sym_.is_Symbol and not sol_.has(sym_):
                            subs[sym_] = sol_
                        elif sym_ == 0 and sol_ != 0 and (l - r).is_positive:
                            infeasible = True
                    except Exception:
                        pass
    return subs, infeasible


def _minmax_eval(e):
    """Evaluate the uninterpreted pymin/pymax applications on numeric arguments (innermost first)."""
    for _ in range(20):
        apps = [a for a in e.atoms(sp.Function) if isinstance(a, sp.core.function.AppliedUndef)
                and a.func.__name__ in ("pymin", "pymax") and all(x.is_number for x in a.args)]
        if not apps:
            return e
        e = e.xreplace({a: (sp.Min if a.func.__name__ == "pymin" else sp.Max)(*a.args) for a in apps})
    return e


def is_zero(e, seed=0, points=8):
    """Decide e == 0 as an identity.  Returns (True|False, how, witness)."""
    e = sp.sympify(e)
    if e == 0:
        return True, "structural", None
    if e.has(sp.nan):
        return False, "the value is NaN", None
    d = e
    size = sp.count_ops(e)
    # symbolic proof only where it is cheap and safe: rational functions of the symbols
    try:
        rational = e.is_rational_function(*e.free_symbols) if e.free_symbols else False
    except Exception:
        rational = False
    if size < 400 and rational:
        try:
            with time_limit(3):
                d = sp.cancel(sp.together(e))
            if d == 0:
                return True, "cancel", None
        except Exception:
            d = e
    elif size < 60:
        try:
            with time_limit(3):
                d2 = sp.simplify(e)
            if d2 == 0:
                return True, "simplify", None
        except Exception:
            pass
    # evaluation of the expression tree at random rational points (Schwartz-Zippel)
    rng = random.Random(seed * 7919 + 13)
    syms = sorted(d.free_symbols, key=str)
    funcs = [f for f in d.atoms(sp.Function) if isinstance(f, sp.core.function.AppliedUndef)
             and f.func.__name__ not in ("pymin", "pymax")]
    if funcs:
        # uninterpreted applications: replace each distinct application by a fresh symbol
        rep = {f: sp.Symbol(f"_u{i}", real=True) for i, f in enumerate(sorted(funcs, key=str))}
        d = d.xreplace(rep)
        syms = sorted(d.free_symbols, key=str)
    bad = None
    agree = 0
    fast = None
    try:
        import mpmath
        mpmath.mp.dps = 60
        fast = sp.lambdify(syms, d, modules=[{"pymin": lambda *a: min(a), "pymax": lambda *a: max(a),
                                              "Max": lambda *a: max(a), "Min": lambda *a: min(a)}, "mpmath"])
    except Exception:
        fast = None
    if d.has(sp.Max, sp.Min, sp.Piecewise, sp.Abs) or any(f.func.__name__ in ('pymin', 'pymax') for f in d.atoms(sp.Function) if isinstance(f, sp.core.function.AppliedUndef)):
        points = max(points, 24)
    for _ in range(points):
        pt = {}
        for s in syms:
            # log-uniform magnitudes so that clipped regions (max(n, 1), thresholds) are reached
            v = sp.Rational(rng.randint(1, 997), rng.randint(1, 97)) * sp.Integer(10) ** rng.randint(-4, 2)
            if s.is_positive is not True and s.is_nonnegative is not True and rng.random() < 0.3:
                v = -v
            if s.is_integer:
                v = sp.Integer(rng.randint(1, 9))
            if s.name.startswith("frac_"):
                v = sp.Rational(rng.randint(1, 96), 97)      # a fraction in (0, 1)
            if s.name in SMALL:
                # physical side condition: the electron mass is far below any atomic mass,
                # so ion masses m - charge*m_e stay positive
                v = sp.Rational(rng.randint(1, 9), 100000)
            pt[s] = v
        val = None
        if fast is not None:
            try:
                mv = fast(*[mpmath.mpf(int(pt[s_].p)) / mpmath.mpf(int(pt[s_].q)) for s_ in syms])
                scale = max([abs(mpmath.mpf(int(pt[s_].p)) / mpmath.mpf(int(pt[s_].q))) for s_ in syms] + [1])
                if isinstance(mv, (mpmath.mpf, mpmath.mpc, int, float)) and mpmath.isfinite(mv):
                    if abs(mv) < mpmath.mpf(10) ** -38 * (1 + scale):
                        agree += 1
                        continue
                    # a non-zero value is confirmed with exact arithmetic below before it is reported
            except Exception:
                pass
        try:
            val = _minmax_eval(d.xreplace(pt))
            val = sp.N(val, 50)
        except Exception:
            continue
        if val.has(sp.nan) or val.has(sp.zoo) or val.has(sp.oo):
            continue
        if abs(val) > sp.Float("1e-35") * (1 + max((abs(sp.N(a, 30)) for a in d.xreplace(pt).atoms(sp.Number)), default=1)):
            bad = {str(k): str(v) for k, v in pt.items()}
            return False, f"counterexample value {sp.N(val, 8)}", bad
        agree += 1
    if agree >= max(2, points // 2):
        return True, f"evaluation at {agree} random rational points (residual probability < 1e-{agree})", None
    raise AnalysisError(f"could not decide identity of {str(e)[:120]}")


def _factors(e):
    num = sp.numer(sp.together(sp.sympify(e)))
    try:
        return {f for f, _ in sp.factor_list(num)[1]}
    except Exception:
        return {num}


def _outside(conds, nonzero):
    """True when an arm's conditions state that a product of quantities assumed
    nonzero is zero (every factor of the vanishing numerator is such a quantity)."""
    nzf = set()
    for nz in nonzero:
        nzf |= _factors(nz)
    for c in conds:
        for a in (c.args if isinstance(c, sp.And) else [c]):
            if isinstance(a, sp.Eq):
                l, r = a.args
                fs = _factors(l - r)
                if fs and all(f in nzf or (-f) in nzf for f in fs):
                    return True
    return False


def equal(a, b, seed=0, points=8, nonzero=()):
    """a == b as an identity, arm by arm, using the equalities each arm's
    condition states (e.g. the 'n == 1' arm of n*f).  Arms whose condition says
    that one of *nonzero* vanishes lie outside the specification's domain."""
    a, b = sp.sympify(a), sp.sympify(b)
    diff = a - b
    hows = []
    for ex, conds in _arms(diff):
        if nonzero and _outside(conds, nonzero):
            continue
        for case in _cases(conds):
            if nonzero and _outside(case, nonzero):
                continue
            subs, infeasible = _subs_from(case)
            if infeasible:
                continue
            ex2 = ex.subs(subs) if subs else ex
            ok, how, wit = is_zero(ex2, seed, points)
            if not ok:
                return False, how + (f" on arm {case}" if case else ""), wit
            hows.append(how)
    return True, "; ".join(sorted(set(hows))), None


def _cases(conds):
    """Disjunctive cases of an arm's path condition, each a list of literals."""
    if not conds:
        return [[]]
    c = sp.And(*conds)
    try:
        d = sp.to_dnf(c, simplify=False)
    except Exception:
        return [list(conds)]
    if d is sp.false:
        return []
    ds = d.args if isinstance(d, sp.Or) else [d]
    if len(ds) > 64:
        return [list(conds)]
    out = []
    for x in ds:
        lits = list(x.args) if isinstance(x, sp.And) else [x]
        # Not(Ne(a,b)) is Eq(a,b)
        lits = [sp.Eq(*l.args[0].args) if isinstance(l, sp.Not) and isinstance(l.args[0], sp.Ne) else l for l in lits]
        out.append(lits)
    return out


def homogeneity(e, syms, seed=0, nonzero=()):
    """Degree k such that e(t*syms) == t**k * e, or None."""
    t = sp.Symbol("_t", positive=True)
    scaled = e.xreplace({s: t * s for s in syms})
    nz = list(nonzero) + [z.xreplace({s: t * s for s in syms}) for z in nonzero]
    for k in (0, 1, -1, 2, -2, sp.Rational(1, 2)):
        try:
            ok, _, _ = equal(scaled, t ** k * e, seed, nonzero=nz)
        except AnalysisError:
            ok = False
        if ok:
            return k
    return None


def nonneg(e):
    """Syntactic sign analysis: True when e >= 0 follows from symbol assumptions
    and the operators (abs, squares, max(.,0), sqrt, products, sums, exp)."""
    e = sp.sympify(e)
    if e.is_nonnegative:
        return True
    if isinstance(e, sp.Abs):
        return True
    if isinstance(e, sp.Max) and any(nonneg(a) for a in e.args):
        return True
    if isinstance(e, sp.Pow):
        b, ex = e.args
        if ex.is_even:
            return b.is_real is not False
        if ex == sp.Rational(1, 2):
            return nonneg(b)
        if ex.is_real and nonneg(b):
            return True
        if ex.is_integer and ex.is_negative and nonneg(b):
            return True
    if isinstance(e, sp.Mul):
        return all(nonneg(a) for a in e.args)
    if isinstance(e, sp.Add):
        return all(nonneg(a) for a in e.args)
    if isinstance(e, sp.exp):
        return True
    if isinstance(e, sp.Piecewise):
        return all(nonneg(a) for a, _ in e.args)
    return False


def main_arm(e, nonzero=()):
    """The expression of the single arm of *e* that lies inside the domain
    (arms stating that a *nonzero* quantity vanishes are dropped)."""
    e = sp.sympify(e)
    arms = [(ex, cs) for ex, cs in _arms(e) if not (nonzero and _outside(cs, nonzero))]
    if len(arms) != 1:
        raise AnalysisError(f"expected one in-domain arm, found {len(arms)} in {str(e)[:100]}")
    return arms[0][0]
