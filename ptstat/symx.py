"""K4 - value-graph builder.

An abstract interpreter over the *symbolic expression* domain for the Python
subset this package uses.  Every variable holds a sympy expression (or a
container / abstract object of them); at a control-flow join the two incoming
values are combined into a phi node ``Piecewise((a, cond), (b, True))`` whose
condition is kept as an opaque operand - paths are never enumerated against a
solver and no repository code is executed.  Loops are unrolled over
collections of known finite length (generic k-element compositions supplied by
the rule).  Calls to package functions are inlined along K1's resolution
(depth bound), calls to a small list of pure library functions are mapped to
algebra, anything else becomes an uninterpreted function of its arguments.

Class semantics (K6) come from the package's own class bodies: attribute
lookup follows data descriptor -> instance -> class -> ``__getattr__``, so the
delegation of ``Isotope``/``Ion`` to their element and the properties that the
loaders install on the classes are derived from the source on every run.
"""
from __future__ import annotations

import ast
import copy as _copy

import sympy as sp

from . import AnalysisError
from .source import SourceModel
from .symval import (SymObj, ClassVal, PropertyVal, SuperVal, Closure, BoundMethod, ModuleVal, Builtin,
                     Raised, Phi, Vec, SymRaise, exc_matches, to_expr, is_expr, merge, _alg, _MISSING)

MAX_DEPTH = 60


class State:
    def __init__(self, vars=None, heap=None):
        self.vars = vars if vars is not None else {}
        self.heap = heap if heap is not None else {}

    def copy(self):
        memo = {}
        return State(_cp(self.vars, memo), self.heap)  # heap copied by Interp (global)


def _cp(v, memo):
    """Copy containers (they are mutable) but keep abstract objects' identity."""
    if isinstance(v, list):
        if id(v) in memo:
            return memo[id(v)]
        out = []
        memo[id(v)] = out
        out.extend(_cp(x, memo) for x in v)
        return out
    if isinstance(v, dict):
        if id(v) in memo:
            return memo[id(v)]
        out = {}
        memo[id(v)] = out
        for k, x in v.items():
            out[k] = _cp(x, memo)
        return out
    return v


class Frame:
    def __init__(self, interp, module, qual, parent=None, cls=None):
        self.interp = interp
        self.module = module
        self.qual = qual
        self.parent = parent      # lexically enclosing Frame
        self.cls = cls
        self.vars = {}
        self.exits = []           # (kind, cond, payload)
        self.nonlocals = set()    # names declared nonlocal / global in this function
        self.globals = set()

    def lookup(self, name):
        f = self
        while f is not None:
            if name in f.vars:
                return f.vars[name]
            f = f.parent
        return _MISSING


class Exit(Exception):
    pass


class Interp:
    def __init__(self, src: SourceModel, symbolic_constants=None, stubs=None, arrays=()):
        self.src = src
        self._imported = set()         # modules whose import-time definitions were evaluated
        self.import_effect_errors = []
        self.static_objs = {}          # objects that belong to a class, not to a state (enum members): survive every restore
        self.heap = {}                 # obj.id -> {attr: value}
        self.classes = {}              # qual -> ClassVal
        self.module_cache = {}         # (module, name) -> value
        self.symconst = symbolic_constants or {}   # "constants.avogadro_number" -> Symbol
        # a value supplied for an embedded table or constant stands for a binding of the package: if the package does not
        # define that name any more (the table was moved or re-laid out), the supplied value would stand for nothing and the
        # package's own data would be read instead - an analysis that has lost its anchor, never a finding
        for dotted_ in self.symconst:
            mod_, _, nm_ = dotted_.partition(".")
            if mod_ in src.modules and "." not in nm_ and src.resolve(mod_, nm_) is None:
                raise AnalysisError(f"the package no longer defines {dotted_} (an embedded table or constant the analysis supplies a probe "
                                    f"for): the probe has nothing to stand for")
        self.call_log = None           # when a list: (callable, args, kwargs) of every package function called
        self.stubs = stubs or {}       # qual -> python callable(interp, args, kwargs)
        self.arrays = set(arrays)      # symbols that stand for numpy arrays
        self.raises = []               # (cond, exc, where) conditional raises seen
        self.asserts = []              # (cond, text, where)
        self.calls = []                # (qual) inlined
        self.depth = 0
        self.uninterpreted = set()
        self.default_open = {}         # class qual -> attribute names that read as fresh data symbols
        self.default_sym_kw = {}
        from . import symlib
        self.lib = symlib
        self.builtins = symlib.make_builtins(self)

    @property
    def heap(self):
        return self._heap

    @heap.setter
    def heap(self, h):
        for k, v in self.static_objs.items():
            if k not in h:
                h[k] = dict(v)
        self._heap = h

    # ------------------------------------------------------------------ objects
    def new_obj(self, name, cls=None, attrs=None, open_attrs=None, sym_kw=None):
        o = SymObj(name, cls, open_attrs, sym_kw)
        self.heap[o.id] = dict(attrs or {})
        return o

    def get_class(self, qual) -> ClassVal:
        if qual in self.classes:
            return self.classes[qual]
        node = self.src.cls(qual)
        module = qual.split(".")[0]
        if module not in self._imported:
            self.import_effects(module)
            if qual in self.classes:
                return self.classes[qual]
        c = ClassVal(qual, module, node)
        self.classes[qual] = c
        c.ntuple = None
        for b in node.bases:
            if isinstance(b, ast.Name) and b.id != "object":
                r = self.src.resolve(module, b.id)
                if r and r[0] == "class":
                    c.bases.append(self.get_class(r[1]))
                elif r and r[0] == "external" and r[1].split(".")[-1] == "NamedTuple":
                    c.ntuple = True
                elif r and r[0] == "external" and r[1] in ("enum.Enum", "enum.IntEnum", "enum.StrEnum", "enum.Flag", "enum.IntFlag"):
                    c.is_enum = r[1]
                elif r and r[0] == "external" and r[1] in ("builtins.str", "builtins.int", "str", "int"):
                    pass               # class K(str, Enum): the mixin type only affects comparisons with plain values
            elif isinstance(b, ast.Attribute):
                try:
                    bv = self.eval(b, Frame(self, module, module))
                except (AnalysisError, SymRaise):
                    bv = None
                if isinstance(bv, ClassVal):
                    c.bases.append(bv)
                elif ast.unparse(b).split(".")[-1] == "NamedTuple":
                    c.ntuple = True
                elif ast.unparse(b) in ("enum.Enum", "enum.IntEnum", "enum.StrEnum"):
                    c.is_enum = ast.unparse(b)
        frame = Frame(self, module, qual, None, cls=c)
        if c.ntuple:
            fields, defaults = [], []
            for st in node.body:
                if isinstance(st, ast.AnnAssign) and isinstance(st.target, ast.Name):
                    fields.append(st.target.id)
                    if st.value is not None:
                        defaults.append(self.eval(st.value, frame))
                    elif defaults:
                        raise AnalysisError(f"NamedTuple {qual}: field without default after one with default")
            c.ntuple = self.lib.NTupleClass(c.name, fields, defaults)
        for st in node.body:
            if isinstance(st, ast.FunctionDef):
                fn = Closure(st, module, f"{qual}.{st.name}", None, cls=c)
                decos = [ast.unparse(d) for d in st.decorator_list]
                if "property" in decos or any(d.split(".")[-1] == "cached_property" for d in decos):
                    c.attrs[st.name] = PropertyVal(fn)
                elif any(d.endswith(".setter") for d in decos):
                    p = c.attrs.get(st.name)
                    if isinstance(p, PropertyVal):
                        p.fset = fn
                elif "staticmethod" in decos:
                    c.attrs[st.name] = ("static", self.decorate(fn, st, frame))
                elif "classmethod" in decos:
                    c.attrs[st.name] = ("classmethod", self.decorate(fn, st, frame))
                else:
                    c.attrs[st.name] = self.decorate(fn, st, frame)
                frame.vars[st.name] = fn       # later class-body statements may refer to it (M = property(_getM))
            elif isinstance(st, ast.Assign):
                try:
                    v = self.eval(st.value, frame)
                except (AnalysisError, SymRaise):
                    v = self.new_obj(f"{qual}.<classattr>")
                for t in st.targets:
                    if isinstance(t, ast.Name):
                        frame.vars[t.id] = v
                        c.attrs[t.id] = v
            elif isinstance(st, ast.AnnAssign) and st.value is not None and isinstance(st.target, ast.Name) and not c.ntuple:
                try:
                    v = self.eval(st.value, frame)
                except (AnalysisError, SymRaise):
                    v = self.new_obj(f"{qual}.<classattr>")
                frame.vars[st.target.id] = v
                c.attrs[st.target.id] = v
            elif isinstance(st, ast.Expr):
                continue
        if getattr(c, "is_enum", None) or any(getattr(b, "is_enum", None) for b in c.bases):
            self._enum_members(c, node)
        self._dataclass(c, node, module, frame)
        # other class decorators are functions handed the class (they may add methods to it), innermost first
        for d in reversed(node.decorator_list):
            nm = ast.unparse(d.func if isinstance(d, ast.Call) else d).split(".")[-1]
            if nm in ("dataclass", "total_ordering"):
                continue
            try:
                dec = self.eval(d, Frame(self, module, module))
                r = self.call(dec, [c], {})
            except (AnalysisError, SymRaise) as exc:
                raise AnalysisError(f"class decorator @{ast.unparse(d)} on {c.qual} is not understood: {exc}")
            if r is not c:
                raise AnalysisError(f"class decorator @{ast.unparse(d)} on {c.qual} replaces the class")
        self._module_level_patches(c, module)
        for b in c.bases:
            hook = b.lookup("__init_subclass__")
            if hook is not _MISSING:
                fn = hook[1] if isinstance(hook, tuple) else hook
                kw = {k.arg: self.eval(k.value, Frame(self, module, module)) for k in node.keywords if k.arg and k.arg != "metaclass"}
                self.call(fn, [c], kw)            # implicitly a classmethod, called once per subclass at its definition
                break
        return c

    def _enum_members(self, c, node):
        """class K(Enum): every plain name bound in the class body becomes a member object with .name and .value"""
        if not getattr(c, "is_enum", None):
            c.is_enum = next(b.is_enum for b in c.bases if getattr(b, "is_enum", None))
        members = {}
        auto_n = 0
        names = []
        for st in node.body:
            if isinstance(st, ast.Assign):
                names.extend(t.id for t in st.targets if isinstance(t, ast.Name))
            elif isinstance(st, ast.AnnAssign) and st.value is not None and isinstance(st.target, ast.Name):
                names.append(st.target.id)
        for nm in names:
            if nm.startswith("_") or nm not in c.attrs:
                continue
            v = c.attrs[nm]
            if isinstance(v, (Closure, PropertyVal)) or (isinstance(v, tuple) and v and v[0] in ("static", "classmethod")):
                continue
            if isinstance(v, SymObj) and v.name == "enum.auto()":
                auto_n += 1
                v = sp.Integer(auto_n)
            elif is_expr(v) and to_expr(v).is_Integer:
                auto_n = int(to_expr(v))
            alias = next((m for m in members.values() if self.lib._same(self.heap[m.id]["_value_"], v)), None) \
                if not isinstance(v, SymObj) else None
            if alias is not None:
                c.attrs[nm] = alias
                continue
            m = self.new_obj(f"{c.name}.{nm}", c, {"_name_": nm, "_value_": v, "name": nm, "value": v}, open_attrs=set())
            members[nm] = m
            c.attrs[nm] = m
            self.static_objs[m.id] = dict(self.heap[m.id])
        c.enum_members = members

    def _enum_lookup(self, cls, value):
        members = getattr(cls, "enum_members", {})
        if isinstance(value, SymObj) and value.cls is cls:
            return value
        out = _MISSING
        pending = []
        for m in members.values():
            t = self.truth(self.lib.compare(self, ast.Eq(), self.heap[m.id]["_value_"], value))
            if t is sp.true:
                out = m
                break
            if t is not sp.false:
                pending.append((t, m))
        if out is _MISSING:
            ms = cls.lookup("_missing_")
            if ms is not _MISSING:
                fn = ms[1] if isinstance(ms, tuple) else ms
                r = self.call(fn, [cls, value], {})
                if r is None:
                    raise SymRaise("ValueError", f"{value!r} is not a valid {cls.name}")
                out = r
            elif not pending:
                raise SymRaise("ValueError", f"{value!r} is not a valid {cls.name}")
            else:
                out = pending.pop()[1]
        for t, m in reversed(pending):
            out = merge(t, m, out)
        return out

    def _dataclass(self, c, node, module, frame):
        """@dataclass: __init__/__eq__/__hash__/ordering synthesised from the annotated fields (as source text, so that the
        interpreter treats them like any other method)."""
        opts = None
        for d in node.decorator_list:
            target = d.func if isinstance(d, ast.Call) else d
            nm = ast.unparse(target)
            r = self.src.resolve(module, nm.split(".")[0])
            dotted = (r[1] if r and r[0] == "external" else nm) if "." not in nm else \
                ((r[1] + "." + nm.split(".", 1)[1]) if r and r[0] in ("external", "module") else nm)
            if dotted.split(".")[-1] == "dataclass" and dotted.startswith("dataclasses"):
                opts = {"init": True, "eq": True, "order": False, "frozen": False, "unsafe_hash": False, "repr": True}
                if isinstance(d, ast.Call):
                    for kw in d.keywords:
                        v = self.eval(kw.value, frame)
                        if kw.arg in opts:
                            opts[kw.arg] = bool(v)
                        elif kw.arg not in ("slots", "kw_only", "match_args"):
                            raise AnalysisError(f"dataclass option {kw.arg} is not modelled")
            elif d is not None and opts is None and not isinstance(d, ast.Call) and nm in ("total_ordering", "functools.total_ordering"):
                continue
        if opts is None:
            return
        from .symval import FieldSpec
        fields = []
        for b in c.bases:
            fields.extend(getattr(b, "dc_fields", []))
        for st in node.body:
            if isinstance(st, ast.AnnAssign) and isinstance(st.target, ast.Name):
                if "ClassVar" in ast.unparse(st.annotation):
                    continue
                nm = st.target.id
                spec = c.attrs.get(nm, _MISSING) if st.value is not None else _MISSING
                if not isinstance(spec, FieldSpec):
                    spec = FieldSpec(default=spec)
                else:
                    c.attrs.pop(nm, None)
                    if spec.default is not _MISSING:
                        c.attrs[nm] = spec.default
                spec.name = nm
                fields = [f for f in fields if f.name != nm] + [spec]
        c.dc_fields = fields
        env = Frame(self, module, c.qual + ".<dataclass>", None, cls=c)
        env.vars["_DC_CLS"] = c
        env.vars["NotImplemented"] = NotImplemented
        lines = []
        cmpf = [f.name for f in fields if f.compare]
        tup = lambda who: "(" + "".join(f"{who}.{n}, " for n in cmpf) + ")"
        if opts["init"] and "__init__" not in c.attrs:
            params, body, seen_default = [], [], False
            for f in fields:
                if not f.init:
                    if f.default is not _MISSING:
                        env.vars[f"_dflt_{f.name}"] = f.default
                        body.append(f"    self.{f.name} = _dflt_{f.name}")
                    elif f.default_factory is not _MISSING:
                        env.vars[f"_fact_{f.name}"] = f.default_factory
                        body.append(f"    self.{f.name} = _fact_{f.name}()")
                    continue
                if f.default is not _MISSING:
                    env.vars[f"_dflt_{f.name}"] = f.default
                    params.append(f"{f.name}=_dflt_{f.name}")
                    body.append(f"    self.{f.name} = {f.name}")
                    seen_default = True
                elif f.default_factory is not _MISSING:
                    env.vars[f"_fact_{f.name}"] = f.default_factory
                    env.vars["_DC_MISSING"] = _MISSING
                    params.append(f"{f.name}=_DC_MISSING")
                    body.append(f"    self.{f.name} = _fact_{f.name}() if {f.name} is _DC_MISSING else {f.name}")
                    seen_default = True
                else:
                    if seen_default:
                        raise AnalysisError(f"dataclass {c.qual}: field {f.name} without default after one with default")
                    params.append(f.name)
                    body.append(f"    self.{f.name} = {f.name}")
            if "__post_init__" in c.attrs:
                body.append("    self.__post_init__()")
            lines.append("def __init__(self, " + ", ".join(params) + "):\n" + "\n".join(body or ["    pass"]))
        if opts["eq"] and "__eq__" not in c.attrs:
            lines.append(f"def __eq__(self, other):\n    if isinstance(other, _DC_CLS):\n        return {tup('self')} == {tup('other')}\n    return NotImplemented")
            if (opts["frozen"] or opts["unsafe_hash"]) and "__hash__" not in c.attrs:
                lines.append(f"def __hash__(self):\n    return hash({tup('self')})")
        if opts["order"]:
            for nm, op in (("__lt__", "<"), ("__le__", "<="), ("__gt__", ">"), ("__ge__", ">=")):
                lines.append(f"def {nm}(self, other):\n    if isinstance(other, _DC_CLS):\n        return {tup('self')} {op} {tup('other')}\n    return NotImplemented")
        for fn in ast.parse("\n".join(lines)).body:
            ast.fix_missing_locations(fn)
            c.attrs[fn.name] = Closure(fn, module, f"{c.qual}.{fn.name}", env, cls=c)
        c.dc_frozen = opts["frozen"]

    def _module_level_patches(self, c, module):
        """Module-level statements after the class definition that add to the class: ``Cls.name = value``,
        ``setattr(Cls, name, value)``, also inside module-level ``for``/``if`` blocks (executed in a module frame, so
        functions defined there see the module's variables as they are at call time)."""
        m = self.src.modules.get(module)
        if m is None:
            return
        cname = c.name

        def touches(st):
            for n in ast.walk(st):
                if isinstance(n, ast.Assign):
                    for t in n.targets:
                        if isinstance(t, ast.Attribute) and isinstance(t.value, ast.Name) and t.value.id == cname:
                            return True
                if isinstance(n, ast.Call) and isinstance(n.func, ast.Name) and n.func.id == "setattr" and n.args \
                        and isinstance(n.args[0], ast.Name) and n.args[0].id == cname:
                    return True
            # a module-level call that is handed the class itself (a helper that adds methods to it): f(Cls) / Cls = f(Cls)
            call = st.value if isinstance(st, (ast.Expr, ast.Assign)) and isinstance(st.value, ast.Call) else None
            if call is not None and isinstance(call.func, ast.Name) and call.func.id not in ("print", "isinstance", "issubclass") \
                    and any(isinstance(a_, ast.Name) and a_.id == cname for a_ in call.args):
                r_ = self.src.resolve(module, call.func.id)
                if r_ and r_[0] == "func":
                    return True
            return False
        after = False
        todo = []
        for st in m.tree.body:
            if st is c.node:
                after = True
                continue
            if after and isinstance(st, (ast.Assign, ast.Expr, ast.For, ast.If)) and touches(st):
                todo.append(st)
        if not todo:
            return
        frame = Frame(self, module, module)
        for st in todo:
            try:
                self.exec_stmt(st, frame, sp.true)
            except (AnalysisError, SymRaise) as exc:
                raise AnalysisError(f"module-level code that extends class {c.qual} is not understood: {exc}")

    def instantiate(self, cls: ClassVal, args, kwargs, name=None, open_attrs=None, sym_kw=None):
        if getattr(cls, "enum_members", None) is not None:
            if len(args) != 1 or kwargs:
                raise AnalysisError(f"functional Enum API on {cls.qual} is not modelled")
            return self._enum_lookup(cls, args[0])
        if getattr(cls, "ntuple", None):
            nw = cls.lookup("__new__")
            if nw is not _MISSING and not getattr(self, "_in_nt_new", False):
                raise AnalysisError(f"NamedTuple class {cls.qual} overrides __new__")
            t = cls.ntuple.make(list(args), dict(kwargs))
            t._cls = cls           # methods, properties and class attributes of a class-style NamedTuple
            return t
        if open_attrs is None:
            # data attributes that table loaders fill in: readable as fresh symbols on any atom
            open_attrs = self.default_open.get(cls.qual, frozenset())
            sym_kw = sym_kw or self.default_sym_kw.get(cls.qual)
        o = self.new_obj(name or f"{cls.name}#{len(self.heap)}", cls, open_attrs=set(open_attrs), sym_kw=sym_kw)
        init = cls.lookup("__init__")
        if init is not _MISSING:
            self.call(BoundMethod(init, o), args, kwargs)
        return o

    # ------------------------------------------------------------ attribute I/O
    def getattr(self, obj, name, where=None):
        if isinstance(obj, SymObj):
            cls = obj.cls
            if cls is not None:
                cv = cls.lookup(name)
                if isinstance(cv, PropertyVal):
                    if cv.fget is None:
                        raise SymRaise("AttributeError", name)
                    return self.call(cv.fget, [obj], {})
            d = self.heap[obj.id]
            if name == "__dict__":
                return d
            if name in d:
                return d[name]
            if cls is not None:
                cv = cls.lookup(name)
                if cv is not _MISSING:
                    if isinstance(cv, Closure):
                        return BoundMethod(cv, obj)
                    if isinstance(cv, tuple) and cv[0] == "static":
                        return cv[1]
                    if isinstance(cv, tuple) and cv[0] == "classmethod":
                        return BoundMethod(cv[1], cls)
                    return cv
                if obj.open_attrs is not None and name in obj.open_attrs:
                    # data the loaders put in the instance dict: found before __getattr__ is consulted
                    v = self.fresh_attr(obj, name)
                    d[name] = v
                    return v
                ga = cls.lookup("__getattr__")
                if ga is not _MISSING and not name.startswith("__"):
                    return self.call(BoundMethod(ga, obj), [name], {})
            if obj.open_attrs is None or name in obj.open_attrs:
                v = self.fresh_attr(obj, name)
                d[name] = v
                return v
            raise SymRaise("AttributeError", f"{obj!r} has no attribute {name}")
        if isinstance(obj, ClassVal):
            v = obj.lookup(name)
            if v is _MISSING and getattr(obj, "ntuple", None) and name in ("_fields", "_make", "_field_defaults"):
                if name == "_fields":
                    return obj.ntuple.fields
                if name == "_field_defaults":
                    nd = len(obj.ntuple.defaults)
                    return dict(zip(obj.ntuple.fields[len(obj.ntuple.fields) - nd:], obj.ntuple.defaults)) if nd else {}
                return Builtin("_make", lambda it: self.instantiate(obj, list(self.lib.iterate(self, it)), {}))
            if v is _MISSING and name in ("__name__", "__qualname__"):
                return obj.name
            if v is _MISSING and name == "__mro__":
                order = []
                def lin(k):
                    order.append(k)
                    for b in k.bases:
                        lin(b)
                lin(obj)
                mro = [k for i, k in enumerate(order) if k not in order[i + 1:]]      # keep the last occurrence
                if "object" not in self.builtins:
                    self.builtins["object"] = Builtin("object", None)
                return tuple(mro) + (self.builtins["object"],)
            if v is _MISSING and name == "__module__":
                return "periodictable." + obj.module
            if v is _MISSING:
                raise SymRaise("AttributeError", f"{obj!r}.{name}")
            if isinstance(v, tuple) and v[0] == "static":
                return v[1]
            if isinstance(v, tuple) and v[0] == "classmethod":
                return BoundMethod(v[1], obj)
            return v
        if isinstance(obj, ModuleVal):
            return self.module_attr(obj, name)
        if isinstance(obj, SuperVal):
            for b in obj.cls.bases:
                v = b.lookup(name)
                if v is not _MISSING:
                    if isinstance(v, Closure):
                        return BoundMethod(v, obj.selfval)
                    if isinstance(v, PropertyVal):
                        return self.call(v.fget, [obj.selfval], {})
                    if isinstance(v, tuple) and v[0] == "static":
                        return v[1]
                    if isinstance(v, tuple) and v[0] == "classmethod":
                        return BoundMethod(v[1], obj.selfval if isinstance(obj.selfval, ClassVal) else obj.selfval.cls)
                    return v
            if name in ("__init__", "__init_subclass__"):
                return Builtin("object." + name, lambda *a, **k: None)      # object's own
            raise SymRaise("AttributeError", f"super object has no attribute {name}")
        if isinstance(obj, Phi):
            return merge(obj.cond, self.getattr(obj.a, name), self.getattr(obj.b, name))
        return self.lib.value_attr(self, obj, name)

    def fresh_attr(self, obj, name):
        kw = obj.sym_kw.get(name, obj.sym_kw.get("*", {"real": True}))
        if kw == "object":
            return self.new_obj(f"{obj.name}.{name}")
        return sp.Symbol(f"{obj.name}.{name}", **kw)

    def setattr(self, obj, name, value):
        if isinstance(obj, Phi):
            # x.attr = v where x is one of two objects depending on a condition: the store (or the property setter) happens on
            # whichever is live; the other keeps its state
            memo = {}
            light = lambda: ([], {k: _cp(v, {}) for k, v in self.heap.items()}, {q: dict(c.attrs) for q, c in self.classes.items()})
            s0 = light()
            self.setattr(obj.a, name, value)
            s1 = light()
            self.restore(s0)
            self.setattr(obj.b, name, value)
            s2 = light()
            self.restore(self.merge_states(obj.cond, s1, s2))
            return
        if isinstance(obj, Closure):
            if not hasattr(obj, "fattrs"):
                obj.fattrs = {}
            obj.fattrs[name] = value        # function attributes (__name__, __doc__, ...)
            return
        if isinstance(obj, SymObj):
            if obj.cls is not None:
                cv = obj.cls.lookup(name)
                if isinstance(cv, PropertyVal):
                    if cv.fset is None:
                        raise SymRaise("AttributeError", f"can't set {name}")
                    self.call(cv.fset, [obj, value], {})
                    return
            if name == "__dict__" and isinstance(value, dict):
                self.heap[obj.id] = value
                return
            self.heap[obj.id][name] = value
            return
        if isinstance(obj, ClassVal):
            obj.attrs[name] = value
            return
        from .symval import VecFlags
        if isinstance(obj, VecFlags) and name == "writeable":
            t = self.truth(value)
            if t not in (sp.true, sp.false):
                raise AnalysisError("ndarray.flags.writeable set to a symbolic value")
            obj.set_writeable(t is sp.true)
            return
        raise AnalysisError(f"attribute store on {obj!r}")

    def hasattr(self, obj, name):
        try:
            self.getattr(obj, name)
            return True
        except SymRaise as e:
            if e.exc == "AttributeError":
                return False
            raise

    def module_attr(self, mod: ModuleVal, name):
        if mod.external:
            return self.lib.external(self, f"{mod.external}.{name}")
        return self.global_name(mod.name, name)

    def import_effects(self, module):
        """Definitions that act when the module is imported, not when they are first used: top-level functions carrying a
        decorator defined in the package (registries), and classes whose base registers its subclasses (__init_subclass__).
        They are evaluated, in source order, the first time anything of the module is looked up."""
        if module in self._imported or module not in self.src.modules:
            return
        self._imported.add(module)
        m = self.src.modules[module]

        def package_decorator(d):
            t = d.func if isinstance(d, ast.Call) else d
            while isinstance(t, ast.Attribute):
                t = t.value
            if not isinstance(t, ast.Name):
                return False
            r = self.src.resolve(module, t.id)
            return bool(r) and r[0] in ("func", "class", "value")

        def registering_base(node):
            for b in node.bases:
                if isinstance(b, ast.Name):
                    r = self.src.resolve(module, b.id)
                    if r and r[0] == "class":
                        n2 = self.src.cls(r[1])
                        if any(isinstance(x, ast.FunctionDef) and x.name == "__init_subclass__" for x in n2.body) \
                                or registering_base(n2) and r[1].split(".")[0] == module:
                            return True
            return False
        for st in m.tree.body:
            try:
                if isinstance(st, ast.FunctionDef) and any(package_decorator(d) for d in st.decorator_list) \
                        and m.bindings.get(st.name) is st:
                    self.global_name(module, st.name)
                elif isinstance(st, ast.ClassDef) and m.bindings.get(st.name) is st and registering_base(st):
                    self.get_class(f"{module}.{st.name}")
            except (AnalysisError, SymRaise) as exc:
                self.import_effect_errors.append((module, getattr(st, "name", "?"), str(exc)))

    def global_name(self, module, name):
        key = (module, name)
        if key in self.module_cache:
            return self.module_cache[key]
        if module not in self._imported:
            self.import_effects(module)
            if key in self.module_cache:
                return self.module_cache[key]
        dotted = f"{module}.{name}"
        hist0 = getattr(self.src.modules.get(module), "history", {}).get(name, []) if module in self.src.modules else []
        if dotted in self.symconst and len(hist0) <= 1:
            return self.symconst[dotted]
        r = self.src.resolve(module, name)
        if r is None:
            if name in self.builtins:
                return self.builtins[name]
            if name == "__debug__":
                return True              # (the checks describe the package as run without -O)
            if name in ("__name__", "__package__"):
                pkg = "periodictable"
                return pkg if module == "__init__" or name == "__package__" else f"{pkg}.{module}"
            raise AnalysisError(f"name {name} in module {module} cannot be resolved")
        if r[0] == "func":
            q = r[1]
            f = self.src.func(q)
            v = self.decorate(Closure(f.node, f.module, q), f.node, Frame(self, f.module, f.module))
        elif r[0] == "class":
            v = self.get_class(r[1])
        elif r[0] == "module":
            v = ModuleVal(r[1]) if r[1] in self.src.modules else ModuleVal(r[1], external=r[1])
        elif r[0] == "external":
            v = self.lib.external(self, r[1])
        elif r[0] == "value":
            home_name = r[3] if len(r) > 3 else name
            dotted = f"{r[1]}.{home_name}"
            hist = getattr(self.src.modules.get(r[1]), "history", {}).get(home_name, [])
            if dotted in self.symconst and len(hist) <= 1:
                return self.symconst[dotted]
            if (r[1], home_name) != key:
                # a name imported from another module of the package is the very object that module holds
                v = self.global_name(r[1], home_name)
                self.module_cache[key] = v
                return v
            # the binding may itself be an imported alias evaluated in its home module
            if len(hist) > 1 and hist[-1] is r[2]:
                # X = <table>; X = g(X): successive module-level assignments, each seeing the one before; a value supplied by a
                # rule (probe table) stands for the first, written-out one
                v = _MISSING
                for i_, node_ in enumerate(hist):
                    fr = Frame(self, r[1], r[1])
                    self._bind_redefined(fr, r[1], node_)
                    if v is not _MISSING:
                        fr.vars[home_name] = v
                    v = self.symconst[dotted] if i_ == 0 and dotted in self.symconst else self.eval(node_, fr)
            else:
                fr = Frame(self, r[1], r[1])
                self._bind_redefined(fr, r[1], r[2])
                self._note_foreign_table(r[1], home_name, r[2])
                v = self.eval(r[2], fr)
        else:
            raise AnalysisError(f"cannot resolve {module}.{name}")
        self.module_cache[key] = v
        return v

    def _note_foreign_table(self, module, name, node):
        """a sizeable literal table of a module for which the rule supplied probe tables, read although no probe stands for
        it: the reader is fed from data the probes do not cover (recorded in self.foreign_tables for the rule to judge)"""
        probed = {k.partition(".")[0] for k, v in self.symconst.items() if isinstance(v, (str, list, dict, tuple)) and not isinstance(v, sp.Basic)}
        if module not in probed or f"{module}.{name}" in self.symconst:
            return
        size = 0
        if isinstance(node, ast.Constant) and isinstance(node.value, str):
            size = node.value.count("\n")
        elif isinstance(node, (ast.Tuple, ast.List, ast.Set)):
            size = len(node.elts)
        elif isinstance(node, ast.Dict):
            size = len(node.keys)
        elif isinstance(node, ast.Call) and node.args and isinstance(node.args[0], (ast.Tuple, ast.List, ast.GeneratorExp)):
            size = len(getattr(node.args[0], "elts", ())) 
        # only a *loader* (an init function: the code the probe tables feed) reading such a table mixes probe rows with the
        # package's rows; a table of notation read by a calculator (residue names, unit prefixes ...) is none of the probes' business
        in_loader = any(getattr(f_, "qual", "").rsplit(".", 1)[-1] in ("init", "energy_dependent_init") or getattr(f_, "qual", "").endswith("_init")
                        for f_ in getattr(self, "dyn_stack", []))
        if size >= 8 and in_loader:
            raise AnalysisError(f"{module}.{name}, an embedded table of {size} entries for which the analysis has no probe, is read while probe tables "
                                f"stand for the other tables of {module}: the probes do not cover the package's data")

    def _bind_redefined(self, fr, module, value_node):
        """a module-level statement sees, for a function name defined several times in the module (def _ ...; def _ ...),
        the definition that precedes it"""
        m = self.src.modules.get(module)
        for name, nodes in getattr(m, "func_history", {}).items():
            if len(nodes) > 1:
                before = [n for n in nodes if n.lineno < getattr(value_node, "lineno", 0)]
                if before:
                    fr.vars[name] = self.decorate(Closure(before[-1], module, f"{module}.{name}"), before[-1], Frame(self, module, module))

    def _stub_key(self, qual):
        """the key under which a rule stubbed this function: its own address, or the public address it is re-exported at"""
        if qual in self.stubs:
            return qual
        for k in self.stubs:
            if k.rsplit(".", 1)[-1] != qual.rsplit(".", 1)[-1]:
                continue
            try:
                if self.src.func(k).qual == qual:
                    return k
            except AnalysisError:
                continue
        return None

    def bound(self, qual, args, kwargs):
        """{parameter name: value} for a call of the package function *qual* (however the caller spelled the arguments)"""
        f = self.src.func(qual)
        names = [p.arg for p in f.node.args.posonlyargs + f.node.args.args]
        out = dict(zip(names, args))
        out.update(kwargs)
        return out

    # ------------------------------------------------------------------- calls
    def call(self, fn, args, kwargs, where=None):
        if self.call_log is not None and isinstance(fn, (Closure, BoundMethod)):
            from .symval import GenVal as _GV          # (an iterator argument is recorded as what it still holds at the call)
            self.call_log.append((fn, [list(a.items[a.pos:]) if isinstance(a, _GV) else a for a in args], dict(kwargs)))
        if isinstance(fn, BoundMethod):
            return self.call(fn.fn, [fn.selfval] + list(args), kwargs, where)
        if isinstance(fn, Builtin):
            for i, a in enumerate(args):
                if isinstance(a, Phi) and fn.name not in ("isinstance", "getattr", "hasattr", "setattr"):
                    r1 = self.call(fn, list(args[:i]) + [a.a] + list(args[i + 1:]), kwargs)
                    r2 = self.call(fn, list(args[:i]) + [a.b] + list(args[i + 1:]), kwargs)
                    return merge(a.cond, r1, r2)
            return fn.fn(*args, **kwargs)
        if isinstance(fn, ClassVal):
            return self.instantiate(fn, args, kwargs)
        if isinstance(fn, Closure):
            if self.stubs:
                k = self._stub_key(fn.qual)
                if k is not None:
                    return self.stubs[k](self, args, kwargs)
            return self.call_closure(fn, args, kwargs)
        if isinstance(fn, Phi):
            return merge(fn.cond, self.call(fn.a, args, kwargs), self.call(fn.b, args, kwargs))
        if isinstance(fn, self.lib.NTupleClass):
            return fn.make(list(args), dict(kwargs))
        if isinstance(fn, SymObj) and fn.cls is not None:
            m = fn.cls.lookup("__call__")
            if m is not _MISSING:
                return self.call(BoundMethod(m, fn), args, kwargs, where)
        if callable(fn):
            return fn(*args, **kwargs)
        raise AnalysisError(f"call of non-callable {fn!r}")

    def call_closure(self, fn: Closure, args, kwargs):
        # distribute a call over a phi argument: f(phi(c,a,b)) = phi(c, f(a), f(b))
        for i, a in enumerate(args):
            if isinstance(a, Phi):
                snap0 = self.snapshot_heap()
                r1 = self.call_closure(fn, list(args[:i]) + [a.a] + list(args[i + 1:]), kwargs)
                snap1 = self.snapshot_heap()
                self.restore_heap(snap0)
                r2 = self.call_closure(fn, list(args[:i]) + [a.b] + list(args[i + 1:]), kwargs)
                snap2 = self.snapshot_heap()
                self.restore_heap(self.merge_states(a.cond, ([], *snap1), ([], *snap2))[1:])
                return merge(a.cond, r1, r2)
        if self.depth >= MAX_DEPTH:
            raise AnalysisError(f"inlining depth exceeded at {fn.qual}")
        memo = getattr(fn, "memo", None)
        if memo is not None:
            # the memo lives in the heap (under a key of its own), so that snapshots, joins and restores treat the containers it
            # hands out like any other shared state: a local name bound to a memoised dictionary stays an alias of it
            memo = self.heap.setdefault(("memo", fn.qual), memo if isinstance(memo, dict) else {})
            # functools.lru_cache / cache: one result object per distinct argument tuple
            def hk(v):
                if isinstance(v, (list, dict, set)):
                    raise SymRaise("TypeError", "unhashable argument of a cached function")
                if isinstance(v, tuple):
                    return tuple(hk(x) for x in v)
                return v if isinstance(v, (str, int, float, bool, type(None), sp.Basic)) else id(v)
            key = (tuple(hk(a) for a in args), tuple(sorted((k, hk(v)) for k, v in kwargs.items())))
            if key in memo:
                return memo[key]
            fn.memo = None
            try:
                r = self.call_closure(fn, args, kwargs)
            finally:
                fn.memo = {}
            self.heap.setdefault(("memo", fn.qual), {})[key] = r      # (the heap may have been replaced by a copy meanwhile)
            return r
        node = fn.node
        frame = Frame(self, fn.module, fn.qual, parent=fn.frame, cls=fn.cls)
        self.bind_params(node.args, args, kwargs, frame, fn)
        if fn.cls is not None and args:
            frame.vars["$self"] = args[0]
        self.calls.append(fn.qual)
        self.depth += 1
        if not hasattr(self, "dyn_stack"):
            self.dyn_stack = []
        self.dyn_stack.append(frame)
        try:
            if isinstance(node, ast.Lambda):
                return self.eval(node.body, frame)
            is_gen = any(isinstance(n, (ast.Yield, ast.YieldFrom)) for n in _walk_fn(node))
            if is_gen:
                frame.vars["$yield"] = []
            live = self.exec_block(node.body, frame, sp.true) is not False
            if is_gen:
                from .symval import GenVal

                def gen(y):
                    return merge(y.cond, gen(y.a), gen(y.b)) if isinstance(y, Phi) else GenVal(y)
                return gen(frame.vars["$yield"])
            return self.finish(frame, live)
        finally:
            self.depth -= 1
            self.dyn_stack.pop()

    IDENTITY_DECORATORS = {"require_keywords", "util.require_keywords"}

    def decorate(self, fn, node, frame):
        """Apply the decorators of a function definition (module level or nested)."""
        if not isinstance(node, ast.FunctionDef):
            return fn
        for d in reversed(node.decorator_list):
            text = ast.unparse(d)
            base = text.split("(")[0]
            if base in self.IDENTITY_DECORATORS or base.endswith(".require_keywords"):
                continue            # forces keyword arguments; the body is unchanged
            if base in ("property", "staticmethod", "classmethod") or base.endswith(".setter"):
                continue            # handled where the class body is interpreted
            if base.split(".")[-1] in ("lru_cache", "cache", "cached_property"):
                fn.memo = {}
                continue
            if base.split(".")[-1] == "wraps":
                continue
            # any other decorator: evaluate it and apply it to the function, as Python does
            try:
                dec = self.eval(d, frame)
            except SymRaise as exc:
                raise AnalysisError(f"decorator @{text} on {getattr(fn, 'qual', fn)} cannot be evaluated: {exc}")
            fn = self.call(dec, [fn], {})
        return fn

    def exec_while(self, st, frame, pc):
        n = 0
        while True:
            c = self.truth(self.eval(st.test, frame))
            if c is sp.false:
                break
            if c is not sp.true:
                if getattr(self, "havoc_loops", False) and not any(isinstance(x, (ast.Return, ast.Yield, ast.YieldFrom)) for x in ast.walk(st)):
                    # a loop whose trip count depends on symbolic data (an iteration to convergence): what it computes is not
                    # followed; every name it assigns becomes an unknown real value, and execution goes on after the loop
                    self.havoc_count = getattr(self, "havoc_count", 0) + 1
                    names = set()
                    for x in ast.walk(st):
                        if isinstance(x, ast.Name) and isinstance(x.ctx, ast.Store):
                            names.add(x.id)
                    for nm in sorted(names):
                        frame.vars[nm] = sp.Symbol(f"loop{self.havoc_count}_{nm}", real=True)
                    break
                raise AnalysisError(f"while loop with a symbolic condition in {frame.qual}")
            n += 1
            if n > 20000:
                raise AnalysisError(f"while loop does not terminate within the budget in {frame.qual}")
            n0 = len(frame.exits)
            live = self.exec_block(st.body, frame, pc)
            if live is not True and live is not False:
                pc = live if pc is sp.true else sp.And(pc, live)
                live = True
            new = frame.exits[n0:]
            lx = [x for x in new if x[0] in ("continue", "break")]
            if lx:
                if any(x[1] is not pc and x[1] != pc for x in lx):
                    raise AnalysisError(f"conditional break/continue in a while loop under a symbolic condition ({frame.qual})")
                del frame.exits[n0:]
                frame.exits.extend(x for x in new if x[0] not in ("continue", "break"))
                self.restore(lx[0][2])
                if lx[0][0] == "break":
                    return True
                continue
            if not live:
                return False
        if st.orelse:
            return self.exec_block(st.orelse, frame, pc)
        return True

    def finish(self, frame, live):
        rets = [(c, v) for k, c, v in frame.exits if k == "return"]
        raises = [(c, v) for k, c, v in frame.exits if k == "raise"]
        for c, v in raises:
            self.raises.append((c, v.exc, frame.qual))
        if live:
            rets.append((sp.true, None))
        if not rets:
            if raises:
                r = raises[0][1]
                raise SymRaise(r.exc, r.msg)
            return None
        out = rets[-1][1]
        for c, v in reversed(rets[:-1]):
            out = merge(c, v, out)
        return out

    def bind_params(self, a: ast.arguments, args, kwargs, frame, fn):
        names = [p.arg for p in a.posonlyargs + a.args]
        args = list(args)
        kwargs = dict(kwargs)
        n = len(names)
        defaults = [None] * (n - len(a.defaults)) + list(a.defaults)
        defframe = Frame(self, fn.module, fn.qual + ".<defaults>", parent=fn.frame)
        for i, nm in enumerate(names):
            if i < len(args):
                frame.vars[nm] = args[i]
            elif nm in kwargs:
                frame.vars[nm] = kwargs.pop(nm)
            elif defaults[i] is not None:
                frame.vars[nm] = self.eval(defaults[i], defframe)
            else:
                raise SymRaise("TypeError", f"missing argument {nm} of {fn.qual}")
        extra = args[n:]
        if a.vararg:
            frame.vars[a.vararg.arg] = tuple(extra)
        elif extra:
            raise SymRaise("TypeError", f"too many arguments for {fn.qual}")
        for p, d in zip(a.kwonlyargs, a.kw_defaults):
            if p.arg in kwargs:
                frame.vars[p.arg] = kwargs.pop(p.arg)
            elif d is not None:
                frame.vars[p.arg] = self.eval(d, defframe)
            else:
                raise SymRaise("TypeError", f"missing keyword {p.arg}")
        if a.kwarg:
            frame.vars[a.kwarg.arg] = kwargs
        elif kwargs:
            raise SymRaise("TypeError", f"unexpected keywords {list(kwargs)} for {fn.qual}")

    # ------------------------------------------------------------- statements
    def snapshot(self, frame):
        """Copy of everything a branch may mutate."""
        memo = {}
        fr_vars = []
        seen = set()
        # the lexical chain of the current frame and of every frame on the (dynamic) call stack: a container handed to a
        # callee and changed there under a condition is the same object in the caller
        for start in [frame] + list(reversed(getattr(self, "dyn_stack", []))):
            f = start
            while f is not None and id(f) not in seen:
                seen.add(id(f))
                fr_vars.append((f, _cp(f.vars, memo)))
                f = f.parent
        heap = {k: _cp(v, memo) for k, v in self.heap.items()}
        cattrs = {q: dict(c.attrs) for q, c in self.classes.items()}
        return fr_vars, heap, cattrs

    def snapshot_heap(self):
        memo = {}
        return ({k: _cp(v, memo) for k, v in self.heap.items()},
                {q: dict(c.attrs) for q, c in self.classes.items()})

    def restore_heap(self, snap):
        heap, cattrs = snap
        self.heap = heap
        for q, a in cattrs.items():
            self.classes[q].attrs = a

    def restore(self, snap):
        fr_vars, heap, cattrs = snap
        for f, v in fr_vars:
            f.vars = v
        self.heap = heap
        for q, a in cattrs.items():
            self.classes[q].attrs = a

    def merge_states(self, cond, s1, s2):
        """State where cond ? s1 : s2 (both are snapshots)."""
        fr1, h1, c1 = s1
        fr2, h2, c2 = s2
        out_fr = []
        for (f, v1), (_, v2) in zip(fr1, fr2):
            mv = {}
            for k in set(v1) | set(v2):
                if k in v1 and k in v2:
                    mv[k] = merge(cond, v1[k], v2[k])
                else:
                    mv[k] = v1.get(k, v2.get(k))   # defined on one side only
            out_fr.append((f, mv))
        heap = {}
        for oid in set(h1) | set(h2):
            a1, a2 = h1.get(oid), h2.get(oid)
            if a1 is None or a2 is None:
                heap[oid] = a1 if a2 is None else a2
                continue
            d = {}
            for k in set(a1) | set(a2):
                if k in a1 and k in a2:
                    d[k] = merge(cond, a1[k], a2[k])
                else:
                    d[k] = a1.get(k, a2.get(k))
            heap[oid] = d
        cattrs = {}
        for q in set(c1) | set(c2):
            x1, x2 = c1.get(q, {}), c2.get(q, {})
            d = {}
            for k in set(x1) | set(x2):
                if k in x1 and k in x2:
                    d[k] = x1[k] if x1[k] is x2[k] else merge(cond, x1[k], x2[k])
                else:
                    d[k] = x1.get(k, x2.get(k))
            cattrs[q] = d
        return out_fr, heap, cattrs

    def exec_block(self, stmts, frame, pc):
        """Execute statements.  Returns False when every path left the block, True when execution continues,
        or a condition c when it continues only on the paths where c holds (an earlier branch returned or raised)."""
        extra = None
        for st in stmts:
            r = self.exec_stmt(st, frame, pc)
            if r is False:
                return False
            if r is not True and r is not None:
                pc = r if pc is sp.true else sp.And(pc, r)
                extra = r if extra is None else sp.And(extra, r)
        return True if extra is None else extra

    def exec_stmt(self, st, frame, pc) -> bool:
        if isinstance(st, ast.Expr):
            if isinstance(st.value, ast.Constant):
                return True
            if isinstance(st.value, (ast.Yield,)):
                self._yield(frame, [self.eval(st.value.value, frame) if st.value.value is not None else None])
                return True
            if isinstance(st.value, ast.YieldFrom):
                self._yield(frame, self.lib.iterate(self, self.eval(st.value.value, frame)))
                return True
            self.eval(st.value, frame)
            return True
        if isinstance(st, ast.Assign):
            v = self.eval(st.value, frame)
            for t in st.targets:
                self.assign(t, v, frame)
            return True
        if isinstance(st, ast.AnnAssign):
            if st.value is not None:
                self.assign(st.target, self.eval(st.value, frame), frame)
            return True
        if isinstance(st, ast.AugAssign):
            cur = self.eval(_load(st.target), frame)
            rhs = self.eval(st.value, frame)
            if isinstance(cur, list) and isinstance(st.op, ast.Add):
                cur.extend(list(rhs))
                return True
            if isinstance(cur, Vec):
                # numpy arrays are updated in place (a row view stays a view of its table)
                if getattr(cur, "readonly", False):
                    raise SymRaise("ValueError", "output array is read-only")
                res = self.lib.binop(self, st.op, cur, rhs)
                if isinstance(res, Vec) and len(res) == len(cur):
                    cur.items[:] = res.items
                    return True
            # Formula.__iadd__ and friends
            if isinstance(cur, SymObj) and cur.cls is not None:
                nm = {ast.Add: "__iadd__", ast.Mult: "__imul__"}.get(type(st.op))
                m = cur.cls.lookup(nm) if nm else _MISSING
                if m is not _MISSING:
                    self.assign(st.target, self.call(BoundMethod(m, cur), [rhs], {}), frame)
                    return True
            self.assign(st.target, self.lib.binop(self, st.op, cur, rhs), frame)
            return True
        if isinstance(st, ast.Return):
            v = self.eval(st.value, frame) if st.value is not None else None
            frame.exits.append(("return", pc, v))
            return False
        if isinstance(st, ast.Raise):
            exc, msg = "Exception", ""
            if st.exc is not None:
                e = st.exc
                if isinstance(e, ast.Call) and isinstance(e.func, ast.Name):
                    exc = e.func.id
                elif isinstance(e, ast.Name):
                    exc = e.id
            if pc is sp.true:
                raise SymRaise(exc, msg, site=(frame.qual, st.lineno))
            frame.exits.append(("raise", pc, Raised(exc, msg)))
            return False
        if isinstance(st, ast.If):
            return self.exec_if(st, frame, pc)
        if isinstance(st, ast.For):
            return self.exec_for(st, frame, pc)
        if isinstance(st, ast.Pass):
            return True
        if isinstance(st, (ast.FunctionDef,)):
            frame.vars[st.name] = self.decorate(Closure(st, frame.module, f"{frame.qual}.{st.name}", frame), st, frame)
            return True
        if isinstance(st, ast.While):
            return self.exec_while(st, frame, pc)
        if isinstance(st, ast.Nonlocal):
            frame.nonlocals.update(st.names)
            return True
        if isinstance(st, ast.Assert):
            c = self.truth(self.eval(st.test, frame))
            self.asserts.append((sp.Implies(pc, c) if pc is not sp.true else c, ast.unparse(st.test), frame.qual))
            if c is sp.false:
                raise SymRaise("AssertionError", ast.unparse(st.test))
            return True
        if isinstance(st, (ast.Import, ast.ImportFrom)):
            self.exec_import(st, frame)
            return True
        if isinstance(st, ast.Try):
            return self.exec_try(st, frame, pc)
        if isinstance(st, ast.With):
            # context managers are modelled as their value (files); __exit__ has no analysed effect
            suppressed = []
            for item in st.items:
                v = self.eval(item.context_expr, frame)
                if isinstance(v, tuple) and len(v) == 2 and v[0] == "<suppress>":
                    suppressed.append(item.context_expr)
                    v = None
                if item.optional_vars is not None:
                    self.assign(item.optional_vars, v, frame)
            if suppressed:
                # with suppress(E1, E2): body   ==   try: body / except (E1, E2): pass
                handlers = [ast.ExceptHandler(type=(a_ if len(sx.args) == 1 else ast.Tuple(elts=list(sx.args), ctx=ast.Load())),
                                              name=None, body=[ast.Pass()])
                            for sx in suppressed for a_ in [sx.args[0] if sx.args else None] if sx.args]
                t = ast.Try(body=st.body, handlers=handlers, orelse=[], finalbody=[])
                ast.copy_location(t, st)
                ast.fix_missing_locations(t)
                return self.exec_try(t, frame, pc)
            return self.exec_block(st.body, frame, pc)
        if isinstance(st, ast.Delete):
            for t in st.targets:
                if isinstance(t, ast.Subscript):
                    base = self.eval(t.value, frame)
                    key = self.eval(t.slice, frame)
                    if isinstance(base, (dict, list)):
                        del base[key]
                        continue
                if isinstance(t, ast.Attribute):
                    base = self.eval(t.value, frame)
                    if isinstance(base, SymObj):
                        self.heap[base.id].pop(t.attr, None)
                        continue
                    if isinstance(base, Closure):
                        getattr(base, "fattrs", {}).pop(t.attr, None)       # del f.__wrapped__ and the like
                        continue
                if isinstance(t, ast.Name) and pc is sp.true and t.id in frame.vars:
                    del frame.vars[t.id]                                          # del of a local / loop variable
                    continue
                if isinstance(t, ast.Tuple) and pc is sp.true and all(isinstance(e, ast.Name) and e.id in frame.vars for e in t.elts):
                    for e in t.elts:
                        del frame.vars[e.id]
                    continue
                raise AnalysisError(f"unmodelled del {ast.unparse(t)}")
            return True
        if isinstance(st, ast.Continue):
            frame.exits.append(("continue", pc, self.snapshot(frame)))
            return False
        if isinstance(st, ast.Break):
            frame.exits.append(("break", pc, self.snapshot(frame)))
            return False
        if isinstance(st, ast.Global):
            frame.globals.update(st.names)
            return True
        if hasattr(ast, "Match") and isinstance(st, ast.Match):
            return self.exec_match(st, frame, pc)
        raise AnalysisError(f"statement form {st.__class__.__name__} not modelled "
                            f"({frame.qual}:{getattr(st, 'lineno', '?')})")

    def _yield(self, frame, values):
        """append to the generator's output; after a data-dependent branch the output is a merged value with one list per arm"""
        def add(y):
            if isinstance(y, Phi):
                add(y.a); add(y.b)
            else:
                y.extend(values)
        add(frame.lookup("$yield"))

    def exec_match(self, st, frame, pc):
        """match/case over a value whose comparisons with the patterns are decided (literals, captures, sequences, or-patterns)"""
        subject = self.eval(st.subject, frame)

        def matches(pat, val, binds):
            if isinstance(pat, ast.MatchValue):
                r = self.lib.compare(self, ast.Eq(), val, self.eval(pat.value, frame))
                if r is True or r is False:
                    return r
                raise AnalysisError(f"match on a value whose comparison with a pattern is symbolic ({frame.qual})")
            if isinstance(pat, ast.MatchSingleton):
                return val is pat.value
            if isinstance(pat, ast.MatchAs):
                if pat.pattern is not None and not matches(pat.pattern, val, binds):
                    return False
                if pat.name is not None:
                    binds[pat.name] = val
                return True
            if isinstance(pat, ast.MatchOr):
                return any(matches(p, val, binds) for p in pat.patterns)
            if isinstance(pat, ast.MatchSequence):
                if not isinstance(val, (list, tuple)):
                    if isinstance(val, (Vec, Phi)) or (isinstance(val, SymObj) and val.cls is None):
                        raise AnalysisError(f"sequence pattern against {val!r} ({frame.qual})")
                    return False
                stars = [i for i, p in enumerate(pat.patterns) if isinstance(p, ast.MatchStar)]
                if stars:
                    i = stars[0]
                    before, after = pat.patterns[:i], pat.patterns[i + 1:]
                    if len(val) < len(before) + len(after):
                        return False
                    mid = list(val[len(before):len(val) - len(after)])
                    if not all(matches(p, v, binds) for p, v in zip(before, val)):
                        return False
                    if after and not all(matches(p, v, binds) for p, v in zip(after, val[len(val) - len(after):])):
                        return False
                    if pat.patterns[i].name is not None:
                        binds[pat.patterns[i].name] = mid
                    return True
                return len(val) == len(pat.patterns) and all(matches(p, v, binds) for p, v in zip(pat.patterns, val))
            if isinstance(pat, ast.MatchMapping):
                if not isinstance(val, dict):
                    return False
                used = []
                for k, p in zip(pat.keys, pat.patterns):
                    kk = self.lib.dict_key(self, val, self.eval(k, frame))
                    if kk not in val or not matches(p, val[kk], binds):
                        return False
                    used.append(kk)
                if pat.rest is not None:
                    binds[pat.rest] = {k: v for k, v in val.items() if k not in used}
                return True
            if isinstance(pat, ast.MatchClass):
                kls = self.eval(pat.cls, frame)
                r = self.call(self.builtins["isinstance"], [val, kls], {})
                if r is not True and r is not False:
                    raise AnalysisError(f"class pattern whose isinstance test is symbolic ({frame.qual})")
                if not r:
                    return False
                if pat.patterns:
                    if isinstance(kls, Builtin):
                        if len(pat.patterns) != 1:
                            raise SymRaise("TypeError", f"{kls.name}() accepts 1 positional sub-pattern")
                        if not matches(pat.patterns[0], val, binds):
                            return False
                    else:
                        if getattr(kls, "ntuple", None):
                            names = list(kls.ntuple.fields)
                        else:
                            ma = kls.lookup("__match_args__") if isinstance(kls, ClassVal) else _MISSING
                            if ma is _MISSING and getattr(kls, "dc_fields", None) is not None:
                                ma = tuple(f_.name for f_ in kls.dc_fields if f_.init)
                            if ma is _MISSING:
                                raise SymRaise("TypeError", f"{kls!r} accepts 0 positional sub-patterns")
                            names = list(ma)
                        if len(pat.patterns) > len(names):
                            raise SymRaise("TypeError", "too many positional sub-patterns")
                        for nm_, p in zip(names, pat.patterns):
                            try:
                                sub = self.getattr(val, nm_)
                            except SymRaise as e_:
                                if e_.exc == "AttributeError":
                                    return False
                                raise
                            if not matches(p, sub, binds):
                                return False
                for nm_, p in zip(pat.kwd_attrs, pat.kwd_patterns):
                    try:
                        sub = self.getattr(val, nm_)
                    except SymRaise as e_:
                        if e_.exc == "AttributeError":
                            return False
                        raise
                    if not matches(p, sub, binds):
                        return False
                return True
            raise AnalysisError(f"match pattern {pat.__class__.__name__} not modelled ({frame.qual})")
        for case in st.cases:
            binds = {}
            if matches(case.pattern, subject, binds):
                for k, v in binds.items():
                    frame.vars[k] = v
                if case.guard is not None:
                    g = self.truth(self.eval(case.guard, frame))
                    if g is sp.false:
                        continue
                    if g is not sp.true:
                        raise AnalysisError(f"match guard with a symbolic condition ({frame.qual})")
                return self.exec_block(case.body, frame, pc)
        return True

    def exec_import(self, st, frame):
        if isinstance(st, ast.ImportFrom):
            mod = st.module or ""
            if st.level >= 1:
                for a in st.names:
                    local = a.asname or a.name
                    if mod == "":
                        frame.vars[local] = ModuleVal(a.name)
                    else:
                        frame.vars[local] = self.global_name(mod, a.name)
            else:
                for a in st.names:
                    frame.vars[a.asname or a.name] = self.lib.external(self, f"{mod}.{a.name}")
        else:
            for a in st.names:
                frame.vars[a.asname or a.name.split(".")[0]] = ModuleVal(a.name, external=a.name)

    def exec_if(self, st, frame, pc):
        c = self.truth(self.eval(st.test, frame))
        if c is sp.true:
            return self.exec_block(st.body, frame, pc)
        if c is sp.false:
            return self.exec_block(st.orelse, frame, pc)
        snap0 = self.snapshot(frame)
        live1 = self.exec_block(st.body, frame, sp.And(pc, c) if pc is not sp.true else c)
        snap1 = self.snapshot(frame)
        self.restore(snap0)
        nc = sp.Not(c)
        live2 = self.exec_block(st.orelse, frame, sp.And(pc, nc) if pc is not sp.true else nc)
        if live1 is not False and live2 is not False:
            snap2 = self.snapshot(frame)
            self.restore(self.merge_states(c, snap1, snap2))
            return True
        if live1 is not False:
            self.restore(snap1)
            return c if live1 is True else sp.And(c, live1)
        if live2 is False:
            return False
        return nc if live2 is True else sp.And(nc, live2)

    def exec_for(self, st, frame, pc, it=_MISSING):
        if it is _MISSING:
            it = self.eval(st.iter, frame)
        if isinstance(it, Phi):
            # loop over phi(c, A, B): run it for A under c and for B under not c, then join
            c = it.cond
            snap0 = self.snapshot(frame)
            live1 = self.exec_for(st, frame, sp.And(pc, c) if pc is not sp.true else c, it.a)
            snap1 = self.snapshot(frame)
            self.restore(snap0)
            nc = sp.Not(c)
            live2 = self.exec_for(st, frame, sp.And(pc, nc) if pc is not sp.true else nc, it.b)
            if live1 and live2:
                self.restore(self.merge_states(c, snap1, self.snapshot(frame)))
                return True
            if live1:
                self.restore(snap1)
                return True
            return live2
        from .symval import GenVal
        if isinstance(it, GenVal):
            def lazily(g=it):
                # a generator/iterator is consumed item by item (the body may call next() on it)
                while g.pos < len(g.items):
                    g.pos += 1
                    yield g.items[g.pos - 1]
            items = lazily()
        else:
            items = self.lib.iterate(self, it)
        breaks = []          # (absolute path condition, state at the break)
        cur_pc = pc
        live = True
        for item in items:
            self.assign(st.target, item, frame)
            n0 = len(frame.exits)
            live = self.exec_block(st.body, frame, cur_pc)
            if live is not True and live is not False:
                cur_pc = live if cur_pc is sp.true else sp.And(cur_pc, live)
                live = True
            new = frame.exits[n0:]
            del frame.exits[n0:]
            frame.exits.extend(x for x in new if x[0] not in ("continue", "break"))
            conts = [(c, sn) for k, c, sn in new if k == "continue"]
            brks = [(c, sn) for k, c, sn in new if k == "break"]
            if conts:
                state = self.snapshot(frame) if live else None
                for c, sn in reversed(conts):
                    state = sn if state is None else self.merge_states(c, sn, state)
                self.restore(state)
                live = True
            for c, sn in brks:
                breaks.append((c, sn))
                cur_pc = sp.And(cur_pc, sp.Not(c)) if cur_pc is not sp.true else sp.Not(c)
            if not live:
                break
        if breaks:
            if st.orelse and live:
                # the else-clause runs on the paths that never broke out of the loop
                if any(c is sp.true for c, _ in breaks):
                    live = False
                else:
                    r_else = self.exec_block(st.orelse, frame, cur_pc)
                    if r_else is False:
                        live = False
            state = self.snapshot(frame) if live else None
            for c, sn in reversed(breaks):
                state = sn if state is None else self.merge_states(c, sn, state)
            self.restore(state)
            return True
        if not live:
            return False
        if st.orelse:
            return self.exec_block(st.orelse, frame, pc)
        return True

    def exec_try(self, st, frame, pc):
        try:
            live = self.exec_block(st.body, frame, pc) is not False
        except SymRaise as e:
            for h in st.handlers:
                hn = None
                if h.type is not None:
                    hn = h.type.id if isinstance(h.type, ast.Name) else None
                    if hn is None and isinstance(h.type, ast.Tuple):
                        if any(exc_matches(e.exc, x.id) for x in h.type.elts if isinstance(x, ast.Name)):
                            hn = e.exc
                        else:
                            continue
                if exc_matches(e.exc, hn):
                    # side effects made before the exception stay (Python does not roll them back)
                    if h.name:
                        frame.vars[h.name] = self.new_obj(f"<exc {e.exc}>")
                    live = self.exec_block(h.body, frame, pc) is not False
                    break
            else:
                raise
        else:
            if st.orelse and live:
                live = self.exec_block(st.orelse, frame, pc) is not False
        if st.finalbody and live:
            live = self.exec_block(st.finalbody, frame, pc) is not False
        return live

    def assign(self, target, value, frame):
        if isinstance(target, ast.Name):
            fn = frame
            while fn is not None and not fn.nonlocals and not fn.globals and fn.parent is not None and fn.parent.qual == fn.qual:
                fn = fn.parent        # comprehension sub-frames share the declarations of their function
            if fn is not None and target.id in fn.globals:
                self.module_cache[(frame.module, target.id)] = value
                return
            if fn is not None and target.id in fn.nonlocals:
                up = fn.parent
                while up is not None and target.id not in up.vars:
                    up = up.parent
                if up is None:
                    raise AnalysisError(f"nonlocal {target.id} has no binding in an enclosing function ({frame.qual})")
                up.vars[target.id] = value
                return
            frame.vars[target.id] = value
        elif isinstance(target, (ast.Tuple, ast.List)):
            vals = self.lib.iterate(self, value)
            stars = [i for i, t in enumerate(target.elts) if isinstance(t, ast.Starred)]
            if stars:
                if len(stars) > 1 or len(vals) < len(target.elts) - 1:
                    raise SymRaise("ValueError", "unpack arity")
                i = stars[0]
                after = len(target.elts) - i - 1
                mid = vals[i:len(vals) - after]
                for t, v in zip(target.elts[:i], vals[:i]):
                    self.assign(t, v, frame)
                self.assign(target.elts[i].value, list(mid), frame)
                for t, v in zip(target.elts[i + 1:], vals[len(vals) - after:]):
                    self.assign(t, v, frame)
                return
            if len(vals) != len(target.elts):
                raise SymRaise("ValueError", "unpack arity")
            for t, v in zip(target.elts, vals):
                self.assign(t, v, frame)
        elif isinstance(target, ast.Attribute):
            self.setattr(self.eval(target.value, frame), target.attr, value)
        elif isinstance(target, ast.Subscript):
            base = self.eval(target.value, frame)
            key = self.eval_slice(target.slice, frame)
            if isinstance(target.value, (ast.Name, ast.Attribute)):
                # evaluating the key may have joined branches (states are copied at a join): the container is looked up again
                # so that the store lands in the live object
                base = self.eval(target.value, frame)
            if isinstance(key, sp.Integer):
                key = int(key)
            stack = [base]
            while any(isinstance(b, Phi) for b in stack):
                stack = [x for b in stack for x in ((b.a, b.b) if isinstance(b, Phi) else (b,))]
            if len(stack) > 1 and all(isinstance(b, (dict, list)) for b in stack):
                for b in stack:
                    b[key] = value       # the store happens on whichever alternative is live
                return
            if isinstance(base, dict):
                base[self.lib.dict_key(self, base, key)] = value
            elif isinstance(base, list):
                if isinstance(key, slice):
                    base[key] = list(self.lib.iterate(self, value))      # x[i:j] = <any iterable>
                else:
                    base[key] = value
            elif isinstance(base, Vec) and getattr(base, "readonly", False):
                raise SymRaise("ValueError", "assignment destination is read-only")
            elif isinstance(base, Vec) and isinstance(key, int):
                base.items[key] = value
            elif isinstance(base, Vec) and isinstance(key, Vec):
                self._masked_store(base, key, value)
            elif isinstance(base, Vec) and isinstance(key, tuple) and len(key) == 2 and isinstance(key[1], Vec):
                rows = base.items[key[0]] if isinstance(key[0], slice) else [base.items[self.lib.concrete_int(key[0])]]
                for row in rows:           # a[i, mask] = v  /  a[:, mask] = v
                    if not isinstance(row, Vec):
                        raise AnalysisError("masked store into a scalar row")
                    self._masked_store(row, key[1], value)
            else:
                raise AnalysisError(f"subscript store on {base!r}")
        else:
            raise AnalysisError(f"assignment target {target.__class__.__name__}")

    def _masked_store(self, vec, mask, value):
        """x[mask] = value, element-wise; an undecided mask entry keeps both outcomes under its condition"""
        if len(mask) != len(vec):
            raise SymRaise("IndexError", "boolean index did not match indexed array")
        if isinstance(value, Vec):
            # x[mask] = values: one value per selected element, in order (the mask has to be decided for that)
            decided = [self.truth(m) for m in mask.items]
            if any(c is not sp.true and c is not sp.false for c in decided):
                raise AnalysisError("x[mask] = array with a mask whose entries are not decided")
            picked = [i for i, c in enumerate(decided) if c is sp.true]
            if len(value) == 1:
                for i in picked:
                    vec.items[i] = value.items[0]
                return
            if len(picked) != len(value):
                raise SymRaise("ValueError", "NumPy boolean array indexing assignment cannot assign the given number of values")
            for i, v in zip(picked, value.items):
                vec.items[i] = v
            return
        for i, m in enumerate(mask.items):
            c = self.truth(m)
            if c is sp.true:
                vec.items[i] = value
            elif c is not sp.false:
                vec.items[i] = merge(c, value, vec.items[i])

    # ------------------------------------------------------------ expressions
    def truth(self, v):
        return self.lib.truth(self, v)

    def eval_slice(self, sl, frame):
        if isinstance(sl, ast.Slice):
            g = lambda n: None if n is None else self.lib.concrete_int(self.eval(n, frame))
            return slice(g(sl.lower), g(sl.upper), g(sl.step))
        if isinstance(sl, ast.Tuple):
            return tuple(self.eval_slice(e, frame) for e in sl.elts)
        return self.eval(sl, frame)

    def eval(self, node, frame):
        m = getattr(self, "e_" + node.__class__.__name__, None)
        if m is None:
            raise AnalysisError(f"expression form {node.__class__.__name__} not modelled in {frame.qual}")
        return m(node, frame)

    def e_Constant(self, n, f):
        v = n.value
        if isinstance(v, (int, float, complex)) and not isinstance(v, bool):
            return to_expr(v)
        return v

    def e_Name(self, n, f):
        v = f.lookup(n.id)
        if v is not _MISSING:
            return v
        if n.id in ("True", "False", "None"):
            return {"True": True, "False": False, "None": None}[n.id]
        r = self.src.resolve(f.module, n.id)
        if r is None and n.id in self.builtins:
            return self.builtins[n.id]
        return self.global_name(f.module, n.id)

    def e_Attribute(self, n, f):
        return self.getattr(self.eval(n.value, f), n.attr)

    def e_BinOp(self, n, f):
        return self.lib.binop(self, n.op, self.eval(n.left, f), self.eval(n.right, f))

    def e_UnaryOp(self, n, f):
        v = self.eval(n.operand, f)
        if isinstance(n.op, ast.Not):
            return sp.Not(self.truth(v)) if not isinstance(self.truth(v), bool) else (not self.truth(v))
        if isinstance(n.op, ast.USub):
            return self.lib.binop(self, ast.Mult(), to_expr(-1), v)
        if isinstance(n.op, ast.UAdd):
            return v
        if isinstance(n.op, ast.Invert):
            from . import peg
            if isinstance(v, peg.PE):
                return peg.NotAny(v)

            def inv(x):
                if isinstance(x, Vec):
                    return Vec([inv(i) for i in x.items], x.col)
                if isinstance(x, bool):
                    return not x
                if isinstance(x, sp.logic.boolalg.Boolean):
                    r = sp.Not(x)
                    return True if r is sp.true else False if r is sp.false else r
                if is_expr(x) and to_expr(x).is_Integer:
                    return sp.Integer(~int(to_expr(x)))
                raise AnalysisError("~ of a value that is neither a boolean (array) nor an integer")
            return inv(v)
        raise AnalysisError("unary op")

    def e_BoolOp(self, n, f):
        """Python value semantics when every operand's truth is decidable,
        otherwise the Boolean combination of the truths (used as a condition)."""
        is_and = isinstance(n.op, ast.And)
        pending = []
        last = None
        for e in n.values:
            v = self.eval(e, f)
            t = self.truth(v)
            last = v
            if t is sp.true:
                if is_and:
                    continue
                if not pending:
                    return v
                pending.append(t)
                break
            if t is sp.false:
                if not is_and:
                    continue
                if not pending:
                    return v
                pending.append(t)
                break
            pending.append(t)
        if not pending:
            return last
        return sp.And(*pending) if is_and else sp.Or(*pending)

    def e_Compare(self, n, f):
        left = self.eval(n.left, f)
        res = []
        for op, rn in zip(n.ops, n.comparators):
            right = self.eval(rn, f)
            res.append(self.lib.compare(self, op, left, right))
            left = right
        out = res[0]
        for r in res[1:]:
            out = sp.And(out, r)
        return out

    def e_IfExp(self, n, f):
        c = self.truth(self.eval(n.test, f))
        if c is sp.true:
            return self.eval(n.body, f)
        if c is sp.false:
            return self.eval(n.orelse, f)
        return merge(c, self.eval(n.body, f), self.eval(n.orelse, f))

    def e_Tuple(self, n, f):
        return tuple(self._elts(n.elts, f))

    def e_List(self, n, f):
        return list(self._elts(n.elts, f))

    def _elts(self, elts, f):
        out = []
        for e in elts:
            if isinstance(e, ast.Starred):
                out.extend(self.lib.iterate(self, self.eval(e.value, f)))
            else:
                out.append(self.eval(e, f))
        return out

    def e_Set(self, n, f):
        return set(self._elts(n.elts, f))

    def e_Dict(self, n, f):
        out = {}
        for k, v in zip(n.keys, n.values):
            if k is None:                      # {**other}
                d = self.eval(v, f)
                if not isinstance(d, dict):
                    raise AnalysisError("** of non-dict in a dict display")
                out.update(d)
            else:
                out[self.eval(k, f)] = self.eval(v, f)
        return out

    def e_Lambda(self, n, f):
        return Closure(n, f.module, f"{f.qual}.<lambda@{n.lineno}>", f)

    def e_JoinedStr(self, n, f):
        out = ""
        for part in n.values:
            if isinstance(part, ast.Constant):
                out += str(part.value)
                continue
            v = self.eval(part.value, f)
            spec = self.eval(part.format_spec, f) if part.format_spec is not None else ""
            conv = {115: "s", 114: "r", 97: "a"}.get(part.conversion)
            try:
                pv = self.lib._pyfmt(v)
                if conv == "r":
                    pv = repr(pv)
                elif conv == "s":
                    pv = str(pv)
                out += format(pv, spec if isinstance(spec, str) else "")
            except Exception:
                out += self.call(self.builtins["str"], [v], {}) if isinstance(self.call(self.builtins["str"], [v], {}), str) else "<?>"
        return out

    def e_FormattedValue(self, n, f):
        return self.eval(n.value, f)

    def e_Subscript(self, n, f):
        base = self.eval(n.value, f)
        key = self.eval_slice(n.slice, f)
        return self.lib.subscript(self, base, key)

    def e_Call(self, n, f):
        if isinstance(n.func, ast.Name) and n.func.id == "super" and f.lookup("super") is _MISSING:
            if n.args:
                a = self._elts(n.args, f)
                if len(a) != 2 or not isinstance(a[0], ClassVal):
                    raise AnalysisError("super(...) form not modelled")
                return SuperVal(a[0], a[1])
            fn_frame = f
            while fn_frame is not None and fn_frame.cls is None:
                fn_frame = fn_frame.parent
            if fn_frame is None or "$self" not in fn_frame.vars:
                raise AnalysisError(f"super() outside a method ({f.qual})")
            return SuperVal(fn_frame.cls, fn_frame.vars["$self"])
        # x.method(args) on a local container: evaluating the arguments may join branches (states are copied at a join), so the
        # container is looked up again afterwards and the call lands in the live object
        base0 = self.eval(n.func.value, f) if isinstance(n.func, ast.Attribute) and isinstance(n.func.value, ast.Name) \
            and (n.args or n.keywords) else None
        fn = self.eval(n.func, f)
        if isinstance(fn, Builtin) and fn.name == "eval":
            # eval of a *concrete* string: parsed and evaluated in the calling scope by this interpreter
            src_ = self.eval(n.args[0], f)
            if not isinstance(src_, str):
                raise AnalysisError("eval of a non-constant string")
            try:
                tree = ast.parse(src_.strip(), mode="eval")
            except SyntaxError:
                raise SymRaise("SyntaxError", src_[:40])
            scopes = [self.eval(a_, f) for a_ in n.args[1:3]]
            if scopes:
                # eval(text, globals[, locals]): the names come from the given mappings (then the builtins)
                ef = Frame(self, f.module, f.qual + ".<eval>")
                for sc in scopes:
                    if sc is None:
                        continue
                    if not isinstance(sc, dict):
                        raise AnalysisError("eval with a scope that is not a plain dict")
                    ef.vars.update({k: v for k, v in sc.items() if isinstance(k, str)})
                return self.eval(tree.body, ef)
            return self.eval(tree.body, f)
        args = self._elts(n.args, f)
        kwargs = {}
        for k in n.keywords:
            if k.arg is None:
                d = self.eval(k.value, f)
                if not isinstance(d, dict):
                    raise AnalysisError("** of non-dict")
                kwargs.update(d)
            else:
                kwargs[k.arg] = self.eval(k.value, f)
        if isinstance(base0, (list, dict, set)):
            base1 = self.eval(n.func.value, f)
            if base1 is not base0 and type(base1) is type(base0):
                fn = self.getattr(base1, n.func.attr)
        return self.call(fn, args, kwargs)

    def _comp(self, n, f, emit):
        def rec(gi, fr):
            if gi == len(n.generators):
                emit(fr)
                return
            g = n.generators[gi]
            for item in self.lib.iterate(self, self.eval(g.iter, fr)):
                fr2 = Frame(self, fr.module, fr.qual, parent=fr)
                self.assign(g.target, item, fr2)
                conds = [self.truth(self.eval(c, fr2)) for c in g.ifs]
                if any(c is sp.false for c in conds):
                    continue
                if any(c is not sp.true for c in conds):
                    raise AnalysisError(f"comprehension filter with symbolic condition in {f.qual}")
                rec(gi + 1, fr2)
        rec(0, f)

    def e_ListComp(self, n, f):
        out = []
        self._comp(n, f, lambda fr: out.append(self.eval(n.elt, fr)))
        return out

    def e_GeneratorExp(self, n, f):
        # a generator object (consumed once); its items are computed eagerly, which differs from Python only in the order
        # of side effects of the element expression relative to the consumer
        from .symval import GenVal
        return GenVal(self.e_ListComp(n, f))

    def e_SetComp(self, n, f):
        out = []
        self._comp(n, f, lambda fr: out.append(self.eval(n.elt, fr)))
        res = []
        for x in out:
            if not any(x is y or (not isinstance(x, (SymObj, Phi)) and not isinstance(y, (SymObj, Phi)) and x == y) for y in res):
                res.append(x)
        try:
            return set(res)
        except TypeError:
            return res

    def e_NamedExpr(self, n, f):
        v = self.eval(n.value, f)
        fn = f
        while fn.parent is not None and fn.parent.qual == fn.qual:
            fn = fn.parent            # a walrus inside a comprehension binds in the enclosing function
        self.assign(n.target, v, fn)
        return v

    def e_DictComp(self, n, f):
        out = {}
        self._comp(n, f, lambda fr: out.__setitem__(self.eval(n.key, fr), self.eval(n.value, fr)))
        return out


def _load(t):
    t2 = _copy.copy(t)
    t2.ctx = ast.Load()
    return t2


def _walk_fn(node):
    """Walk a function body without descending into nested functions."""
    stack = list(node.body)
    while stack:
        n = stack.pop()
        yield n
        for c in ast.iter_child_nodes(n):
            if not isinstance(c, (ast.FunctionDef, ast.Lambda, ast.ClassDef)):
                stack.append(c)
