"""Abstract periodic table for the value-graph builder (K6).

The table object is produced by interpreting ``core.PeriodicTable.__init__``
from the source; the class-level attributes that the loaders install
(``Element.mass = property(mass)`` ...) are taken from the ``init`` functions'
own class-object writes.  Only the per-atom *data* (what the table rows hold)
are symbols supplied here; their attribute names are checked against the
loaders' writes by the reader-shape rules (K12), not assumed silently.
"""
from __future__ import annotations

import ast

import sympy as sp

from . import AnalysisError
from .source import SourceModel
from .symx import Interp, Frame
from .symval import SymObj, ClassVal, Closure, SymRaise

CORE_CLASSES = ("Element", "Isotope", "Ion")

SYMCONST = {
    "constants.avogadro_number": sp.Symbol("N_A", positive=True),
    "constants.electron_mass": sp.Symbol("m_e", positive=True),
    "constants.electron_radius": sp.Symbol("r_e", positive=True),
    "constants.plancks_constant": sp.Symbol("h", positive=True),
    "constants.speed_of_light": sp.Symbol("c", positive=True),
    "constants.electron_volt": sp.Symbol("eV", positive=True),
    "constants.neutron_mass": sp.Symbol("m_n", positive=True),
    "constants.atomic_mass_constant": sp.Symbol("u", positive=True),
}


def mass_sym(tag):
    """Atomic mass as data: a positive part plus ten electron masses, so that the mass of
    every ion (charge < 10) is positive by construction - the physical side condition."""
    return sp.Symbol(f"mu_{tag}", positive=True) + 10 * SYMCONST["constants.electron_mass"]


def class_writes(src: SourceModel, qual: str):
    """Statements ``<CoreClass>.<attr> = expr`` in function *qual* (any depth),
    plus the nested defs they may refer to.  -> list of (clsname, attr, value node, stmt)"""
    f = src.func(qual)
    out = []

    def core_class(name, loopvars):
        if name in loopvars:
            return loopvars[name]
        r = src.resolve(f.module, name)
        return [r[1]] if r and r[0] == "class" and r[1].startswith("core.") else []

    def visit(node, loopvars):
        if isinstance(node, ast.For) and isinstance(node.target, ast.Name) and isinstance(node.iter, (ast.Tuple, ast.List)) \
                and node.iter.elts and all(isinstance(e, ast.Name) and core_class(e.id, {}) for e in node.iter.elts):
            # for cls in (Element, Isotope): cls.attr = ...
            loopvars = dict(loopvars, **{node.target.id: [core_class(e.id, {})[0] for e in node.iter.elts]})
        if isinstance(node, ast.Assign):
            for t in node.targets:
                if isinstance(t, ast.Attribute) and isinstance(t.value, ast.Name):
                    for cq in core_class(t.value.id, loopvars):
                        out.append((cq, t.attr, node.value, node))
        if isinstance(node, ast.Expr) and isinstance(node.value, ast.Call) and isinstance(node.value.func, ast.Name) \
                and node.value.func.id == "setattr" and len(node.value.args) == 3 and isinstance(node.value.args[0], ast.Name) \
                and isinstance(node.value.args[1], ast.Constant) and isinstance(node.value.args[1].value, str):
            for cq in core_class(node.value.args[0].id, loopvars):
                out.append((cq, node.value.args[1].value, node.value.args[2], node))
        for child in ast.iter_child_nodes(node):
            visit(child, loopvars)
    visit(f.node, {})
    return out


def install_class_writes(I: Interp, qual: str):
    """Apply the class-object writes of loader *qual* to the modelled classes."""
    f = I.src.func(qual)
    frame = Frame(I, f.module, qual)
    # parameters are not needed for the right-hand sides of class writes
    for st in f.node.body:
        if isinstance(st, ast.FunctionDef):
            frame.vars[st.name] = Closure(st, f.module, f"{qual}.{st.name}", frame)
        elif isinstance(st, ast.Assign) and len(st.targets) == 1 and isinstance(st.targets[0], ast.Name) \
                and isinstance(st.value, (ast.Dict, ast.List, ast.Set, ast.Constant, ast.Tuple)):
            # plain local containers / constants that the nested functions close over
            try:
                frame.vars[st.targets[0].id] = I.eval(st.value, frame)
            except (AnalysisError, SymRaise):
                pass
    n = 0
    for cq, attr, value, st in class_writes(I.src, qual):
        cls = I.get_class(cq)
        try:
            v = I.eval(value, frame)
        except SymRaise as exc:
            raise AnalysisError(f"class write {ast.unparse(st)} in {qual}: {exc}")
        cls.attrs[attr] = v
        n += 1
    return n


class World:
    """A private abstract table with a handful of generic atoms of every kind."""

    def __init__(self, src: SourceModel, loaders=("mass.init", "density.init"), stubs=None,
                 arrays=(), symconst=None):
        self.src = src
        sc = dict(SYMCONST)
        if symconst:
            sc.update(symconst)
        self.I = I = Interp(src, symbolic_constants=sc, stubs=stubs, arrays=arrays)
        pos = {"positive": True}
        I.default_open = {"core.Element": {"_mass", "_density"}, "core.Isotope": {"_mass", "_abundance"}}
        I.default_sym_kw = {"core.Element": {"_mass": pos, "_density": pos},
                            "core.Isotope": {"_mass": pos, "_abundance": {"nonnegative": True}}}
        self.PT = I.get_class("core.PeriodicTable")
        for c in CORE_CLASSES:
            I.get_class("core." + c)
        self.table = I.instantiate(self.PT, ["verif"], {}, name="T", open_attrs=())
        self.installed = {}
        for q in loaders:
            self.installed[q] = install_class_writes(I, q)
        self.atoms = {}

    # -- atoms --------------------------------------------------------------
    def element(self, sym) -> SymObj:
        return self.I.getattr(self.table, sym)

    def isotope(self, sym, A) -> SymObj:
        el = self.element(sym)
        return self.I.call(self.I.getattr(el, "add_isotope"), [sp.Integer(A)], {})

    def ion(self, atom, charge) -> SymObj:
        return self.I.lib.subscript(self.I, self.I.getattr(atom, "ion"), sp.Integer(charge))

    def set(self, obj, **attrs):
        self.I.heap[obj.id].update(attrs)

    def get(self, obj, name):
        return self.I.getattr(obj, name)

    def heap(self, obj):
        return self.I.heap[obj.id]

    def give_mass_density(self, el: SymObj, tag: str, density=True):
        """Element data as the mass/density loaders leave it: _mass, _density."""
        self.set(el, _mass=mass_sym(tag))
        if density is True:
            self.set(el, _density=sp.Symbol(f"rho_{tag}", positive=True))
        elif density is None:
            self.set(el, _density=None)

    def give_iso_mass(self, iso: SymObj, tag: str):
        self.set(iso, _mass=mass_sym(tag),
                 _abundance=sp.Symbol(f"ab_{tag}", nonnegative=True))

    def standard_atoms(self):
        """Six kinds: Element, Isotope, D/T alias, Ion(Element), Ion(Isotope), Ion(D)."""
        w = self
        H, Fe, O = w.element("H"), w.element("Fe"), w.element("O")
        for el, t in ((H, "H"), (Fe, "Fe"), (O, "O")):
            w.give_mass_density(el, t)
        H1 = w.isotope("H", 1)
        D = w.get(w.table, "D")
        Fe56 = w.isotope("Fe", 56)
        for iso, t in ((H1, "H1"), (D, "D"), (Fe56, "Fe56")):
            w.give_iso_mass(iso, t)
        self.atoms = {
            "element": Fe, "element2": O, "H": H,
            "isotope": Fe56, "H1": H1, "DT": D,
            "ion_element": w.ion(Fe, 2), "ion_isotope": w.ion(Fe56, 3), "ion_DT": w.ion(D, 1), "anion": w.ion(Fe, -2),
        }
        return self.atoms

    KINDS = ("element", "isotope", "DT", "ion_element", "ion_isotope", "ion_DT")
