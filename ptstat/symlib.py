"""Library model for the value-graph builder: operators, builtins, numpy/math."""
from __future__ import annotations

import ast

import sympy as sp

from . import AnalysisError
from .symval import (GenVal, TextFile, PathVal, ReObj, SymObj, ClassVal, PropertyVal, Closure, BoundMethod, ModuleVal, Builtin,
                     Raised, Phi, Vec, SymRaise, to_expr, merge, _alg, _MISSING)

interp_f = sp.Function("interp")
vec_f = sp.Function("vec")
pymin = sp.Function("pymin", positive=True)
pymax = sp.Function("pymax", positive=True)


class NTuple(tuple):
    """instance of a collections.namedtuple class: a tuple whose items also read as attributes"""
    _fields = ()
    _tname = "namedtuple"

    def __repr__(self):
        return f"{self._tname}({', '.join(f'{k}={v!r}' for k, v in zip(self._fields, self))})"


class NTupleClass:
    """the class made by collections.namedtuple(name, fields, defaults=...)"""
    def __init__(self, name, fields, defaults=()):
        self.name, self.fields, self.defaults = name, tuple(fields), tuple(defaults)

    def make(self, args, kw):
        n = len(self.fields)
        if len(args) > n:
            raise SymRaise("TypeError", f"{self.name}() takes {n} positional arguments")
        vals = list(args)
        for i in range(len(args), n):
            f = self.fields[i]
            if f in kw:
                vals.append(kw.pop(f))
            elif i >= n - len(self.defaults):
                vals.append(self.defaults[i - (n - len(self.defaults))])
            else:
                raise SymRaise("TypeError", f"{self.name}() missing argument {f}")
        if kw:
            raise SymRaise("TypeError", f"{self.name}() got an unexpected keyword argument {sorted(kw)[0]}")
        t = NTuple(vals)
        t._fields, t._tname = self.fields, self.name
        return t

    def __repr__(self):
        return f"<namedtuple class {self.name}>"


class SigVal:
    """inspect.signature(f) of a package function"""
    def __init__(self, closure):
        self.closure = closure
        a = closure.node.args
        self.names = [x.arg for x in a.posonlyargs + a.args] + [x.arg for x in a.kwonlyargs]
        self.npos = len(a.posonlyargs) + len(a.args)
        self.required = set(self.names[:self.npos - len(a.defaults)]) | {x.arg for x, d in zip(a.kwonlyargs, a.kw_defaults) if d is None}
        self.vararg, self.kwarg = a.vararg, a.kwarg

    def bind(self, I, args, kw, partial=False):
        out = {}
        if len(args) > self.npos and not self.vararg:
            raise SymRaise("TypeError", "too many positional arguments")
        for n, v in zip(self.names[:self.npos], args):
            out[n] = v
        if len(args) > self.npos:
            out[self.vararg.arg] = tuple(args[self.npos:])
        extra = {}
        for k_, v in kw.items():
            if k_ in out:
                raise SymRaise("TypeError", f"multiple values for argument {k_!r}")
            if k_ in self.names:
                out[k_] = v
            elif self.kwarg:
                extra[k_] = v
            else:
                raise SymRaise("TypeError", f"got an unexpected keyword argument {k_!r}")
        if extra:
            out[self.kwarg.arg] = extra
        if not partial:
            missing = [n for n in self.names if n in self.required and n not in out]
            if missing:
                raise SymRaise("TypeError", f"missing a required argument: {missing[0]!r}")
        return {n: out[n] for n in self.names + ([self.vararg.arg] if self.vararg else []) + ([self.kwarg.arg] if self.kwarg else []) if n in out}


class BoundArgs:
    def __init__(self, arguments):
        self.arguments = arguments


class DefaultDict(dict):
    """collections.defaultdict: a missing key is created from the factory on lookup"""
    factory = None


class DequeVal(list):
    """collections.deque: a list with operations at the left end"""


class WeakDict(dict):
    """weakref.Weak*Dictionary: a mapping that does not keep its values/keys alive"""


class CmpKey:
    """functools.cmp_to_key(f)"""
    def __init__(self, cmp):
        self.cmp = cmp


class StrSym:
    """Opaque string built from symbolic parts (only used in messages)."""
    def __init__(self, text="<str>"):
        self.text = text

    def __add__(self, o):
        return StrSym()

    __radd__ = __add__

    def __repr__(self):
        return "<symbolic str>"


# ------------------------------------------------------------------ operators
def binop(I, op, a, b):
    from . import peg
    if isinstance(a, peg.PE) or isinstance(b, peg.PE):
        return peg.binop(op.__class__.__name__, a, b)
    if isinstance(op, ast.BitOr) and isinstance(a, dict) and isinstance(b, dict):
        return {**a, **b}
    if isinstance(op, (ast.BitOr, ast.BitAnd, ast.BitXor, ast.LShift, ast.RShift)) and not isinstance(a, bool) and not isinstance(b, bool) \
            and isinstance(a, (int, sp.Integer)) and isinstance(b, (int, sp.Integer)):
        # integer flag arithmetic (re.MULTILINE | re.VERBOSE ...)
        import operator as _op
        fn = {ast.BitOr: _op.or_, ast.BitAnd: _op.and_, ast.BitXor: _op.xor, ast.LShift: _op.lshift, ast.RShift: _op.rshift}[type(op)]
        return sp.Integer(fn(int(a), int(b)))
    if isinstance(op, ast.Div) and (isinstance(a, PathVal) or isinstance(b, PathVal)):
        import os.path as _osp
        x, y = (v.path if isinstance(v, PathVal) else v for v in (a, b))
        if not (isinstance(x, str) and isinstance(y, str)):
            raise AnalysisError("pathlib '/' with a symbolic operand")
        return PathVal(_osp.join(x, y))
    if isinstance(a, Phi):
        return merge(a.cond, binop(I, op, a.a, b), binop(I, op, a.b, b))
    if isinstance(b, Phi):
        return merge(b.cond, binop(I, op, a, b.a), binop(I, op, a, b.b))
    if isinstance(op, ast.MatMult) and isinstance(a, Vec) and isinstance(b, Vec):
        return _math(I, "dot")(a, b)           # a @ b on arrays is numpy.matmul = dot for 1-D / 2-D operands
    if isinstance(a, Vec) or isinstance(b, Vec):
        if isinstance(a, Vec) and isinstance(b, Vec):
            # shape abstraction: a Vec is the leading (material) axis; elements that mention an
            # array symbol carry a trailing wavelength axis.  (M,) * (M, W) does not broadcast
            # along the material axis unless the first operand is a column (M, 1).
            wa, wb = wdep(I, a), wdep(I, b)
            sa_, sb_ = _vshape(a), _vshape(b)
            if not (wa or wb):
                if len(sa_) == 2 or len(sb_) == 2 or len(a) != len(b):
                    return _broadcast(I, op, a, b, sa_, sb_)
            else:
                # one operand carries the implicit (wavelength) axis in its elements: an explicit (n, 1) column of the
                # other operand is the same thing as the column marker
                def uncol(v, sh):
                    if len(sh) == 2 and sh[1] == 1:
                        return Vec([r.items[0] for r in v.items], col=True)
                    return v
                a, b = uncol(a, sa_), uncol(b, sb_)
                if len(a) != len(b):
                    raise SymRaise("ValueError", "operands could not be broadcast together")
            if wa != wb and not (a.col if wb else b.col):
                raise SymRaise("ValueError", "operands of shape (M,) and (M, W) do not broadcast along the material axis")
            return Vec(binop(I, op, x, y) for x, y in zip(a, b))
        if isinstance(a, Vec):
            return Vec(binop(I, op, x, b) for x in a)
        return Vec(binop(I, op, a, y) for y in b)
    # object operators: Formula + Formula, n * Formula
    if isinstance(a, SymObj) and a.cls is not None:
        nm = {ast.Add: "__add__", ast.Mult: "__mul__", ast.Sub: "__sub__"}.get(type(op))
        m = a.cls.lookup(nm) if nm else _MISSING
        if m is not _MISSING:
            return I.call(BoundMethod(m, a), [b], {})
    if isinstance(b, SymObj) and b.cls is not None:
        nm = {ast.Add: "__radd__", ast.Mult: "__rmul__", ast.Sub: "__rsub__"}.get(type(op))
        m = b.cls.lookup(nm) if nm else _MISSING
        if m is not _MISSING:
            return I.call(BoundMethod(m, b), [a], {})
    if isinstance(a, str) or isinstance(b, str) or isinstance(a, StrSym) or isinstance(b, StrSym):
        if isinstance(op, ast.Add):
            if isinstance(a, str) and isinstance(b, str):
                return a + b
            if isinstance(a, (str, StrSym)) and isinstance(b, (str, StrSym)):
                return StrSym()
            raise SymRaise("TypeError", "str + non-str")
        if isinstance(op, ast.Mod) and isinstance(a, str):
            try:
                return a % _pyfmt(b)
            except Exception:
                return _symfmt(a, b)
        if isinstance(op, ast.Mult) and isinstance(a, str):
            return a * concrete_int(b)
        raise SymRaise("TypeError", "bad operands for str")
    if isinstance(a, (list, tuple)) and isinstance(b, (list, tuple)) and isinstance(op, ast.Add):
        if type(a) is not type(b):
            raise SymRaise("TypeError", "list + tuple")
        return a + b
    if isinstance(a, (list, tuple)) and isinstance(op, ast.Mult):
        return a * concrete_int(b)
    if isinstance(op, (ast.BitOr, ast.BitAnd)):
        Bool = sp.logic.boolalg.Boolean
        if isinstance(a, (bool, Bool)) and isinstance(b, (bool, Bool)):
            r = (sp.Or if isinstance(op, ast.BitOr) else sp.And)(_b(a), _b(b))
            return _pb(r)
    if a is None or b is None:
        raise SymRaise("TypeError", f"unsupported operand None for {op.__class__.__name__}")
    if not (_alg(a) or isinstance(a, bool)) or not (_alg(b) or isinstance(b, bool)):
        raise SymRaise("TypeError", f"unsupported operands {a!r} {op.__class__.__name__} {b!r}")
    x, y = to_expr(int(a) if isinstance(a, bool) else a), to_expr(int(b) if isinstance(b, bool) else b)
    if isinstance(op, ast.Add):
        return x + y
    if isinstance(op, ast.Sub):
        return x - y
    if isinstance(op, ast.Mult):
        return x * y
    if isinstance(op, ast.Div):
        if y == 0:
            raise SymRaise("ZeroDivisionError", "division by zero")
        return x / y
    if isinstance(op, ast.Pow):
        return x ** y
    if isinstance(op, ast.Mod):
        if x.is_Integer and y.is_Integer:
            return sp.Integer(int(x) % int(y))
        return sp.Mod(x, y)
    if isinstance(op, ast.FloorDiv):
        if x.is_Integer and y.is_Integer:
            return sp.Integer(int(x) // int(y))
        return sp.floor(x / y)
    if isinstance(op, ast.BitOr):
        return sp.Or(truth(I, a), truth(I, b))
    raise AnalysisError(f"operator {op.__class__.__name__} not modelled")


def _minmax(f, es):
    """Min/Max without sympy's (very slow) pairwise ordering search on symbolic arguments."""
    es = list(dict.fromkeys(es))
    if len(es) == 1:
        return es[0]
    if all(e.is_number for e in es):
        return f(*es)
    # sign facts first: min(T, 0) with T >= 0 is 0, max(T, 0) is T (the uninterpreted application below is declared
    # positive, which is only right for positive operands)
    nums = [e for e in es if e.is_number and e.is_real]
    syms_ = [e for e in es if not (e.is_number and e.is_real)]
    if nums:
        m = (min if f is sp.Min else max)(nums)
        if f is sp.Min and m <= 0 and all(e.is_nonnegative for e in syms_):
            return m
        if f is sp.Max and m >= 0 and all(e.is_nonpositive for e in syms_):
            return m
        if f is sp.Min and m >= 0 and all(e.is_nonpositive for e in syms_) and len(syms_) == 1:
            return syms_[0]
        if f is sp.Max and m <= 0 and all(e.is_nonnegative for e in syms_) and len(syms_) == 1:
            return syms_[0]
    if not all(e.is_positive for e in es):
        # operands of unknown sign: sympy's own Min/Max (no positivity is claimed for the result)
        return f(*es)
    # kept as an uninterpreted application in the value graph (sympy's symbolic Min/Max
    # ordering search is very slow); algebra.is_zero evaluates it at the sample points
    return (pymin if f is sp.Min else pymax)(*es)


def _vshape(x):
    if isinstance(x, Vec):
        return (len(x.items),) + (_vshape(x.items[0]) if x.items else ())
    return ()


def _broadcast(I, op, a, b, sa, sb):
    """numpy broadcasting of (nested) vectors: trailing axes are aligned, axes of length 1 are stretched"""
    nd = max(len(sa), len(sb))
    pa, pb = (1,) * (nd - len(sa)) + sa, (1,) * (nd - len(sb)) + sb
    for x, y in zip(pa, pb):
        if x != y and 1 not in (x, y):
            raise SymRaise("ValueError", f"operands could not be broadcast together with shapes {sa} {sb}")

    def lift(v, shape, want):
        while len(shape) < want:
            v, shape = Vec([v]), (1,) + shape
        return v

    def rec(x, y, sx, sy):
        if not sx:
            return binop(I, op, x, y)
        n = max(sx[0], sy[0])
        out = []
        for i in range(n):
            xi = x.items[i if sx[0] > 1 else 0] if isinstance(x, Vec) else x
            yi = y.items[i if sy[0] > 1 else 0] if isinstance(y, Vec) else y
            out.append(rec(xi, yi, sx[1:], sy[1:]))
        return Vec(out)
    return rec(lift(a, sa, nd), lift(b, sb, nd), pa, pb)


def _dotsum(I, xs, ys):
    acc = sp.Integer(0)
    for x, y in zip(xs, ys):
        acc = binop(I, ast.Add(), acc, binop(I, ast.Mult(), x, y))
    return acc


def wdep(I, v):
    """Does the value carry a (trailing) array axis, i.e. mention an array symbol?"""
    if isinstance(v, Vec):
        return any(wdep(I, x) for x in v)
    if _alg(v):
        return any(s in I.arrays for s in to_expr(v).free_symbols)
    return False


def _pyfmt(v):
    if isinstance(v, tuple):
        return tuple(_pyfmt(x) for x in v)
    if isinstance(v, sp.Integer):
        return int(v)
    if isinstance(v, sp.Rational) or isinstance(v, sp.Float):
        return float(v)
    if isinstance(v, (str, int, float)):
        return v
    if isinstance(v, dict):
        return {_pyfmt(k): _pyfmt(x) for k, x in v.items()}
    if v is None or isinstance(v, bool):
        return v
    raise ValueError


def _strformat(I, fmt, args, kwargs):
    """str.format: fields are rendered by Python for concrete numbers/strings, by the object's own __str__ otherwise"""
    import string
    out, auto = [], 0
    for lit, field, spec, conv in string.Formatter().parse(fmt):
        out.append(lit)
        if field is None:
            continue
        if "{" in (spec or ""):
            # nested field in the spec, e.g. {0:.{1}f}
            def sub(m):
                k = m.group(1)
                v = args[int(k)] if k.isdigit() else kwargs[k]
                return str(_pyfmt(v))
            import re as _re
            spec = _re.sub(r"\{(\w+)\}", sub, spec)
        head = field.split(".")[0].split("[")[0]
        if head == "":
            v = args[auto]
            auto += 1
        elif head.isdigit():
            v = args[int(head)]
        else:
            v = kwargs[head]
        for part in field[len(head):].split("."):
            if part:
                v = I.getattr(v, part)
        try:
            pv = _pyfmt(v)
            if conv == "r":
                pv = repr(pv)
            elif conv == "s":
                pv = str(pv)
            out.append(format(pv, spec or ""))
        except (ValueError, TypeError):
            sv = I.call(I.builtins["str" if conv != "r" else "repr"], [v], {})
            if isinstance(sv, str):
                try:
                    out.append(format(sv, spec or ""))
                except ValueError:
                    out.append(sv)         # a numeric format code on a symbolic number: its canonical text stands for the digits
            else:
                out.append("<?>")
    return "".join(out)


def _symfmt(fmt, args):
    """'%' formatting where some arguments are symbolic: those print as <expr> (canonical,
    so equal values give equal text); concrete ones are formatted by Python."""
    import re as _re
    if isinstance(args, dict):
        return StrSym()
    args = list(args) if isinstance(args, tuple) else [args]
    out, pos, i = [], 0, 0
    for m in _re.finditer(r"%(?:[-+ #0]*)(?:\*|\d+)?(?:\.(?:\*|\d+))?[diouxXeEfFgGcrsa%]", fmt):
        out.append(fmt[pos:m.start()])
        pos = m.end()
        spec = m.group(0)
        if spec == "%%":
            out.append("%")
            continue
        nstar = spec.count("*")
        vals = args[i:i + nstar + 1]
        i += nstar + 1
        try:
            out.append(spec % tuple(_pyfmt(v) for v in vals))
        except Exception:
            v = vals[-1]
            out.append("<" + (str(to_expr(v)) if _alg(v) else repr(v)) + ">")
    out.append(fmt[pos:])
    return "".join(out)


def concrete_int(v):
    if isinstance(v, bool):
        return int(v)
    if isinstance(v, int):
        return v
    if isinstance(v, sp.Integer):
        return int(v)
    if isinstance(v, sp.Expr) and v.is_Integer:
        return int(v)
    raise AnalysisError(f"expected a concrete integer, got {v!r}")


def _key(v):
    if isinstance(v, sp.Integer):
        return int(v)
    return v


def dict_key(I, d, key):
    """The key under which *key* lives in dict *d*, honouring a class-defined __eq__
    (objects that compare equal are one dictionary key in Python)."""
    key = _key(key)
    if isinstance(key, SymObj) and key.cls is not None and key not in d:
        m = key.cls.lookup("__eq__")
        if m is not _MISSING:
            for k in d:
                if isinstance(k, SymObj) and k.cls is key.cls:
                    r = I.call(BoundMethod(m, key), [k], {})
                    if r is True or r is sp.true:
                        return k
    elif isinstance(key, Phi):
        # a value that is one of two under a condition (e.g. the printed form of a formula with symbolic counts): the same
        # value computed again is the same key
        rk = repr(key)
        for k in d:
            if isinstance(k, Phi) and repr(k) == rk:
                return k
    elif isinstance(key, tuple) and key not in d:
        # a tuple key holding objects whose class defines equality: equal tuples are one key
        def has_eq(x):
            return (isinstance(x, SymObj) and x.cls is not None and x.cls.lookup("__eq__") is not _MISSING) \
                or (isinstance(x, tuple) and any(has_eq(y) for y in x))

        def same(x, y):
            if isinstance(x, tuple) and isinstance(y, tuple):
                return len(x) == len(y) and all(same(a_, b_) for a_, b_ in zip(x, y))
            if isinstance(x, SymObj) and isinstance(y, SymObj) and x.cls is not None and x.cls is y.cls:
                if x is y:
                    return True
                m_ = x.cls.lookup("__eq__")
                if m_ is _MISSING:
                    return False
                r_ = I.call(BoundMethod(m_, x), [y], {})
                return r_ is True or r_ is sp.true
            if isinstance(x, SymObj) or isinstance(y, SymObj):
                return x is y
            try:
                return bool(x == y)
            except TypeError:
                return False
        if has_eq(key):
            for k in d:
                if isinstance(k, tuple) and same(key, k):
                    return k
    return key


def compare(I, op, a, b):
    if (isinstance(a, Vec) or isinstance(b, Vec)) and not isinstance(op, (ast.Is, ast.IsNot, ast.In, ast.NotIn)):
        if isinstance(a, Vec) and isinstance(b, Vec):
            return Vec(compare(I, op, x, y) for x, y in zip(a, b))
        if isinstance(a, Vec):
            return Vec(compare(I, op, x, b) for x in a)
        return Vec(compare(I, op, a, y) for y in b)
    if isinstance(a, Phi) and isinstance(op, (ast.In, ast.NotIn)) and isinstance(b, dict) and I is not None and dict_key(I, b, a) in b:
        return isinstance(op, ast.In)          # the very key (a value under a condition) is in the dictionary
    if isinstance(a, Phi):
        return sp.ITE(a.cond, _b(compare(I, op, a.a, b)), _b(compare(I, op, a.b, b)))
    if isinstance(b, Phi):
        return sp.ITE(b.cond, _b(compare(I, op, a, b.a)), _b(compare(I, op, a, b.b)))
    if isinstance(op, (ast.Is, ast.IsNot)):
        if a is None or b is None:
            if _alg(a) or _alg(b):
                # a Piecewise may hide a None arm only through Phi; plain algebra is never None
                same = False
            else:
                same = a is b
        elif isinstance(a, SymObj) or isinstance(b, SymObj):
            same = a is b
        elif isinstance(a, bool) or isinstance(b, bool):
            same = a is b
        else:
            same = a is b or (_alg(a) and _alg(b) and to_expr(a) == to_expr(b))
        return same if isinstance(op, ast.Is) else not same
    if isinstance(op, (ast.In, ast.NotIn)):
        if isinstance(b, (dict, list, tuple, set, str)):
            if isinstance(b, str) and not isinstance(a, str):
                raise SymRaise("TypeError", "in <string> requires string")
            if isinstance(b, dict):
                r = _key(a) in b or a in b or (I is not None and dict_key(I, b, a) in b)
            elif isinstance(b, str):
                r = a in b
            else:
                r = any(_same(a, x) for x in b)
            return r if isinstance(op, ast.In) else not r
        if isinstance(b, SymObj) and b.cls is not None:
            m = b.cls.lookup("__contains__")
            if m is not _MISSING:
                return I.call(BoundMethod(m, b), [a], {})
        raise AnalysisError(f"membership test in {b!r}")
    if isinstance(op, (ast.Eq, ast.NotEq)):
        r = _eq(I, a, b)
        if isinstance(op, ast.Eq):
            return r
        return (not r) if isinstance(r, bool) else sp.Not(r)
    if isinstance(a, bool) and (isinstance(b, bool) or _alg(b)) or isinstance(b, bool) and _alg(a):
        a, b = (sp.Integer(int(a)) if isinstance(a, bool) else a), (sp.Integer(int(b)) if isinstance(b, bool) else b)      # bool is an int
    if not (_alg(a) and _alg(b)):
        if isinstance(a, str) and isinstance(b, str):
            return {ast.Lt: a < b, ast.Gt: a > b, ast.LtE: a <= b, ast.GtE: a >= b}[type(op)]
        if a is None or b is None:
            raise SymRaise("TypeError", "ordering comparison with None")
        raise AnalysisError(f"ordering of {a!r} and {b!r}")
    x, y = to_expr(a), to_expr(b)
    r = {ast.Lt: sp.Lt, ast.Gt: sp.Gt, ast.LtE: sp.Le, ast.GtE: sp.Ge}[type(op)](x, y)
    r = _pb(r)
    if not isinstance(r, bool) and sp.count_ops(x - y) < 60:
        # sign through factoring (e.g. sqrt(K/1000) - sqrt(K/2000) with K > 0)
        try:
            from .algebra import time_limit
            with time_limit(1):
                dfac = sp.factor(x - y)
            sgn = 1 if dfac.is_positive else -1 if dfac.is_negative else 0 if dfac.is_zero else None
        except Exception:
            sgn = None
        if sgn is not None:
            return {ast.Lt: sgn < 0, ast.Gt: sgn > 0, ast.LtE: sgn <= 0, ast.GtE: sgn >= 0}[type(op)]
    if not isinstance(r, bool) and getattr(I, "positive", None):
        # facts supplied by the rule: expressions known to be positive
        dpos = x - y if isinstance(op, (ast.Gt, ast.GtE)) else y - x
        for pexpr in I.positive:
            if sp.expand(dpos - pexpr) == 0:
                return True
            if sp.expand(dpos + pexpr) == 0:
                return False
    return r


def _pb(r):
    if r is sp.true:
        return True
    if r is sp.false:
        return False
    return r


def _b(v):
    return sp.true if v is True else sp.false if v is False else v


def _same(a, b):
    r = _eq(None, a, b)
    return r is True


def _eq(I, a, b):
    if isinstance(a, SymObj) or isinstance(b, SymObj):
        if isinstance(a, SymObj) and a.cls is not None and I is not None:
            m = a.cls.lookup("__eq__")
            if m is not _MISSING:
                return I.call(BoundMethod(m, a), [b], {})
        return a is b
    if _alg(a) and _alg(b):
        x, y = to_expr(a), to_expr(b)
        if x == y:
            return True
        big = max(sp.count_ops(x, visual=False), sp.count_ops(y, visual=False)) > 120
        if I is not None and getattr(I, "positive", None) and not big:
            # facts supplied by the rule (expressions known to be positive): x - y or y - x among them means x != y
            dxy = sp.expand(x - y)
            for pexpr in I.positive:
                pe = sp.expand(pexpr)
                if dxy == pe or dxy == -pe:
                    return False
        # sympy decides Eq through expand/is_zero: on a large value graph that does not terminate in reasonable time, and an
        # undecided comparison is a sound answer (both branches are followed)
        r = sp.Eq(x, y, evaluate=False) if big else sp.Eq(x, y)
        return _pb(r)
    if isinstance(a, (tuple, list)) and isinstance(b, (tuple, list)):
        if type(a) is not type(b) or len(a) != len(b):
            return False
        out = True
        for x, y in zip(a, b):
            r = _eq(I, x, y)
            if r is False:
                return False
            if r is not True:
                out = r if out is True else sp.And(out, r)
        return out
    if a is None or b is None:
        return a is b
    if isinstance(a, (str, bool)) or isinstance(b, (str, bool)):
        if _alg(a) or _alg(b):
            if isinstance(a, bool) or isinstance(b, bool):
                return to_expr(int(a) if isinstance(a, bool) else a) == to_expr(int(b) if isinstance(b, bool) else b)
            return False
        return a == b
    if isinstance(a, dict) and isinstance(b, dict):
        return a == b
    return a is b


def truth(I, v):
    if isinstance(v, bool):
        return sp.true if v else sp.false
    if v is None:
        return sp.false
    if isinstance(v, sp.Symbol) and (v.is_positive or v.is_negative):
        return sp.true          # (sympy's Symbol is also a Boolean: a number symbol of known sign is decided here)
    if isinstance(v, sp.Symbol) and v.is_zero:
        return sp.false
    if isinstance(v, sp.logic.boolalg.Boolean):
        return v
    if isinstance(v, (str, list, tuple, dict, set)):
        return sp.true if len(v) else sp.false
    if isinstance(v, Vec):
        raise AnalysisError("truth value of an array")
    if isinstance(v, Phi):
        return sp.ITE(v.cond, truth(I, v.a), truth(I, v.b))
    from . import peg as _peg
    if isinstance(v, (SymObj, Closure, ClassVal, BoundMethod, Builtin, ModuleVal, StrSym, ReObj, GenVal, _peg.PE)):
        return sp.true
    if _alg(v):
        e = to_expr(v)
        if e.is_number:
            return sp.true if e != 0 else sp.false
        r = sp.Ne(e, 0)
        if e.is_positive or e.is_negative:
            return sp.true
        if e.is_zero:
            return sp.false
        return r
    raise AnalysisError(f"truth of {v!r}")


def iterate(I, v):
    if isinstance(v, (list, tuple)):
        return list(v)
    if isinstance(v, Phi):
        # one of two sequences under a condition: when both have the same length the items pair up under that condition
        try:
            xa, xb = iterate(I, v.a), iterate(I, v.b)
        except SymRaise:
            xa = xb = None
        if xa is not None and len(xa) == len(xb):
            return [x if x is y else merge(v.cond, x, y) for x, y in zip(xa, xb)]
        raise AnalysisError(f"iteration over {v!r} (length unknown)")
    if isinstance(v, GenVal):
        return v.take_all()
    if isinstance(v, Vec):
        return list(v.items)
    if isinstance(v, dict):
        return list(v.keys())
    if isinstance(v, (set, frozenset)):
        return sorted(v, key=repr)
    if isinstance(v, str):
        return list(v)
    if isinstance(v, range):
        return list(v)
    if isinstance(v, SymObj) and v.cls is not None:
        m = v.cls.lookup("__iter__")
        if m is not _MISSING:
            return iterate(I, I.call(BoundMethod(m, v), [], {}))
    if isinstance(v, ClassVal) and getattr(v, "enum_members", None) is not None:
        return list(v.enum_members.values())
    if isinstance(v, NTuple):
        return list(v)
    if v is None or (_alg(v) and not any(s in I.arrays for s in to_expr(v).free_symbols)):
        raise SymRaise("TypeError", "object is not iterable")
    if _alg(v):
        return [to_expr(v)]      # an array symbol stands for its generic element
    if isinstance(v, SymObj) and v.cls is not None:
        raise SymRaise("TypeError", f"{v!r} is not iterable")
    raise AnalysisError(f"iteration over {v!r} (length unknown)")


def subscript(I, base, key):
    if isinstance(base, Phi):
        return merge(base.cond, subscript(I, base.a, key), subscript(I, base.b, key))
    if isinstance(base, ReObj) and type(base.obj).__name__ == "Match":
        k = int(key) if isinstance(key, sp.Integer) else key
        if not isinstance(k, (str, int)):
            raise AnalysisError("match[...] with a symbolic key")
        try:
            return base.obj[k]
        except IndexError:
            raise SymRaise("IndexError", "no such group")
    if isinstance(base, ClassVal) and getattr(base, "enum_members", None) is not None:
        if not isinstance(key, str):
            raise AnalysisError("Enum[...] with a symbolic name")
        if key not in base.enum_members:
            raise SymRaise("KeyError", key)
        return base.enum_members[key]
    if isinstance(base, list) and isinstance(key, str):
        named = getattr(base, "named", None)
        if named is None:
            raise SymRaise("TypeError", "list indices must be integers")
        if key not in named:
            raise SymRaise("KeyError", key)
        return named[key]
    if isinstance(base, (list, tuple, str)):
        if isinstance(key, slice):
            return base[key]
        try:
            return base[concrete_int(key)]
        except IndexError:
            raise SymRaise("IndexError", "index out of range")
    if isinstance(base, StructVec) and isinstance(key, str):
        if key not in base.fields:
            raise SymRaise("ValueError", f"no field of name {key}")
        j = base.fields.index(key)
        return Vec([r.items[j] for r in base.items])
    if isinstance(base, Vec):
        if isinstance(key, tuple) and Ellipsis in key and key.count(Ellipsis) == 1:
            # x[..., None] / x[None, ...]: the ellipsis stands for all the array's own axes
            nd = len(_vshape(base))
            i = key.index(Ellipsis)
            key = key[:i] + (slice(None, None, None),) * (nd - sum(1 for k in key if k is not None and k is not Ellipsis)) + key[i + 1:]
        if isinstance(key, tuple):
            # weights[:, None] - broadcasting marker, element-wise model keeps the items
            if len(key) == 2 and key[0] == slice(None, None, None) and key[1] is None:
                if base.items and isinstance(base.items[0], Vec):
                    raise AnalysisError("array index form")
                if wdep(I, base) or not all(_alg(x) for x in base.items):
                    return Vec(base.items, col=True)
                # a concrete (n,) array becomes an explicit (n, 1) column; col marks it for the implicit-axis model too
                return Vec([Vec([x]) for x in base.items], col=True)
            if len(key) == 2 and key[0] is None and key[1] == slice(None, None, None):
                return Vec([Vec(list(base.items))])
            if len(key) == 2 and base.items and all(isinstance(r, Vec) for r in base.items):
                # 2-D array a[rows, cols]: each selector an int, a slice, an integer array or a boolean mask
                rk, ck = key

                def sel(items, k):
                    """(selected items, whether the axis disappears, whether the selector is an index array)"""
                    if isinstance(k, slice):
                        return list(items[k]), False, False
                    if isinstance(k, (Vec, list)):
                        ks = list(k.items if isinstance(k, Vec) else k)
                        if ks and all(isinstance(x, bool) or x is sp.true or x is sp.false for x in ks):
                            if len(ks) != len(items):
                                raise SymRaise("IndexError", "boolean index did not match indexed array")
                            return [it for it, x in zip(items, ks) if x is True or x is sp.true], False, False
                        if all(isinstance(x, (int, sp.Integer)) and not isinstance(x, bool) for x in ks):
                            try:
                                return [items[int(x)] for x in ks], False, True
                            except IndexError:
                                raise SymRaise("IndexError", "index out of bounds")
                        if all(isinstance(x, (bool, sp.logic.boolalg.Boolean)) for x in ks):
                            raise AnalysisError("boolean mask with undecided entries")
                        raise AnalysisError("array index form")
                    if _alg(k) or isinstance(k, int):
                        try:
                            return [items[concrete_int(k)]], True, False
                        except IndexError:
                            raise SymRaise("IndexError", "index out of bounds")
                    raise AnalysisError("array index form")
                rows, rscalar, rfancy = sel(base.items, rk)
                picked = [sel(r.items, ck) for r in rows]
                cfancy = bool(picked) and picked[0][2]
                cscalar = bool(picked) and picked[0][1] if picked else (not isinstance(ck, (slice, Vec, list)))
                if rfancy and cfancy:
                    # two index arrays pair up element by element
                    ks = list(ck.items if isinstance(ck, Vec) else ck)
                    if len(ks) != len(rows):
                        raise SymRaise("IndexError", "shape mismatch: indexing arrays could not be broadcast together")
                    return Vec(r.items[int(x)] for r, x in zip(rows, ks))
                if rscalar and cscalar:
                    return picked[0][0][0]
                if rscalar:
                    return Vec(picked[0][0])
                if cscalar:
                    return Vec(p_[0][0] for p_ in picked)
                return Vec(Vec(p_[0]) for p_ in picked)
            raise AnalysisError("array index form")
        if isinstance(key, slice):
            return Vec(base.items[key])
        if isinstance(key, (Vec, list)) and len(key) and all(isinstance(k, (int, sp.Integer)) and not isinstance(k, bool) for k in key):
            # integer-array ("fancy") indexing: x[order]
            try:
                return Vec(base.items[int(k)] for k in key)
            except IndexError:
                raise SymRaise("IndexError", "index out of bounds")
        if isinstance(key, Vec):
            if len(key) != len(base) or not all(isinstance(k, bool) for k in key.items):
                # a mask whose entries cannot be decided: keep the undecided ones under their condition is not modelled
                if len(key) == len(base) and all(isinstance(k, (bool, sp.logic.boolalg.Boolean)) for k in key.items):
                    decided = [k if isinstance(k, bool) else (True if k is sp.true else False if k is sp.false else None) for k in key.items]
                    if None not in decided:
                        return Vec(x for x, k in zip(base.items, decided) if k)
                    raise AnalysisError("boolean mask with undecided entries")
                raise SymRaise("IndexError", "boolean index did not match indexed array")
            return Vec(x for x, k in zip(base.items, key.items) if k)
        return base.items[concrete_int(key)]
    if isinstance(base, dict):
        k = dict_key(I, base, key)
        if k in base:
            return base[k]
        if isinstance(base, DefaultDict) and base.factory is not None:
            base[k] = I.call(base.factory, [], {})
            return base[k]
        raise SymRaise("KeyError", repr(key) + (f" (keys: {[repr(k_)[:80] for k_ in list(base)[:6]]})" if isinstance(key, Phi) else ""))
    if isinstance(base, SymObj) and base.cls is not None:
        m = base.cls.lookup("__getitem__")
        if m is not _MISSING:
            return I.call(BoundMethod(m, base), [key], {})
        raise SymRaise("TypeError", f"'{base.cls.name}' object is not subscriptable")
    if _alg(base):
        e = to_expr(base)
        if isinstance(key, tuple) and all(k is None or k is Ellipsis or k == slice(None, None, None) for k in key):
            return e
        if e in I.arrays or any(s in I.arrays for s in e.free_symbols):
            if isinstance(key, (slice,)) or (isinstance(key, sp.Expr) and key.is_Integer):
                return e   # generic element / sub-array of an element-wise quantity
    if isinstance(base, Builtin) and base.name.startswith("typing."):
        return base           # Sequence[float], Optional[X] ...: type expressions carry no behaviour
    raise AnalysisError(f"subscript of {base!r}")


def _vflat(x):
    if isinstance(x, Vec):
        out = []
        for i in x.items:
            out.extend(_vflat(i))
        return out
    return [x]


_PYTYPES = ("str", "list", "tuple", "dict", "set", "frozenset", "float", "int", "complex", "bool", "object", "NoneType", "bytes",
            "ndarray")


def value_attr(I, obj, name):
    """Attributes / methods of plain values."""
    from . import peg
    if isinstance(obj, Builtin) and obj.name in _PYTYPES and I.builtins.get(obj.name) is obj:
        # a builtin type object: its name, its MRO, and its methods unbound (str.split, dict.get, ...)
        if name in ("__name__", "__qualname__"):
            return obj.name
        if name == "__mro__":
            chain = {"bool": ("bool", "int", "object"), "object": ("object",)}.get(obj.name, (obj.name, "object"))
            for nm in chain:
                if nm not in I.builtins:
                    I.builtins[nm] = Builtin(nm, None)
            return tuple(I.builtins[nm] for nm in chain)
        if name == "__module__":
            return "builtins"
        if obj.name == "dict" and name == "fromkeys":
            return Builtin("dict.fromkeys", lambda keys, value=None: {_key(k_): value for k_ in iterate(I, keys)})
        if obj.name == "str" and name == "maketrans":
            return Builtin("str.maketrans", lambda *a: str.maketrans(*[_pyfmt(x) for x in a]))      # a static method
        if obj.name in ("int", "float") and name in ("fromhex", "from_bytes"):
            raise AnalysisError(f"{obj.name}.{name} is not modelled")
        if not name.startswith("__"):
            return Builtin(f"{obj.name}.{name}", lambda self_, *a, **k: I.call(I.getattr(self_, name), list(a), dict(k)))
    if isinstance(obj, peg.PPCommon):
        return obj.attr(name)
    if isinstance(obj, peg.PE):
        m = obj.methods(I)
        if name in m:
            return m[name]
        raise AnalysisError(f"pyparsing method {name} is not modelled")
    if _alg(obj):
        e = to_expr(obj)
        if name == "real":
            return sp.re(e)
        if name == "imag":
            return sp.im(e)
        if name == "conjugate":
            return Builtin("conjugate", lambda: sp.conjugate(e))
        if name in ("flatten", "ravel"):
            return Builtin(name, lambda: Vec([e]))      # a 0-d array flattens to one element
        if name == "reshape":
            return Builtin(name, lambda *sh: e)
        if name == "shape":
            return ()
        if name == "tobytes":
            return Builtin(name, lambda *a: "<bytes of %s>" % sp.srepr(e))      # equal values give equal bytes
        if name == "size":
            return sp.Integer(1)          # a 0-d array / numpy scalar
        if name == "ndim":
            return sp.Integer(0)
        if name in ("item", "tolist"):
            return Builtin(name, lambda *a: e)
        if name in ("numerator", "denominator") and e.is_Rational:
            return sp.Integer(e.p if name == "numerator" else e.q)
        if name == "is_integer":
            return Builtin(name, lambda: bool(e.is_integer) if e.is_number else sp.Eq(e, sp.floor(e)))
        if name == "limit_denominator" and e.is_Rational:
            return Builtin(name, lambda *a: e)
        raise SymRaise("AttributeError", f"number has no attribute {name}")
    if isinstance(obj, bytes):
        if name == "decode":
            return Builtin(name, lambda *a, **k: obj.decode(*a, **k))
    if isinstance(obj, dict) and name == "most_common":
        def most_common(n=None):
            items = list(obj.items())
            order = []
            for i in range(len(items)):
                pos = len(order)
                while pos > 0 and compare(I, ast.Gt(), items[i][1], items[order[pos - 1]][1]) is True:
                    pos -= 1
                order.insert(pos, i)
            out = [items[i] for i in order]
            return out if n is None else out[:concrete_int(n)]
        return Builtin(name, most_common)
    if isinstance(obj, dict):
        if name == "items":
            return Builtin("items", lambda: list(obj.items()))
        if name == "keys":
            return Builtin("keys", lambda: list(obj.keys()))
        if name == "values":
            return Builtin("values", lambda: list(obj.values()))
        if name == "get":
            return Builtin("get", lambda k, d=None: obj.get(dict_key(I, obj, k), d))
        if name == "pop":
            def pop(k, *d):
                k = _key(k)
                if k in obj:
                    return obj.pop(k)
                if d:
                    return d[0]
                raise SymRaise("KeyError", repr(k))
            return Builtin("pop", pop)
        if name == "update":
            def update(o=None, **kw):
                if isinstance(o, dict):
                    obj.update(o)
                elif o is not None:
                    for pair in iterate(I, o):
                        k, v_ = iterate(I, pair)
                        obj[_key(k)] = v_
                obj.update(kw)
            return Builtin("update", update)
        if name == "copy":
            return Builtin("copy", lambda: dict(obj))
        if name == "setdefault":
            return Builtin("setdefault", lambda k, d=None: obj.setdefault(dict_key(I, obj, k), d))
        if name == "clear":
            return Builtin("clear", lambda: obj.clear())
        if name == "popitem":
            def popitem(last=True):
                if not obj:
                    raise SymRaise("KeyError", "dictionary is empty")
                k_ = list(obj)[-1 if last else 0]
                return (k_, obj.pop(k_))
            return Builtin("popitem", popitem)
        if name == "move_to_end":          # collections.OrderedDict
            def move_to_end(k, last=True):
                kk = dict_key(I, obj, k)
                if kk not in obj:
                    raise SymRaise("KeyError", str(k))
                v_ = obj.pop(kk)
                if last:
                    obj[kk] = v_
                else:
                    rest_ = list(obj.items())
                    obj.clear()
                    obj[kk] = v_
                    obj.update(rest_)
            return Builtin("move_to_end", move_to_end)
        if name == "fromkeys":
            return Builtin("fromkeys", lambda ks, v=None: {_key(k): v for k in iterate(I, ks)})
    if isinstance(obj, DequeVal):
        if name == "popleft":
            def popleft():
                if not obj:
                    raise SymRaise("IndexError", "pop from an empty deque")
                return obj.pop(0)
            return Builtin(name, popleft)
        if name == "appendleft":
            return Builtin(name, lambda x: obj.insert(0, x))
        if name == "extendleft":
            return Builtin(name, lambda it: [obj.insert(0, x) for x in iterate(I, it)] and None)
    if isinstance(obj, list):
        if name == "append":
            return Builtin("append", lambda x: obj.append(x))
        if name == "extend":
            return Builtin("extend", lambda x: obj.extend(iterate(I, x)))
        if name == "sort":
            def lsort(key=None, reverse=False):
                obj[:] = I.call(I.builtins["sorted"], [list(obj)], {"key": key, "reverse": reverse})
            return Builtin("sort", lsort)
        if name == "reverse":
            return Builtin("reverse", lambda: obj.reverse())
        if name == "insert":
            return Builtin("insert", lambda i, x: obj.insert(concrete_int(i), x))
        if name == "pop":
            def lpop(i=-1):
                try:
                    return obj.pop(concrete_int(i))
                except IndexError:
                    raise SymRaise("IndexError", "pop from empty list")
            return Builtin("pop", lpop)
        if name == "remove":
            def lremove(x):
                for i, y in enumerate(obj):
                    if _same(x, y):
                        del obj[i]
                        return None
                raise SymRaise("ValueError", "list.remove(x): x not in list")
            return Builtin("remove", lremove)
        if name == "copy":
            return Builtin("copy", lambda: list(obj))
        if name == "clear":
            return Builtin("clear", lambda: obj.clear())
        if name == "count":
            return Builtin("count", lambda x: sp.Integer(sum(1 for y in obj if _same(x, y))))
    if isinstance(obj, TextFile):
        if name == "read":
            return Builtin("read", lambda *a: "".join(obj.take_all()))
        if name == "readlines":
            return Builtin("readlines", lambda *a: obj.take_all())
        if name == "readline":
            def readline(*a):
                if obj.pos < len(obj.items):
                    obj.pos += 1
                    return obj.items[obj.pos - 1]
                return ""
            return Builtin("readline", readline)
        if name in ("close", "__exit__", "flush"):
            return Builtin(name, lambda *a: None)
        if name == "__enter__":
            return Builtin(name, lambda: obj)
        if name == "getvalue":
            return Builtin(name, lambda: "".join(obj.items))
        if name == "name":
            return obj.name
        if name == "seek":
            def seek(n, *a):
                if concrete_int(n) != 0:
                    raise AnalysisError("file.seek to a non-zero offset")
                obj.pos = 0
                return sp.Integer(0)
            return Builtin(name, seek)
        raise AnalysisError(f"file method {name} is not modelled")
    if isinstance(obj, PathVal):
        import os.path as _osp
        if name == "name":
            return _osp.basename(obj.path)
        if name == "suffix":
            return _osp.splitext(_osp.basename(obj.path))[1]
        if name == "stem":
            return _osp.splitext(_osp.basename(obj.path))[0]
        if name == "parent":
            return PathVal(_osp.dirname(obj.path) or ".")
        if name == "parts":
            return tuple(x for x in obj.path.split("/") if x)
        if name in ("joinpath",):
            return Builtin(name, lambda *a: PathVal(_osp.join(obj.path, *[str(x.path if isinstance(x, PathVal) else x) for x in a])))
        if name in ("open",):
            return Builtin(name, lambda *a, **k: I.call(I.builtins["open"], [obj.path] + list(a), dict(k)))
        if name == "read_text":
            def read_text(*a, **k):
                fh = I.call(I.builtins["open"], [obj.path], {})
                return "".join(iterate(I, fh)) if not isinstance(fh, str) else fh
            return Builtin(name, read_text)
        if name in ("resolve", "absolute", "expanduser"):
            return Builtin(name, lambda *a, **k: obj)
        if name in ("as_posix", "__str__", "__fspath__"):
            return Builtin(name, lambda: obj.path)
        if name in ("exists", "is_file"):
            return Builtin(name, lambda: True)
        if name == "is_dir":
            return Builtin(name, lambda: False)
        if name == "with_suffix":
            return Builtin(name, lambda sfx: PathVal(_osp.splitext(obj.path)[0] + sfx))
        if name == "with_name":
            return Builtin(name, lambda nm: PathVal(_osp.join(_osp.dirname(obj.path), nm)))
        raise AnalysisError(f"pathlib.Path.{name} is not modelled")
    if isinstance(obj, NTupleClass):
        if name == "_fields":
            return obj.fields
        if name == "_make":
            return Builtin("_make", lambda it: obj.make(list(iterate(I, it)), {}))
        if name == "__name__":
            return obj.name
        raise SymRaise("AttributeError", f"{obj.name} has no attribute {name}")
    if isinstance(obj, NTuple):
        if name in obj._fields:
            return obj[obj._fields.index(name)]
        kls = getattr(obj, "_cls", None)
        if kls is not None and name not in ("_fields", "_asdict", "_replace"):
            cv = kls.lookup(name)
            if cv is not _MISSING:
                if isinstance(cv, PropertyVal):
                    if cv.fget is None:
                        raise SymRaise("AttributeError", name)
                    return I.call(cv.fget, [obj], {})
                if isinstance(cv, Closure):
                    return BoundMethod(cv, obj)
                if isinstance(cv, tuple) and cv and cv[0] == "static":
                    return cv[1]
                if isinstance(cv, tuple) and cv and cv[0] == "classmethod":
                    return BoundMethod(cv[1], kls)
                return cv
            if name == "__class__":
                return kls
        if name == "_fields":
            return obj._fields
        if name == "_asdict":
            return Builtin("_asdict", lambda: dict(zip(obj._fields, obj)))
        if name == "_replace":
            def _replace(**kw):
                bad = [k for k in kw if k not in obj._fields]
                if bad:
                    raise SymRaise("ValueError", f"unexpected field names {bad}")
                t = NTuple([kw.get(f, v) for f, v in zip(obj._fields, obj)])
                t._fields, t._tname = obj._fields, obj._tname
                if getattr(obj, "_cls", None) is not None:
                    t._cls = obj._cls
                return t
            return Builtin("_replace", _replace)
    if isinstance(obj, (tuple, list, dict, str, Vec)) and name in ("__getitem__", "__contains__", "__len__", "__iter__") \
            or isinstance(obj, (list, dict)) and name == "__setitem__":
        # bound special methods of containers (hoisted into locals by performance-minded code)
        if name == "__getitem__":
            return Builtin(name, lambda k: subscript(I, obj, k))
        if name == "__contains__":
            return Builtin(name, lambda k: compare(I, ast.In(), k, obj))
        if name == "__len__":
            return Builtin(name, lambda: I.builtins["len"].fn(obj))
        if name == "__iter__":
            return Builtin(name, lambda: I.builtins["iter"].fn(obj))

        def setitem(k, v_):
            if isinstance(obj, dict):
                obj[dict_key(I, obj, k)] = v_
            else:
                obj[concrete_int(k)] = v_
        return Builtin(name, setitem)
    if isinstance(obj, tuple) or isinstance(obj, list):
        if name == "index":
            return Builtin("index", lambda x: [i for i, y in enumerate(obj) if _same(x, y)][0])
    if isinstance(obj, str):
        if hasattr(str, name) and not name.startswith("__"):
            def strm(*a, **k):
                if name == "format":
                    return _strformat(I, obj, a, k)
                if name in ("startswith", "endswith") and a and isinstance(a[0], (tuple, list)):
                    return getattr(obj, name)(tuple(a[0]), *[concrete_int(x) for x in a[1:]])
                try:
                    a = [_pyfmt(x) if not isinstance(x, (list, tuple, GenVal)) else [ _pyfmt(y) for y in iterate(I, x)] for x in a]
                    k = {kk: _pyfmt(v) for kk, v in k.items()}
                except ValueError:
                    if name in ("format", "join"):
                        return StrSym()          # text built from symbolic pieces (a message): an opaque string
                    raise AnalysisError(f"str.{name} with a symbolic argument")
                if name == "join" and a and not all(isinstance(x, str) for x in a[0]):
                    if any(isinstance(x, StrSym) for x in a[0]):
                        return StrSym()
                    raise SymRaise("TypeError", "sequence item: expected str instance")
                r = getattr(obj, name)(*a, **k)
                if isinstance(r, bool):
                    return r
                if isinstance(r, int):
                    return sp.Integer(r)
                return list(r) if isinstance(r, tuple) and name in ("partition", "rpartition") and False else r
            return Builtin(name, strm)
    if isinstance(obj, StrSym):
        return Builtin(name, lambda *a, **k: StrSym())
    if isinstance(obj, ReObj):
        target = getattr(obj.obj, name, None)
        if target is None:
            raise SymRaise("AttributeError", name)
        if not callable(target):
            return target

        def remeth(*a, **k):
            a = [int(x) if isinstance(x, sp.Integer) else x for x in a]
            if not all(isinstance(x, (str, int)) or x is None for x in a):
                raise AnalysisError(f"regular expression method {name} on a symbolic value")
            r = target(*a, **k)
            if r is not None and type(r).__name__ in ("Match", "Pattern"):
                return ReObj(r)
            if name == "finditer":
                return GenVal([ReObj(m_) for m_ in r])
            return r
        return Builtin(name, remeth)
    if isinstance(obj, Vec):
        np_ = lambda fn: _math(I, fn)
        if name == "flatten" or name == "ravel":
            return Builtin(name, lambda: np_("reshape")(obj, (-1,)) if False else Vec(_vflat(obj)))
        if name == "reshape":
            return Builtin(name, lambda *sh: np_("reshape")(obj, sh[0] if len(sh) == 1 and isinstance(sh[0], (tuple, list)) else sh))
        if name == "sum":
            return Builtin(name, lambda axis=None: np_("sum")(obj, axis=axis))
        if name == "shape":
            return np_("shape")(obj)
        if name == "T":
            if obj.items and isinstance(obj.items[0], Vec):
                from .symval import TransposeView
                return TransposeView(obj)
            return obj
        if name == "copy":
            return Builtin(name, lambda: Vec(list(obj.items), obj.col))
        if name == "size":
            return sp.Integer(len(_vflat(obj)))
        if name == "ndim":
            return sp.Integer(len(_vshape(obj)))
        if name == "tobytes":
            return Builtin(name, lambda *a: "<bytes of %s>" % "|".join(sp.srepr(to_expr(x_)) if _alg(x_) else repr(x_) for x_ in _vflat(obj)))
        if name == "item":
            def item(*a):
                fl_ = _vflat(obj)
                if a:
                    return fl_[concrete_int(a[0])]
                if len(fl_) != 1:
                    raise SymRaise("ValueError", "can only convert an array of size 1 to a Python scalar")
                return fl_[0]
            return Builtin(name, item)
        if name == "tolist":
            def tolist(v=obj):
                return [tolist(x) if isinstance(x, Vec) else x for x in v.items]
            return Builtin(name, tolist)
        if name == "astype":
            return Builtin(name, lambda dt, **k: _as_dtype(I, obj, dt, True))
        if name in ("min", "max", "mean", "prod", "cumsum", "any", "all", "clip", "round", "argsort", "argmax", "argmin", "conj", "conjugate", "dot", "sort"):
            if name == "sort":
                def insort(**k):
                    r = np_("sort")(obj)
                    obj.items[:] = r.items
                return Builtin(name, insort)
            fn_ = np_(name)
            if fn_ is None:
                raise AnalysisError(f"ndarray.{name} is not modelled")
            return Builtin(name, lambda *a, **k: fn_(obj, *a, **k))
        if name in ("real", "imag"):
            part = sp.re if name == "real" else sp.im

            from .symval import ViewVec
            return ViewVec(obj, lambda x: part(to_expr(x)), obj.col)
        if name == "T":
            if obj.items and all(isinstance(r, Vec) for r in obj.items) and len({len(r) for r in obj.items}) == 1:
                from .symval import TransposeView
                return TransposeView(obj)
            return obj
        if name == "flags":
            from .symval import VecFlags
            return VecFlags(obj)
    from .symval import VecFlags as _VF
    if isinstance(obj, _VF):
        if name == "writeable":
            return not getattr(obj.vec, "readonly", False)
        raise AnalysisError(f"ndarray.flags.{name} is not modelled")
    if isinstance(obj, SigVal):
        if name in ("bind", "bind_partial"):
            partial = name == "bind_partial"

            def bind(*a, **k):
                return BoundArgs(obj.bind(I, list(a), dict(k), partial))
            return Builtin(name, bind)
        if name == "parameters":
            return {n: n for n in obj.names}
        raise AnalysisError(f"inspect.Signature.{name} is not modelled")
    if isinstance(obj, BoundArgs):
        if name == "arguments":
            return obj.arguments
        if name == "args":
            return tuple(obj.arguments.values())
        if name == "kwargs":
            return {}
        if name == "apply_defaults":
            return Builtin(name, lambda: None)
        raise AnalysisError(f"inspect.BoundArguments.{name} is not modelled")
    if isinstance(obj, Closure):
        if name in getattr(obj, "fattrs", {}):
            return obj.fattrs[name]
        if name == "__code__" and isinstance(obj.node, (ast.FunctionDef, ast.Lambda)):
            a_ = obj.node.args
            pos_ = [x.arg for x in a_.posonlyargs + a_.args]
            locals_ = []
            for n_ in ast.walk(obj.node):
                if isinstance(n_, ast.Name) and isinstance(n_.ctx, ast.Store) and n_.id not in pos_ and n_.id not in locals_:
                    locals_.append(n_.id)
            code = I.new_obj("code", None, {"co_argcount": sp.Integer(len(pos_)), "co_varnames": tuple(pos_ + [x.arg for x in a_.kwonlyargs] + locals_),
                                            "co_kwonlyargcount": sp.Integer(len(a_.kwonlyargs)), "co_name": obj.qual.rsplit(".", 1)[-1]}, open_attrs=set())
            return code
        if name == "__module__":
            return "periodictable." + obj.module
        if name == "__qualname__":
            return obj.qual.split(".", 1)[-1]
        if name == "__wrapped__":
            raise SymRaise("AttributeError", "__wrapped__")
        if name == "__defaults__":
            return None
        if name == "__doc__":
            return "<doc>"
        if name == "__name__":
            return obj.qual.rsplit(".", 1)[-1]
    if isinstance(obj, Builtin) and name == "__doc__":
        return "<doc>"
    if isinstance(obj, Builtin) and name == "__name__":
        return obj.name
    if isinstance(obj, Builtin) and (obj.name + "." + name) in I.builtins:
        return I.builtins[obj.name + "." + name]          # dict.fromkeys, ...
    if isinstance(obj, Builtin) and obj.name == "itertools.chain" and name == "from_iterable":
        return external(I, "itertools.chain.from_iterable")
    raise SymRaise("AttributeError", f"{type(obj).__name__} value has no attribute {name}")


# ------------------------------------------------------------------- builtins
def _pyformat(v, spec):
    if isinstance(v, str):
        return format(v, spec)
    e = to_expr(v)
    if not e.is_number:
        raise AnalysisError("format() of a symbolic number")
    return format(int(e) if e.is_Integer else float(e) if e.is_real else complex(e), spec)


def _num(f):
    def g(*a):
        return f(*[to_expr(x) for x in a])
    return g


def _map1(I, f):
    """Apply an algebraic function element-wise."""
    def g(x, *rest):
        if isinstance(x, Vec):
            return Vec(g(e, *rest) for e in x)
        if isinstance(x, (list, tuple)):
            return Vec(g(e, *rest) for e in x)
        if isinstance(x, Phi):
            return merge(x.cond, g(x.a, *rest), g(x.b, *rest))
        if x is None:
            raise SymRaise("TypeError", "None passed to a math function")
        return f(to_expr(x), *[to_expr(r) for r in rest])

    def with_out(x, *rest, out=None, **kw):
        # numpy's out=: the result is written into the array given, which is also what is returned
        if kw:
            raise AnalysisError(f"keyword {sorted(kw)[0]} of an element-wise numpy function is not modelled")
        rest = list(rest)
        if out is None and rest and isinstance(rest[-1], Vec) and False:
            out = rest.pop()
        r = g(x, *rest)
        if out is None:
            return r
        if isinstance(out, tuple) and len(out) == 1:
            out = out[0]
        if not isinstance(out, Vec) or not isinstance(r, Vec) or len(out.items) != len(r.items):
            raise AnalysisError("out= of an element-wise numpy function on values that are not arrays of one length")
        out.items[:] = r.items
        return out
    return with_out


def make_builtins(I):
    B = {}

    def reg(name, fn):
        B[name] = Builtin(name, fn)

    def b_sum(it, start=0):
        acc = to_expr(start) if _alg(start) else start
        for x in iterate(I, it):
            acc = binop(I, ast.Add(), acc, x)
        return acc

    _NODEF = object()

    def _extreme(which, a, key, default):
        items = iterate(I, a[0]) if len(a) == 1 else list(a)
        if not items:
            if default is not _NODEF:
                return default
            raise SymRaise("ValueError", f"{which} of empty sequence")
        op = ast.Lt if which == "min" else ast.Gt
        if key is not None:
            keys = [I.call(key, [x], {}) for x in items]
            if all(_alg(k) and to_expr(k).is_number for k in keys):
                ks = [to_expr(k) for k in keys]
                best = 0
                for j in range(1, len(ks)):
                    if (ks[j] < ks[best]) if which == "min" else (ks[j] > ks[best]):
                        best = j
                return items[best]
            # symbolic keys: use the ordering facts supplied by the rule (I.positive); the first extreme one wins ties
            for i in range(len(keys)):
                if all(i == j or compare(I, (ast.LtE if which == "min" else ast.GtE)() if i < j else op(), keys[i], keys[j]) is True
                       for j in range(len(keys))):
                    return items[i]
            raise AnalysisError(f"{which} with key over symbolic values whose order is not known")
        if all(isinstance(x, str) for x in items):
            return (min if which == "min" else max)(items)
        if any(isinstance(x, (tuple, list)) for x in items):
            best = items[0]
            for x in items[1:]:
                r = compare(I, op(), x, best)
                if r is True:
                    best = x
                elif r is not False:
                    raise AnalysisError(f"{which} over sequences whose order is not known")
            return best
        return _minmax(sp.Min if which == "min" else sp.Max, [to_expr(x) for x in items])

    def b_min(*a, key=None, default=_NODEF):
        return _extreme("min", a, key, default)

    def b_max(*a, key=None, default=_NODEF):
        return _extreme("max", a, key, default)

    def b_abs(x):
        return _map1(I, sp.Abs)(x)

    def b_len(x):
        if isinstance(x, (list, tuple, dict, str, set, Vec)):
            return sp.Integer(len(x))
        if isinstance(x, SymObj) and x.cls is not None:
            m = x.cls.lookup("__len__")
            if m is not _MISSING:
                return I.call(BoundMethod(m, x), [], {})
        raise AnalysisError(f"len of {x!r}")

    def b_float(x=0):
        if isinstance(x, str):
            try:
                return to_expr(float(x))
            except ValueError:
                raise SymRaise("ValueError", "float()")
        if isinstance(x, StrSym):
            return sp.Symbol("float(<str>)", real=True)
        if x is None or isinstance(x, (SymObj, list, tuple)):
            raise SymRaise("TypeError", "float() argument")
        return to_expr(x)

    def b_int(x=0):
        if isinstance(x, str):
            try:
                return sp.Integer(int(x))
            except ValueError:
                raise SymRaise("ValueError", "int()")
        e = to_expr(x)
        if e.is_Integer:
            return e
        if e.is_number:
            return sp.Integer(int(e))
        return sp.Function("int")(e)

    def b_isinstance(x, c):
        if isinstance(x, Phi):
            return merge(x.cond, b_isinstance(x.a, c), b_isinstance(x.b, c))
        cs = c if isinstance(c, tuple) else (c,)
        for k in cs:
            if isinstance(k, ClassVal):
                if isinstance(x, NTuple) and getattr(x, "_cls", None) is not None:
                    q = [x._cls]
                    while q:
                        cc = q.pop()
                        if cc is k:
                            return True
                        q.extend(cc.bases)
                if isinstance(x, SymObj) and x.cls is not None:
                    q = [x.cls]
                    while q:
                        cc = q.pop()
                        if cc is k:
                            return True
                        q.extend(cc.bases)
            elif isinstance(k, NTupleClass):
                if isinstance(x, NTuple) and x._fields == k.fields and x._tname == k.name:
                    return True
            elif isinstance(k, Builtin):
                py = {"list": list, "tuple": tuple, "dict": dict, "str": str, "set": set}.get(k.name)
                if py is not None and isinstance(x, py):
                    return True
                if k.name == "float" and _alg(x) and not to_expr(x).is_Integer:
                    return True
                if k.name == "int" and _alg(x) and to_expr(x).is_Integer:
                    return True
            else:
                raise AnalysisError(f"isinstance against {k!r}")
        if isinstance(x, Phi):
            raise AnalysisError("isinstance of a phi value")
        return False

    def b_getattr(o, name, *d):
        try:
            return I.getattr(o, name)
        except SymRaise as e:
            if e.exc == "AttributeError" and d:
                return d[0]
            raise

    def b_setattr(o, name, v):
        I.setattr(o, name, v)

    def b_delattr(o, name):
        if isinstance(o, SymObj):
            if name not in I.heap[o.id]:
                raise SymRaise("AttributeError", name)
            del I.heap[o.id][name]
        elif isinstance(o, ClassVal):
            if name not in o.attrs:
                raise SymRaise("AttributeError", name)
            del o.attrs[name]
        else:
            raise AnalysisError("delattr target")

    def b_sorted(it, key=None, reverse=False):
        items = iterate(I, it)
        if isinstance(key, CmpKey):
            import functools

            def cmpf(x, y):
                r = I.call(key.cmp, [x, y], {})
                e = to_expr(r)
                if not e.is_number:
                    raise AnalysisError("comparison function gives a symbolic result")
                return int(sp.sign(e))
            return sorted(items, key=functools.cmp_to_key(cmpf), reverse=bool(reverse))
        if key is not None:
            ks = [I.call(key, [x], {}) for x in items]
        else:
            ks = items
        if any(isinstance(k, SymObj) and k.cls is not None and k.cls.lookup("__lt__") is not _MISSING for k in ks):
            # keys are objects that define their own ordering: a stable insertion sort through __lt__
            def obj_lt(a, b):
                r = truth(I, I.call(BoundMethod(a.cls.lookup("__lt__"), a), [b], {}))
                if r is sp.true or r is True:
                    return True
                if r is sp.false or r is False:
                    return False
                raise AnalysisError("sorted: the key objects' __lt__ gives a symbolic result")
            order = []
            for i in range(len(items)):
                pos = len(order)
                while pos > 0 and obj_lt(ks[i], ks[order[pos - 1]]):
                    pos -= 1
                order.insert(pos, i)
            if reverse:
                order = order[::-1]
            return [items[i] for i in order]

        def pk(k):
            if isinstance(k, (tuple, list)):
                return tuple(pk(x) for x in k)
            if isinstance(k, str):
                return (1, k)
            if isinstance(k, SymObj):
                return (2, k.id)       # only reached on ties of the leading components
            if k is None:
                return (-1, 0)
            if isinstance(k, bool) or k is sp.true or k is sp.false:
                return (0, 1.0 if (k is True or k is sp.true) else 0.0)
            e = to_expr(k)
            if not e.is_number:
                raise AnalysisError("sorted over symbolic keys")
            return (0, float(e))
        try:
            order = sorted(range(len(items)), key=lambda i: pk(ks[i]), reverse=bool(reverse))
        except AnalysisError:
            # symbolic numeric keys: stable insertion sort decided by the ordering facts the rule supplied
            def lt(a, b):
                if isinstance(a, (tuple, list)) and isinstance(b, (tuple, list)):
                    for x, y in zip(a, b):
                        if x is y or (_alg(x) and _alg(y) and sp.expand(to_expr(x) - to_expr(y)) == 0):
                            continue
                        return lt(x, y)
                    return len(a) < len(b)
                if isinstance(a, str) and isinstance(b, str):
                    return a < b
                if isinstance(a, bool) and isinstance(b, bool):
                    return a < b
                if _alg(a) and _alg(b):
                    return compare(I, ast.Lt(), a, b)
                raise AnalysisError("sorted over symbolic keys")
            order = []
            for i in range(len(items)):
                pos = len(order)
                while pos > 0:
                    r = lt(ks[i], ks[order[pos - 1]])
                    if r is True:
                        pos -= 1
                    elif r is False:
                        break
                    else:
                        raise AnalysisError("sorted over symbolic keys whose order is not known")
                order.insert(pos, i)
            if reverse:
                order = order[::-1]     # (stability under reverse is not modelled for ties; symbolic keys are distinct symbols)
        return [items[i] for i in order]

    def b_str(x=""):
        if isinstance(x, str):
            return x
        if isinstance(x, PathVal):
            return x.path
        if isinstance(x, sp.Integer):
            return str(int(x))
        if x is None or isinstance(x, bool):
            return str(x)
        if _alg(x):
            e = to_expr(x)
            return str(float(e)) if e.is_number and not e.is_Integer and e.is_real else "<" + str(e) + ">"
        if isinstance(x, SymObj) and x.cls is not None:
            m = x.cls.lookup("__str__")
            if m is not _MISSING:
                try:
                    return I.call(BoundMethod(m, x), [], {})
                except (AnalysisError, SymRaise):
                    return StrSym()
        return StrSym()

    def b_all(it):
        cs = [truth(I, x) for x in iterate(I, it)]
        return _pb(sp.And(*cs)) if cs else True

    def b_any(it):
        cs = [truth(I, x) for x in iterate(I, it)]
        return _pb(sp.Or(*cs)) if cs else False

    def b_property(fget=None, fset=None, fdel=None, doc=None):
        return PropertyVal(fget, fset)

    def b_copy(x):
        if isinstance(x, SymObj):
            o = I.new_obj(x.name + "'", x.cls, dict(I.heap[x.id]), x.open_attrs, x.sym_kw)
            return o
        if isinstance(x, (list, dict)):
            return type(x)(x)
        return x

    reg("sum", b_sum); reg("min", b_min); reg("max", b_max); reg("abs", b_abs); reg("len", b_len)
    reg("float", b_float); reg("int", b_int); reg("isinstance", b_isinstance)
    reg("getattr", b_getattr); reg("setattr", b_setattr); reg("delattr", b_delattr)
    reg("hasattr", lambda o, n: I.hasattr(o, n))
    reg("sorted", b_sorted); reg("str", b_str); reg("repr", b_str); reg("all", b_all); reg("any", b_any)
    reg("property", b_property)
    reg("tuple", lambda x=(): tuple(iterate(I, x)))
    reg("list", lambda x=(): list(iterate(I, x)))
    reg("dict", lambda *a, **k: dict(*[iterate(I, x) if not isinstance(x, dict) else x for x in a], **k))
    reg("str.maketrans", lambda *a: str.maketrans(*[_pyfmt(x) for x in a]))
    reg("dict.fromkeys", lambda ks, v=None: {k_: v for k_ in iterate(I, ks)})
    reg("set", lambda x=(): set(iterate(I, x)))
    def b_zip(*a, strict=False):
        seqs = [iterate(I, x) for x in a]
        if strict and len({len(x) for x in seqs}) > 1:
            raise SymRaise("ValueError", "zip() arguments have different lengths")
        return GenVal([tuple(t) for t in zip(*seqs)])
    reg("zip", b_zip)
    reg("enumerate", lambda x, start=0: GenVal([(sp.Integer(i), v) for i, v in enumerate(iterate(I, x), concrete_int(start))]))
    reg("range", lambda *a: [sp.Integer(i) for i in range(*[concrete_int(x) for x in a])])
    reg("reversed", lambda x: GenVal(list(reversed(iterate(I, x)))))
    reg("iter", lambda x: x if isinstance(x, GenVal) else GenVal(iterate(I, x)))

    def b_next(g, *default):
        if isinstance(g, GenVal) and g.pos < len(g.items):
            g.pos += 1
            return g.items[g.pos - 1]
        if default:
            return default[0]
        raise SymRaise("StopIteration", "")
    reg("next", b_next)
    reg("print", lambda *a, **k: None)
    reg("bool", lambda x=False: _pb(truth(I, x)))
    reg("callable", lambda x: isinstance(x, (Closure, Builtin, BoundMethod, ClassVal)))
    def b_type(x):
        if isinstance(x, SymObj) and x.cls is not None:
            return x.cls
        if isinstance(x, NTuple) and getattr(x, "_cls", None) is not None:
            return x._cls
        if x is None:
            nm = "NoneType"
        elif isinstance(x, bool) or x is sp.true or x is sp.false:
            nm = "bool"
        elif isinstance(x, (str, StrSym)):
            nm = "str"
        elif isinstance(x, (list, tuple, dict, set, frozenset)):
            nm = next(t.__name__ for t in (list, tuple, dict, set, frozenset) if isinstance(x, t))
        elif isinstance(x, Vec):
            nm = "ndarray"
        elif _alg(x):
            e = to_expr(x)
            nm = "int" if e.is_Integer else ("complex" if e.has(sp.I) else "float")
        else:
            nm = type(x).__name__
        if nm not in B:
            B[nm] = Builtin(nm, None)        # one object per type name, so that types compare by identity
        return B[nm]
    reg("type", b_type)
    reg("map", lambda f, *its: GenVal([I.call(f, list(t), {}) for t in zip(*[iterate(I, x) for x in its])]))
    reg("object", lambda: I.new_obj("object"))
    reg("round", lambda x, n=None: (sp.Integer(round(float(to_expr(x)))) if n is None else to_expr(round(float(to_expr(x)), concrete_int(n))))
        if to_expr(x).is_number else sp.Function("round")(to_expr(x)))
    reg("divmod", lambda a, b: (binop(I, ast.FloorDiv(), a, b), binop(I, ast.Mod(), a, b)))
    reg("pow", lambda a, b, m=None: binop(I, ast.Pow(), a, b) if m is None else sp.Integer(pow(concrete_int(a), concrete_int(b), concrete_int(m))))
    reg("ord", lambda c: sp.Integer(ord(c)))
    reg("chr", lambda c: chr(concrete_int(c)))
    reg("frozenset", lambda x=(): frozenset(iterate(I, x)))
    reg("filter", lambda f, it: GenVal([x for x in iterate(I, it) if truth(I, I.call(f, [x], {}) if f is not None else x) is sp.true]))
    reg("slice", lambda *a: slice(*[None if x is None else concrete_int(x) for x in a]))
    def b_complex(re_=0, im_=0):
        if isinstance(re_, str):
            c_ = complex(re_)
            return to_expr(c_.real) + sp.I * to_expr(c_.imag)
        return to_expr(re_) + sp.I * to_expr(im_)
    reg("complex", b_complex)
    reg("vars", lambda o: I.heap[o.id])
    reg("NotImplementedError", lambda *a, **k: I.new_obj("<NotImplementedError>"))
    reg("StopIteration", lambda *a, **k: I.new_obj("<StopIteration>"))
    reg("OSError", lambda *a, **k: I.new_obj("<OSError>"))
    reg("IOError", lambda *a, **k: I.new_obj("<IOError>"))
    reg("eval", lambda *a: None)
    reg("id", lambda x: sp.Integer(x.id if isinstance(x, SymObj) else id(x)))
    reg("hash", lambda x: sp.Integer(x.id if isinstance(x, SymObj) else hash(x)))
    reg("staticmethod", lambda f: ("static", f))
    reg("copy.copy", b_copy)
    reg("format", lambda v, spec="": _pyformat(v, spec))
    reg("bin", lambda v: bin(concrete_int(v)))
    reg("hex", lambda v: hex(concrete_int(v)))
    reg("oct", lambda v: oct(concrete_int(v)))

    def b_open(path, *a, **k):
        pth = path.path if isinstance(path, PathVal) else path
        data = getattr(I, "loadtxt_data", None)
        if isinstance(pth, str) and pth.endswith(".nff") and data:
            # the probe table the rule supplies for numpy.loadtxt, as the text of the file (a reader may parse it itself)
            def cell(x):
                e = to_expr(x)
                return str(int(e)) if e.is_Integer else repr(float(e))
            lines = ["E(eV)\tf1\tf2\n"] + ["\t".join(cell(c) for c in row) + "\n" for row in data]
            return TextFile(lines, pth)
        raise AnalysisError(f"open({path!r}): the rule did not provide this file")
    reg("open", b_open)
    for exc in ("ValueError", "TypeError", "KeyError", "RuntimeError", "AttributeError",
                "AssertionError", "Exception", "IndexError", "ZeroDivisionError"):
        reg(exc, (lambda e: lambda *a, **k: I.new_obj(f"<{e}>"))(exc))
    return B


_EXT_CONST = {
    "math.pi": sp.pi, "numpy.pi": sp.pi, "numpy.nan": sp.nan, "numpy.inf": sp.oo, "math.inf": sp.oo,
    "math.e": sp.E, "numpy.e": sp.E, "numpy.newaxis": None,
}


def external(I, dotted):
    """Model of a non-package name (math / numpy / copy ...)."""
    if dotted in _EXT_CONST:
        return _EXT_CONST[dotted]
    mod, _, name = dotted.rpartition(".")
    if dotted in ("numpy", "math", "os", "os.path", "sys", "warnings", "copy", "numpy.linalg", "re", "string"):
        return ModuleVal(dotted, external=dotted)
    if mod == "re" and name.isupper() and hasattr(__import__("re"), name):
        return sp.Integer(int(getattr(__import__("re"), name)))       # flag constants (re.VERBOSE, re.I, ...)
    if mod == "re" and name in ("sub", "split", "match", "fullmatch", "search", "findall", "compile", "escape", "finditer", "subn"):
        import re as _re

        def refn(*a, **k):
            # the standard regular-expression library on concrete strings (library semantics, not repository code)
            a = [int(x) if isinstance(x, sp.Integer) else x for x in a]
            k = {kk: (int(x) if isinstance(x, sp.Integer) else x) for kk, x in k.items()}
            if not all(isinstance(x, (str, int)) or x is None for x in list(a) + list(k.values())):
                raise AnalysisError(f"re.{name} on a symbolic string")
            r = getattr(_re, name)(*a, **k)
            if name == "finditer":
                return GenVal([ReObj(m_) for m_ in r])
            if name in ("match", "fullmatch", "search"):
                return None if r is None else ReObj(r)
            if name == "compile":
                return ReObj(r)
            return r
        return Builtin(dotted, refn)
    if dotted == "copy.copy":
        return I.builtins["copy.copy"]
    if mod == "os.path" and name in ("basename", "dirname", "splitext", "split", "join", "normpath"):
        import os.path as _osp
        real = getattr(_osp, name)

        def pathfn(*a):
            a = [x.path if isinstance(x, PathVal) else x for x in a]
            if not all(isinstance(x, str) for x in a):
                raise AnalysisError(f"os.path.{name} of a symbolic path")
            r = real(*a)
            return tuple(r) if isinstance(r, tuple) else r
        return Builtin(dotted, pathfn)
    if dotted in ("itertools", "collections", "functools", "operator", "weakref"):
        return ModuleVal(dotted, external=dotted)
    if dotted in ("weakref.WeakValueDictionary", "weakref.WeakKeyDictionary"):
        return Builtin(dotted, lambda *a, **k: WeakDict())
    if dotted in ("contextlib", "ast", "enum", "contextlib.contextmanager"):
        if dotted == "contextlib.contextmanager":
            raise AnalysisError("contextlib.contextmanager is not modelled")
        return ModuleVal(dotted, external=dotted)
    if dotted in ("contextlib.closing", "contextlib.nullcontext"):
        return Builtin(dotted, lambda x=None: x)          # the with-statement binds the object itself
    if dotted == "contextlib.suppress":
        return Builtin(dotted, lambda *excs: ("<suppress>", excs))
    if dotted == "ast.literal_eval":
        import ast as _ast

        def lit(text):
            if not isinstance(text, str):
                raise AnalysisError("ast.literal_eval of a symbolic string")
            try:
                v = _ast.literal_eval(text)
            except (ValueError, SyntaxError) as exc:
                raise SymRaise(type(exc).__name__, str(exc))

            def conv(x):
                if isinstance(x, bool) or x is None or isinstance(x, (str, bytes)):
                    return x
                if isinstance(x, (int, float, complex)):
                    return to_expr(x)
                if isinstance(x, tuple):
                    return tuple(conv(y) for y in x)
                if isinstance(x, list):
                    return [conv(y) for y in x]
                if isinstance(x, dict):
                    return {conv(k): conv(y) for k, y in x.items()}
                if isinstance(x, (set, frozenset)):
                    return set(conv(y) for y in x)
                raise AnalysisError(f"literal {x!r}")
            return conv(v)
        return Builtin(dotted, lit)
    if dotted == "fractions":
        return ModuleVal(dotted, external=dotted)
    if dotted == "fractions.Fraction":
        def fraction(num=0, den=None):
            # exact rationals are the interpreter's own numbers
            if isinstance(num, str):
                if den is not None:
                    raise SymRaise("TypeError", "both arguments should be Rational instances")
                try:
                    from fractions import Fraction as _F
                    fr_ = _F(num)
                except ValueError:
                    raise SymRaise("ValueError", f"Invalid literal for Fraction: {num!r}")
                return sp.Rational(fr_.numerator, fr_.denominator)
            if not _alg(num) or (den is not None and not _alg(den)):
                raise SymRaise("TypeError", "Fraction of a non-number")
            x = to_expr(num)
            if den is not None:
                d_ = to_expr(den)
                if d_ == 0:
                    raise SymRaise("ZeroDivisionError", "Fraction(%s, 0)" % x)
                x = x / d_
            return sp.nsimplify(x) if x.is_Float else x
        return Builtin(dotted, fraction)
    if dotted == "enum.auto":
        return Builtin(dotted, lambda: I.new_obj("enum.auto()"))
    if dotted in ("enum.unique", "typing.final", "typing.runtime_checkable"):
        return Builtin(dotted, lambda c: c)
    if dotted == "operator.methodcaller":
        return Builtin(dotted, lambda nm, *a, **k: Builtin("methodcaller", lambda x: I.call(I.getattr(x, nm), list(a), dict(k))))
    if dotted == "operator.itemgetter":
        return Builtin(dotted, lambda *ks: Builtin("itemgetter", (lambda x: subscript(I, x, ks[0])) if len(ks) == 1
                                                   else (lambda x: tuple(subscript(I, x, k_) for k_ in ks))))
    if dotted == "operator.attrgetter":
        def dotted_get(x, path):
            for part in path.split("."):
                x = I.getattr(x, part)
            return x
        return Builtin(dotted, lambda *ns: Builtin("attrgetter", (lambda x: dotted_get(x, ns[0])) if len(ns) == 1
                                                   else (lambda x: tuple(dotted_get(x, n_) for n_ in ns))))
    if mod == "operator" and name in ("add", "mul", "sub", "truediv"):
        opn = {"add": ast.Add, "mul": ast.Mult, "sub": ast.Sub, "truediv": ast.Div}[name]
        return Builtin(dotted, lambda a, b: binop(I, opn(), a, b))
    if mod == "operator" and name in ("iadd", "imul", "isub", "itruediv"):
        opn = {"iadd": ast.Add, "imul": ast.Mult, "isub": ast.Sub, "itruediv": ast.Div}[name]

        def inplace(a, b):
            if isinstance(a, list) and opn is ast.Add:
                a.extend(list(b))
                return a
            if isinstance(a, Vec):
                res = binop(I, opn(), a, b)
                if isinstance(res, Vec) and len(res) == len(a):
                    a.items[:] = res.items
                    return a
                return res
            if isinstance(a, SymObj) and a.cls is not None:
                m = a.cls.lookup("__" + name + "__")
                if m is not _MISSING:
                    return I.call(BoundMethod(m, a), [b], {})
            return binop(I, opn(), a, b)
        return Builtin(dotted, inplace)
    if mod == "operator" and name in ("neg", "pos", "abs", "not_", "lt", "le", "gt", "ge", "eq", "ne"):
        if name in ("lt", "le", "gt", "ge", "eq", "ne"):
            cop = {"lt": ast.Lt, "le": ast.LtE, "gt": ast.Gt, "ge": ast.GtE, "eq": ast.Eq, "ne": ast.NotEq}[name]
            return Builtin(dotted, lambda a, b: compare(I, cop(), a, b))
        if name == "neg":
            return Builtin(dotted, lambda a: binop(I, ast.Sub(), sp.Integer(0), a))
        if name == "pos":
            return Builtin(dotted, lambda a: a)
        if name == "abs":
            return I.builtins["abs"]
        return Builtin(dotted, lambda a: sp.Not(truth(I, a)) if not isinstance(truth(I, a), bool) else (not truth(I, a)))
    if mod == "operator":
        two = {"floordiv": ast.FloorDiv, "mod": ast.Mod, "pow": ast.Pow, "matmul": ast.MatMult, "and_": ast.BitAnd, "or_": ast.BitOr,
               "xor": ast.BitXor, "concat": ast.Add}
        if name in two:
            return Builtin(dotted, lambda a, b: binop(I, two[name](), a, b))
        if name == "getitem":
            return Builtin(dotted, lambda a, k: I.call(I.getattr(a, "__getitem__"), [k], {})
                           if isinstance(a, SymObj) and a.cls is not None else subscript(I, a, k))
        if name == "contains":
            return Builtin(dotted, lambda a, k: compare(I, ast.In(), k, a))
        if name in ("is_", "is_not"):
            return Builtin(dotted, lambda a, b: compare(I, ast.Is() if name == "is_" else ast.IsNot(), a, b))
        if name == "truth":
            return Builtin(dotted, lambda a: _pb(truth(I, a)))
        if name == "index":
            return Builtin(dotted, lambda a: sp.Integer(concrete_int(a)))
        if name == "setitem":
            def setitem(a, k, v):
                if isinstance(a, (dict, list)):
                    a[_key(k) if isinstance(a, dict) else concrete_int(k)] = v
                    return None
                return I.call(I.getattr(a, "__setitem__"), [k, v], {})
            return Builtin(dotted, setitem)
        raise AnalysisError(f"operator.{name} is not modelled")
    if dotted == "itertools.groupby":
        def groupby(it, key=None):
            out = []
            for x in iterate(I, it):
                k = I.call(key, [x], {}) if key is not None else x
                if out and (out[-1][0] is k or compare(I, ast.Eq(), out[-1][0], k) is True):
                    out[-1][1].append(x)
                else:
                    if out and compare(I, ast.Eq(), out[-1][0], k) is not False:
                        raise AnalysisError("itertools.groupby over keys whose equality is not known")
                    out.append((k, [x]))
            return [(k, GenVal(g)) for k, g in out]
        return Builtin(dotted, groupby)
    if dotted == "itertools.zip_longest":
        def zip_longest(*its, fillvalue=None):
            seqs = [iterate(I, x) for x in its]
            n = max([len(x) for x in seqs] or [0])
            return GenVal([tuple(x[i] if i < len(x) else fillvalue for x in seqs) for i in range(n)])
        return Builtin(dotted, zip_longest)
    if dotted == "itertools.repeat":
        def repeat(x, times=None):
            if times is None:
                raise AnalysisError("itertools.repeat without a count")
            return GenVal([x] * concrete_int(times))
        return Builtin(dotted, repeat)
    if dotted in ("itertools.takewhile", "itertools.dropwhile"):
        def while_(pred, it):
            items, out, taking = iterate(I, it), [], True
            for i, x in enumerate(items):
                t = truth(I, I.call(pred, [x], {}))
                if t is not sp.true and t is not sp.false:
                    raise AnalysisError(f"{dotted} with a symbolic predicate")
                if t is sp.false:
                    return GenVal(out if dotted.endswith("takewhile") else items[i:])
                out.append(x)
            return GenVal(out if dotted.endswith("takewhile") else [])
        return Builtin(dotted, while_)
    if dotted == "itertools.starmap":
        return Builtin(dotted, lambda f, it: GenVal([I.call(f, list(iterate(I, a)), {}) for a in iterate(I, it)]))
    if dotted == "itertools.count":
        raise AnalysisError("itertools.count (an unbounded iterator) is not modelled")
    if dotted == "itertools.combinations":
        import itertools as _it2
        return Builtin(dotted, lambda it, r: GenVal([tuple(c) for c in _it2.combinations(iterate(I, it), concrete_int(r))]))
    if dotted == "itertools.permutations":
        import itertools as _it2
        return Builtin(dotted, lambda it, r=None: GenVal([tuple(c) for c in _it2.permutations(iterate(I, it), None if r is None else concrete_int(r))]))
    if dotted == "dataclasses":
        return ModuleVal(dotted, external=dotted)
    if dotted == "dataclasses.field":
        from .symval import FieldSpec
        return Builtin(dotted, lambda **k: FieldSpec(**k))
    if dotted == "dataclasses.dataclass":
        return Builtin(dotted, lambda *a, **k: (a[0] if a else Builtin("dataclass()", lambda c_: c_)))
    if dotted in ("dataclasses.asdict", "dataclasses.astuple", "dataclasses.fields", "dataclasses.replace"):
        def dc_fn(o, **changes):
            fs = [f.name for f in getattr(o.cls, "dc_fields", [])]
            if dotted.endswith("asdict"):
                return {n_: I.getattr(o, n_) for n_ in fs}
            if dotted.endswith("astuple"):
                return tuple(I.getattr(o, n_) for n_ in fs)
            if dotted.endswith("fields"):
                return tuple(getattr(o if isinstance(o, ClassVal) else o.cls, "dc_fields", []))
            vals = {n_: I.getattr(o, n_) for n_ in fs}
            vals.update(changes)
            return I.instantiate(o.cls, [], vals)
        return Builtin(dotted, dc_fn)
    if dotted in ("importlib", ):
        return ModuleVal(dotted, external=dotted)
    if dotted == "importlib.import_module":
        def import_module(name_, package=None):
            if not isinstance(name_, str):
                raise AnalysisError("import_module of a symbolic name")
            nm = name_
            if nm.startswith("."):
                nm = nm.lstrip(".")
            elif nm.startswith("periodictable."):
                nm = nm[len("periodictable."):]
            elif nm == "periodictable":
                nm = "__init__"
            else:
                return external(I, nm)
            if nm not in I.src.modules:
                raise SymRaise("ModuleNotFoundError", name_)
            return ModuleVal(nm)
        return Builtin(dotted, import_module)
    if dotted == "itertools.chain":
        return Builtin(dotted, lambda *its: GenVal([x for it in its for x in iterate(I, it)]))
    if dotted == "itertools.chain.from_iterable":
        return Builtin(dotted, lambda its: GenVal([x for it in iterate(I, its) for x in iterate(I, it)]))
    if dotted == "itertools.product":
        import itertools as _it
        return Builtin(dotted, lambda *its: [tuple(t) for t in _it.product(*[iterate(I, x) for x in its])])
    if dotted == "itertools.islice":
        return Builtin(dotted, lambda it, *a: iterate(I, it)[slice(*[None if x is None else concrete_int(x) for x in a])])
    if dotted == "itertools.accumulate":
        _none = object()

        def accumulate(it, func=None, initial=_none):
            out, acc = [], None
            if initial is not _none and initial is not None:
                acc = initial
                out.append(acc)
            for x in iterate(I, it):
                acc = x if acc is None else (binop(I, ast.Add(), acc, x) if func is None else I.call(func, [acc, x], {}))
                out.append(acc)
            return out
        return Builtin(dotted, accumulate)
    if dotted == "typing.TYPE_CHECKING":
        return False
    if mod == "typing" and name not in ("NamedTuple",):
        return Builtin(dotted, lambda *a, **k: (a[0] if a else None))      # cast(), TypeVar(...) etc. have no behaviour of interest
    if dotted in ("typing", "bisect"):
        return ModuleVal(dotted, external=dotted)
    if dotted in ("csv", "io", "pathlib", "inspect"):
        return ModuleVal(dotted, external=dotted)
    if dotted == "inspect.signature":
        def signature(f, **k):
            g = f.fn if isinstance(f, BoundMethod) else f
            if not isinstance(g, Closure) or not isinstance(g.node, (ast.FunctionDef, ast.Lambda)):
                raise AnalysisError("inspect.signature of something that is not a package function")
            sgn = SigVal(g)
            if isinstance(f, BoundMethod):
                sgn.names, sgn.npos = sgn.names[1:], sgn.npos - 1
            return sgn
        return Builtin(dotted, signature)
    if dotted == "io.StringIO":
        def stringio(text=""):
            if not isinstance(text, str):
                raise AnalysisError("io.StringIO of a symbolic string")
            return TextFile(text, "<StringIO>")
        return Builtin(dotted, stringio)
    if dotted == "csv.reader":
        def reader(src, dialect="excel", **fmt):
            import csv as _csv
            lines = iterate(I, src) if not isinstance(src, str) else list(src)
            if not all(isinstance(l, str) for l in lines):
                raise AnalysisError("csv.reader over symbolic text")
            return GenVal([list(r) for r in _csv.reader(lines, dialect, **fmt)])
        return Builtin(dotted, reader)
    if dotted in ("pathlib.Path", "pathlib.PurePath", "pathlib.PurePosixPath"):
        def mkpath(*parts):
            import os.path as _osp
            ps = [x.path if isinstance(x, PathVal) else x for x in parts]
            if not all(isinstance(x, str) for x in ps):
                raise AnalysisError("pathlib.Path of a symbolic path")
            return PathVal(_osp.join(*ps) if ps else ".")
        return Builtin(dotted, mkpath)
    if dotted == "collections.namedtuple":
        def namedtuple(name, fields, defaults=None, rename=False, module=None):
            if isinstance(fields, str):
                fields = fields.replace(",", " ").split()
            fields = [f for f in iterate(I, fields)] if not isinstance(fields, list) else fields
            if not all(isinstance(f, str) for f in fields):
                raise AnalysisError("namedtuple with symbolic field names")
            return NTupleClass(name, fields, tuple(iterate(I, defaults)) if defaults is not None else ())
        return Builtin(dotted, namedtuple)
    if mod == "bisect" and name in ("insort", "insort_right", "insort_left", "bisect", "bisect_right", "bisect_left"):
        left = name.endswith("left")

        def pos(a, x):
            if not isinstance(a, list):
                raise AnalysisError("bisect on something that is not a list")
            lo = 0
            for i, y in enumerate(a):
                r = compare(I, ast.Lt() if left else ast.LtE(), y, x)
                if r is True:
                    lo = i + 1
                elif r is False:
                    break
                else:
                    raise AnalysisError("bisect over values whose order is not known")
            return lo
        if name.startswith("insort"):
            return Builtin(dotted, lambda a, x, *r, **k: a.insert(pos(a, x), x))
        return Builtin(dotted, lambda a, x, *r, **k: sp.Integer(pos(a, x)))
    if dotted == "bisect":
        return ModuleVal(dotted, external=dotted)
    if dotted == "collections.deque":
        return Builtin(dotted, lambda it=(), maxlen=None: DequeVal(iterate(I, it)))
    if dotted == "collections.Counter":
        def counter(it=()):
            out = {}
            for x in (it.items() if isinstance(it, dict) else [(y, 1) for y in iterate(I, it)]):
                k_ = dict_key(I, out, x[0])
                out[k_] = binop(I, ast.Add(), out.get(k_, sp.Integer(0)), to_expr(x[1]))
            return out
        return Builtin(dotted, counter)
    if dotted in ("collections.defaultdict",):
        def defaultdict(factory=None, *a, **k):
            d = DefaultDict(*[x if isinstance(x, dict) else dict(iterate(I, x)) for x in a], **k)
            d.factory = factory
            return d
        return Builtin(dotted, defaultdict)
    if dotted in ("collections.OrderedDict",):
        return I.builtins["dict"]
    if dotted in ("functools.lru_cache", "functools.cache", "functools.wraps", "functools.partial", "functools.reduce"):
        if name == "partial":
            return Builtin(dotted, lambda f, *a, **k: Builtin("partial", lambda *b, **kk: I.call(f, list(a) + list(b), dict(k, **kk))))
        if name == "reduce":
            def reduce(f, it, *init):
                items = iterate(I, it)
                acc = init[0] if init else items.pop(0)
                for x in items:
                    acc = I.call(f, [acc, x], {})
                return acc
            return Builtin(dotted, reduce)
        return Builtin(dotted, lambda *a, **k: (a[0] if a and not k and isinstance(a[0], Closure) else Builtin("deco", lambda f: f)))
    if mod == "pyparsing":
        from . import peg
        cons = peg.constructors(I)
        if name in cons:
            return cons[name]
        raise AnalysisError(f"pyparsing.{name} is not modelled")
    if dotted == "functools.cmp_to_key":
        return Builtin(dotted, lambda f: CmpKey(f))
    if dotted == "functools":
        return ModuleVal(dotted, external=dotted)
    if mod in ("math", "numpy"):
        f = _math(I, name)
        if f is not None:
            return Builtin(dotted, f)
    if mod == "__future__":
        return None
    I.uninterpreted.add(dotted)
    fn = sp.Function(dotted.replace(".", "_"))

    def opaque(*a, **k):
        try:
            return fn(*[to_expr(x) for x in a])
        except AnalysisError:
            return I.new_obj(f"{dotted}(...)")
    return Builtin(dotted, opaque)


def _tovec(x):
    if isinstance(x, (list, tuple)):
        return Vec(_tovec(i) for i in x)
    return x


pytrunc = sp.Function("pytrunc", real=True)       # conversion of a (non-integer) number to an integer dtype


class StructDtype:
    """numpy.dtype([(name, type), ...]): a record layout; arrays of it are indexed by field name"""
    def __init__(self, names, kinds):
        self.names, self.kinds = tuple(names), tuple(kinds)

    def __repr__(self):
        return f"<dtype {list(self.names)}>"


class StructVec(Vec):
    """array with a record dtype: rows of equal length, a column per field"""
    fields = ()


def _as_dtype(I, v, dtype, copy):
    """numpy.array / asarray with a dtype: integer dtypes truncate, real dtypes drop an imaginary part; array() copies."""
    kind = None
    if isinstance(dtype, StructDtype):
        rows = v.items if isinstance(v, Vec) else iterate(I, v)
        out = []
        for r in rows:
            cells = list(r.items) if isinstance(r, Vec) else list(iterate(I, r))
            if len(cells) != len(dtype.names):
                raise SymRaise("ValueError", "record of the wrong length for the dtype")
            out.append(Vec([_as_dtype(I, c, k_, True) for c, k_ in zip(cells, dtype.kinds)]))
        sv = StructVec(out)
        sv.fields = dtype.names
        return sv
    if dtype is not None:
        nm = dtype if isinstance(dtype, str) else getattr(dtype, "name", None) or str(dtype)
        nm = nm.rsplit(".", 1)[-1].lower()
        if nm in ("int", "i", "i4", "i8", "int32", "int64", "intp", "l", "long", "uint8", "int_"):
            kind = "int"
        elif nm in ("float", "d", "f", "f4", "f8", "float32", "float64", "double", "float_"):
            kind = "float"
        elif nm in ("complex", "complex128", "complex64", "c16", "c8", "object", "o", "bool", "str"):
            kind = None if nm.startswith(("complex", "c")) else nm
            if kind == "bool":
                pass
            elif kind in ("object", "o", "str"):
                raise AnalysisError(f"numpy dtype {nm} is not modelled")
        else:
            raise AnalysisError(f"numpy dtype {nm} is not modelled")

    def conv(x):
        if isinstance(x, Vec):
            items = [conv(i) for i in x.items]
            if kind is None and not copy:
                return x
            return Vec(items, x.col)
        if x is None and kind == "float":
            return sp.nan               # numpy stores None as NaN in a float array
        if isinstance(x, str) and kind in ("float", "int"):
            # numpy parses text cells when a numeric dtype is asked for
            try:
                v_ = float(x) if kind == "float" else int(x)
            except ValueError:
                raise SymRaise("ValueError", f"could not convert string to {kind}: {x!r}")
            if v_ != v_:
                return sp.nan
            if v_ in (float("inf"), float("-inf")):
                return sp.oo if v_ > 0 else -sp.oo
            return sp.Rational(x.strip()) if kind == "float" and "e" not in x.lower() and "_" not in x else sp.nsimplify(v_, rational=True) if kind == "float" else sp.Integer(v_)
        if kind == "bool":
            if isinstance(x, bool) or x in (sp.true, sp.false):
                return bool(x)
            if x is None:
                return False
            if _alg(x):
                r_ = sp.Ne(to_expr(x), 0)
                return bool(r_) if r_ in (sp.true, sp.false) else r_
            return x
        if kind is None or not _alg(x):
            return x
        e = to_expr(x)
        if kind == "int":
            if e.is_integer:
                return e
            if e.is_number and e.is_real:
                return sp.Integer(int(e))
            return pytrunc(e)
        if kind == "float":
            if e.is_real is False or (e.is_real is None and e.has(sp.I)):
                return sp.re(e)
            return e
        return x
    def tag(r):
        if isinstance(r, Vec) and kind is not None:
            try:
                r.dtype_kind = kind
            except AttributeError:
                pass
        return r
    if isinstance(v, Vec):
        if kind is None and not copy:
            return v
        if not copy and kind is not None and getattr(v, "dtype_kind", None) == kind:
            return v                  # asarray of an array that already has the dtype asked for is that array
        return tag(conv(v)) if kind is not None else Vec([conv(i) if isinstance(i, Vec) else i for i in v.items], v.col) if copy else v
    return tag(conv(v))


def _math(I, name):
    m1 = lambda f: _map1(I, f)
    table = {
        "sqrt": m1(sp.sqrt), "exp": m1(sp.exp), "log": m1(sp.log),
        "expm1": m1(lambda x: sp.exp(x) - 1), "log10": m1(lambda x: sp.log(x, 10)),
        "cos": m1(sp.cos), "sin": m1(sp.sin), "radians": m1(lambda x: x * sp.pi / 180),
        "abs": m1(sp.Abs), "fabs": m1(sp.Abs), "floor": m1(sp.floor),
        "asarray": lambda x, *a, **k: _as_dtype(I, _tovec(x), (list(a) + [k.get("dtype")])[0], copy=False),
        "array": lambda x, *a, **k: _as_dtype(I, _tovec(x), (list(a) + [k.get("dtype")])[0], copy=True),
        "maximum": m1(lambda a, b: sp.nan if (a is sp.nan or b is sp.nan) else sp.Max(a, b)),       # (numpy propagates NaN)
        "minimum": m1(lambda a, b: sp.nan if (a is sp.nan or b is sp.nan) else sp.Min(a, b)),
        "real": m1(sp.re), "imag": m1(sp.im),
    }
    if name in table:
        return table[name]
    if name == "isscalar":
        def isscalar(x):
            if isinstance(x, (Vec, list, tuple)):
                return False
            e = to_expr(x)
            return not (e in I.arrays or any(s in I.arrays for s in e.free_symbols))
        return isscalar
    if name == "prod":
        def prod(xs, start=1):
            acc = to_expr(start)
            for x in iterate(I, xs):
                acc = binop(I, ast.Mult(), acc, x)
            return acc
        return prod
    if name == "fsum":
        return lambda xs: I.builtins["sum"].fn(xs)
    if name == "hypot":
        return lambda *xs: sp.sqrt(sum(to_expr(x) ** 2 for x in xs))
    if name == "array_equal":
        def array_equal(a, b):
            a = Vec(a) if isinstance(a, (list, tuple)) else a
            b = Vec(b) if isinstance(b, (list, tuple)) else b
            if _vshape(a) != _vshape(b):
                return False
            conds = []
            for x, y in zip(_vflat(a) if isinstance(a, Vec) else [a], _vflat(b) if isinstance(b, Vec) else [b]):
                r = compare(I, ast.Eq(), x, y)
                if r is False:
                    return False
                if r is not True:
                    conds.append(r)
            return sp.And(*conds) if conds else True
        return array_equal
    if name in ("ones_like", "zeros_like"):
        fill = sp.Integer(1 if name == "ones_like" else 0)

        def like(x):
            if isinstance(x, (list, tuple)):
                x = Vec(x)
            if isinstance(x, Vec):
                return Vec(like(i) for i in x.items)
            return fill          # scalar, or an array symbol standing for its generic element
        return like
    if name == "sum":
        def npsum(x, axis=None):
            if isinstance(x, Vec) and x.items and isinstance(x.items[0], Vec) and axis is not None:
                ax = concrete_int(axis)
                if ax == 0:
                    ncol = len(x.items[0])
                    return Vec(npsum(Vec(r.items[j] for r in x.items)) for j in range(ncol))
                return Vec(npsum(r) for r in x.items)
            if isinstance(x, Vec):
                if wdep(I, x) and axis is None:
                    raise SymRaise("ShapeError", "sum without axis reduces over the wavelength axis as well")
                if axis is not None and concrete_int(axis) != 0 and not (concrete_int(axis) == -1 and not wdep(I, x)):
                    raise SymRaise("ShapeError", f"sum over axis {axis} is not the material axis")
                acc = sp.Integer(0)
                for e in x:
                    acc = binop(I, ast.Add(), acc, e)
                return acc
            return to_expr(x)

        def npsum_out(x, axis=None, out=None, **kw):
            if kw:
                raise AnalysisError(f"numpy.sum keyword {sorted(kw)[0]} is not modelled")
            r = npsum(x, axis)
            if out is None:
                return r
            if not isinstance(out, Vec) or not isinstance(r, Vec) or len(out.items) != len(r.items):
                raise AnalysisError("numpy.sum(out=) on values that are not arrays of one length")
            out.items[:] = r.items          # the result is written into the array given, which is what is returned
            return out
        return npsum_out
    def _shape(x):
        if isinstance(x, Vec):
            inner = _shape(x.items[0]) if x.items else ()
            return (len(x.items),) + inner
        return ()

    def _flat(x):
        if isinstance(x, Vec):
            out = []
            for i in x.items:
                out.extend(_flat(i))
            return out
        return [x]

    def _build(flat, shape):
        if not shape:
            if len(flat) != 1:
                raise SymRaise("ValueError", "cannot reshape")
            return flat[0]
        n = shape[0]
        if len(flat) % max(n, 1):
            raise SymRaise("ValueError", "cannot reshape array")
        step = len(flat) // n if n else 0
        return Vec(_build(flat[i * step:(i + 1) * step], shape[1:]) for i in range(n))

    def _toshape(sh):
        sh = iterate(I, sh) if isinstance(sh, (tuple, list, Vec)) else [sh]
        return tuple(concrete_int(x) for x in sh)

    if name == "shape":
        return lambda x: tuple(sp.Integer(n) for n in _shape(x if not isinstance(x, (list, tuple)) else Vec(x)))
    if name in ("ravel", "flatten"):
        return lambda x: Vec(_flat(x if not isinstance(x, (list, tuple)) else Vec(x)))
    if name == "reshape":
        def reshape(x, sh, **k):
            fl, sh = _flat(x if not isinstance(x, (list, tuple)) else Vec(x)), list(_toshape(sh))
            if sh.count(-1) == 1:
                rest = 1
                for n_ in sh:
                    rest *= n_ if n_ != -1 else 1
                if rest == 0 or len(fl) % rest:
                    raise SymRaise("ValueError", "cannot reshape array")
                sh[sh.index(-1)] = len(fl) // rest
            elif -1 in sh:
                raise SymRaise("ValueError", "can only specify one unknown dimension")
            return _build(fl, tuple(sh))
        return reshape
    if name == "diag":
        def diag(x):
            v = _flat(x)
            return Vec(Vec(v[i] if i == j else sp.Integer(0) for j in range(len(v))) for i in range(len(v)))
        return diag
    if name == "dot":
        def dot(a, b):
            sa, sb = _shape(a), _shape(b)
            if len(sa) == 2 and len(sb) == 2 and sa[1] == sb[0]:
                return Vec(Vec(_dotsum(I, [a.items[i].items[k] for k in range(sa[1])], [b.items[k].items[j] for k in range(sa[1])])
                               for j in range(sb[1])) for i in range(sa[0]))
            if len(sa) == 1 and len(sb) == 1 and sa == sb:
                return _dotsum(I, a.items, b.items)
            if len(sa) == 1 and len(sb) == 2 and sa[0] == sb[0]:
                return Vec(_dotsum(I, a.items, [b.items[k].items[j] for k in range(sb[0])]) for j in range(sb[1]))
            if len(sa) == 2 and len(sb) == 1 and sa[1] == sb[0]:
                return Vec(_dotsum(I, a.items[i].items, b.items) for i in range(sa[0]))
            raise SymRaise("ValueError", f"shapes {sa} and {sb} not aligned")
        return dot
    if name == "outer":
        return lambda a, b: Vec(Vec(binop(I, ast.Mult(), x, y) for y in _flat(b)) for x in _flat(a))
    if name == "loadtxt":
        def loadtxt(fn, skiprows=0, unpack=False, usecols=None, **k):
            bad = set(k) - {"dtype", "comments", "encoding", "ndmin"}
            if bad:
                raise AnalysisError(f"numpy.loadtxt option {sorted(bad)[0]} is not modelled")
            rows = [list(r) for r in I.loadtxt_data]
            if usecols is not None:
                cols = [concrete_int(c) for c in (iterate(I, usecols) if not _alg(usecols) else [usecols])]
                rows = [[r[c] for c in cols] for r in rows]
            if unpack is True or unpack is sp.true:
                rows = [list(c) for c in zip(*rows)]          # the transposed array: one row per column of the file
            return Vec(Vec(to_expr(c) for c in r) for r in rows)
        return loadtxt
    if name in ("isclose", "allclose"):
        def isclose(a, b, rtol=1e-05, atol=1e-08, **k):
            a, b = _tovec(a), _tovec(b)
            if isinstance(a, Vec) or isinstance(b, Vec):
                n = max(len(x) for x in (a, b) if isinstance(x, Vec))
                rs = [isclose(a.items[i] if isinstance(a, Vec) else a, b.items[i] if isinstance(b, Vec) else b, rtol, atol) for i in range(n)]
                if name == "isclose":
                    return Vec(rs)
                return False if any(r is False for r in rs) else True if all(r is True for r in rs) else sp.And(*[r for r in rs if r is not True])
            r = sp.Le(sp.Abs(to_expr(a) - to_expr(b)), to_expr(atol) + to_expr(rtol) * sp.Abs(to_expr(b)))
            return _pb(r)
        return isclose
    if name == "isnan":
        return _map1(I, lambda x: sp.true if x is sp.nan else sp.false)
    if name == "diff":
        def npdiff(x, n=1, axis=-1, prepend=None, append=None):
            if not isinstance(x, Vec):
                raise AnalysisError("numpy.diff of a non-array")
            if concrete_int(n) != 1 or concrete_int(axis) not in (-1, 0) or (x.items and isinstance(x.items[0], Vec)):
                raise AnalysisError("numpy.diff: only first differences of a 1-D array are modelled")
            items = list(x.items)
            if prepend is not None:
                items = (list(prepend.items) if isinstance(prepend, Vec) else [prepend]) + items
            if append is not None:
                items = items + (list(append.items) if isinstance(append, Vec) else [append])
            return Vec(binop(I, ast.Sub(), b_, a_) for a_, b_ in zip(items, items[1:]))
        return npdiff
    if name == "dtype":
        def npdtype(spec, *a, **k):
            if isinstance(spec, (list, tuple)) and spec and all(isinstance(f_, (tuple, list)) and len(f_) in (2, 3) and isinstance(f_[0], str) for f_ in spec):
                return StructDtype([f_[0] for f_ in spec], [f_[1] for f_ in spec])
            if isinstance(spec, (str, Builtin, StructDtype)):
                return spec
            raise AnalysisError(f"numpy.dtype({spec!r}) is not modelled")
        return npdtype
    if name in ("flip", "flipud"):
        return lambda x: Vec(list(reversed(x.items))) if isinstance(x, Vec) else x
    if name == "interp":
        def interp(x, xp, fp, left=None, right=None):
            if isinstance(x, Vec):
                return Vec(interp(e, xp, fp, left, right) for e in x)

            def num(v):
                return _alg(v) and (to_expr(v).is_number or to_expr(v) is sp.nan)
            scaled = None
            if _alg(x) and not num(x) and isinstance(xp, Vec) and isinstance(fp, Vec) and len(xp) == len(fp) and len(xp) >= 1 \
                    and all(_alg(i) for i in xp.items) and all(_alg(i) for i in fp.items) and all(v is None or _alg(v) for v in (left, right)):
                # abscissae that are concrete multiples of one positive symbolic unit (a table in symbolic physical constants):
                # the order of x and the nodes is that of the multiples
                base_ = to_expr(xp.items[0])
                if base_.is_positive:
                    ratios = [sp.simplify(to_expr(v) / base_) for v in [x] + list(xp.items)]
                    if all(r_.is_number and r_.is_real for r_ in ratios):
                        scaled = ratios
            if scaled is not None or num(x) and to_expr(x) is not sp.nan and isinstance(xp, Vec) and isinstance(fp, Vec) and len(xp) == len(fp) and len(xp) >= 1 \
                    and all(num(i) and to_expr(i).is_real for i in xp.items) and all(num(i) for i in fp.items) \
                    and all(v is None or num(v) for v in (left, right)):
                # a concrete table and a concrete abscissa: numpy's piecewise-linear interpolant, exactly
                xv, xs_, fs_ = to_expr(x), [to_expr(i) for i in xp.items], [to_expr(i) for i in fp.items]
                if scaled is not None:
                    xv, xs_ = scaled[0], scaled[1:]
                if not all(a_ < b_ for a_, b_ in zip(xs_, xs_[1:])):
                    raise AnalysisError("numpy.interp on a table whose abscissae are not increasing")
                if xv < xs_[0]:
                    return fs_[0] if left is None else to_expr(left)
                if xv > xs_[-1]:
                    return fs_[-1] if right is None else to_expr(right)
                for j_, xj in enumerate(xs_):
                    if xv == xj:
                        return fs_[j_]
                j_ = max(i_ for i_, xj in enumerate(xs_) if xj < xv)
                if fs_[j_] is sp.nan or fs_[j_ + 1] is sp.nan:
                    return sp.nan
                return fs_[j_] + (fs_[j_ + 1] - fs_[j_]) * (xv - xs_[j_]) / (xs_[j_ + 1] - xs_[j_])

            def sy(v, nm):
                if v is None:
                    return sp.Symbol("clamp")
                if isinstance(v, Vec):
                    return vec_f(*[to_expr(i) for i in v.items])
                if _alg(v):
                    return to_expr(v)
                return sp.Symbol(getattr(v, "name", nm))
            return interp_f(to_expr(x), sy(xp, "xp"), sy(fp, "fp"), sy(left, "l"), sy(right, "r"))
        return interp
    return _numpy_more(I, name)


def _numpy_more(I, name):
    """further numpy functions on the vector model (element-wise maps, constructors, reductions, ordering on decidable values)"""
    asv = lambda x: Vec(_tovec(x).items) if isinstance(_tovec(x), Vec) else None
    flat = lambda x: _vflat(_tovec(x)) if isinstance(_tovec(x), Vec) else [x]

    def ew(f, *xs):
        """apply f element-wise over (nested) vectors / scalars of equal shape (scalars broadcast)"""
        xs = [_tovec(x) for x in xs]
        if any(isinstance(x, Vec) for x in xs):
            n = max(len(x) for x in xs if isinstance(x, Vec))
            return Vec(ew(f, *[(x.items[i] if len(x) > 1 else x.items[0]) if isinstance(x, Vec) else x for x in xs]) for i in range(n))
        return f(*xs)

    def cond_of(c):
        t = truth(I, c)
        return True if t is sp.true else False if t is sp.false else t

    def decide(op, a, b):
        r = compare(I, op, a, b)
        if r is True or r is False:
            return r
        raise AnalysisError("ordering of array values is not known")

    def order(v):
        items = flat(v)
        idx = []
        for i in range(len(items)):
            pos = len(idx)
            while pos > 0 and decide(ast.Lt(), items[i], items[idx[pos - 1]]):
                pos -= 1
            idx.insert(pos, i)
        return items, idx

    def shape_of(sh):
        sh = iterate(I, sh) if isinstance(sh, (tuple, list, Vec)) else [sh]
        return [concrete_int(x) for x in sh]

    def filled(sh, val):
        def rec(dims):
            return Vec(rec(dims[1:]) for _ in range(dims[0])) if dims else val
        return rec(shape_of(sh))

    if name == "where":
        def where(c, a=None, b=None):
            if a is None:
                raise AnalysisError("numpy.where with one argument")

            def one(ci, ai, bi):
                t = cond_of(ci)
                return ai if t is True else bi if t is False else merge(t, ai, bi)
            return ew(one, c, a, b)
        return where
    if name == "clip":
        return lambda v, lo=None, hi=None, **k: ew(lambda x: _minmax(sp.Max, [to_expr(lo), _minmax(sp.Min, [to_expr(x), to_expr(hi)])]) if lo is not None and hi is not None
                                                  else _minmax(sp.Max, [to_expr(lo), to_expr(x)]) if lo is not None else _minmax(sp.Min, [to_expr(x), to_expr(hi)]), v)
    if name in ("any", "all"):
        def anyall(v, axis=None, **k):
            cs = [cond_of(x) for x in flat(v)]
            if name == "any":
                return True if any(c is True for c in cs) else False if all(c is False for c in cs) else sp.Or(*[c for c in cs if c is not False])
            return False if any(c is False for c in cs) else True if all(c is True for c in cs) else sp.And(*[c for c in cs if c is not True])
        return anyall
    if name == "isfinite":
        return lambda v: ew(lambda x: not (to_expr(x).has(sp.nan) or to_expr(x).has(sp.oo) or to_expr(x).has(sp.zoo)), v)
    if name == "isinf":
        return lambda v: ew(lambda x: bool(to_expr(x).has(sp.oo)) and not to_expr(x).has(sp.nan), v)
    if name in ("concatenate", "hstack", "append"):
        def concat(*a, **k):
            parts = iterate(I, a[0]) if name != "append" else list(a[:2])
            out = []
            for p_ in parts:
                out.extend(flat(p_) if not (isinstance(_tovec(p_), Vec) and _vshape(_tovec(p_))[1:]) else _tovec(p_).items)
            return Vec(out)
        return concat
    if name in ("vstack", "stack", "row_stack"):
        return lambda parts, **k: Vec(Vec(flat(p_)) for p_ in iterate(I, parts))
    if name == "column_stack":
        return lambda parts, **k: Vec(Vec(r) for r in zip(*[flat(p_) for p_ in iterate(I, parts)]))
    if name == "transpose":
        def transpose(v, *a):
            v = _tovec(v)
            if isinstance(v, Vec) and v.items and isinstance(v.items[0], Vec):
                from .symval import TransposeView
                return TransposeView(v)
            return v
        return transpose
    if name == "arange":
        def arange(*a, **k):
            a = [to_expr(x) for x in a]
            if not all(x.is_number for x in a):
                raise AnalysisError("numpy.arange with symbolic bounds")
            lo, hi, st = (0, a[0], 1) if len(a) == 1 else (a[0], a[1], a[2] if len(a) > 2 else 1)
            out, x = [], lo
            while (x < hi) if st > 0 else (x > hi):
                out.append(to_expr(x)); x = x + st
                if len(out) > 10000:
                    raise AnalysisError("numpy.arange too long")
            return Vec(out)
        return arange
    if name == "linspace":
        def linspace(a, b, num=50, endpoint=True, **k):
            n = concrete_int(num)
            a, b = to_expr(a), to_expr(b)
            den = (n - 1) if endpoint else n
            return Vec(a + (b - a) * sp.Rational(i, den) if den else a for i in range(n))
        return linspace
    if name in ("zeros", "ones", "empty", "full"):
        if name == "full":
            return lambda sh, val, **k: filled(sh, val)
        return lambda sh, *a, **k: filled(sh, sp.Integer(1 if name == "ones" else 0))
    if name in ("full_like", "empty_like"):
        def like(v, val=sp.Integer(0), dtype=None, **k):
            # the result has the dtype of the prototype: an array of Python/numpy integers truncates the fill value
            fl = flat(v) if isinstance(_tovec(v), Vec) else [v]
            if dtype is not None:
                val = _as_dtype(I, val, dtype, False)
            elif fl and all(isinstance(x, (int, sp.Integer)) and not isinstance(x, bool) for x in fl):
                val = _as_dtype(I, val, "int", False)
            return ew(lambda x: val, v)
        return like
    if name == "cumsum":
        def cumsum(v, axis=None, **k):
            v = _tovec(v)
            if axis is not None and isinstance(v, Vec) and len(_vshape(v)) > 1:
                if concrete_int(axis) != 0:
                    raise AnalysisError("cumsum along an inner axis")
                out, acc = [], None
                for row in v.items:
                    acc = row if acc is None else binop(I, ast.Add(), acc, row)
                    out.append(acc)
                return Vec(out)
            out, acc = [], sp.Integer(0)
            for x in flat(v):
                acc = binop(I, ast.Add(), acc, x); out.append(acc)
            return Vec(out)
        return cumsum
    if name in ("mean", "average"):
        def mean(v, **k):
            xs = flat(v)
            if k.get("weights") is not None:
                ws = flat(k["weights"])
                return sum(to_expr(x) * to_expr(w_) for x, w_ in zip(xs, ws)) / sum(to_expr(w_) for w_ in ws)
            return sum(to_expr(x) for x in xs) / len(xs)
        return mean
    if name in ("max", "amax", "min", "amin", "nanmax", "nanmin"):
        f_ = sp.Max if "max" in name else sp.Min
        return lambda v, *a, **k: _minmax(f_, [to_expr(x) for x in flat(v)])
    if name in ("sort", "argsort", "argmax", "argmin", "unique", "median"):
        def ordered(v, *a, **k):
            items, idx = order(v)
            if name == "sort":
                return Vec(items[i] for i in idx)
            if name == "argsort":
                return Vec(sp.Integer(i) for i in idx)
            if name == "argmax":
                best = idx[-1]
                # first occurrence among equal maxima
                for i in idx:
                    if compare(I, ast.Eq(), items[i], items[best]) is True:
                        best = min(best, i) if compare(I, ast.Eq(), items[i], items[best]) is True else best
                return sp.Integer(min(i for i in idx if compare(I, ast.Eq(), items[i], items[idx[-1]]) is True))
            if name == "argmin":
                return sp.Integer(min(i for i in idx if compare(I, ast.Eq(), items[i], items[idx[0]]) is True))
            if name == "unique":
                out = []
                for i in idx:
                    if not out or compare(I, ast.Eq(), out[-1], items[i]) is not True:
                        out.append(items[i])
                return Vec(out)
            n = len(idx)
            return to_expr(items[idx[n // 2]]) if n % 2 else (to_expr(items[idx[n // 2 - 1]]) + to_expr(items[idx[n // 2]])) / 2
        return ordered
    if name == "searchsorted":
        def searchsorted(a, x, side="left", **k):
            items = flat(a)

            def one(xx):
                lo = 0
                for i, y in enumerate(items):
                    if decide(ast.Lt() if side == "left" else ast.LtE(), y, xx):
                        lo = i + 1
                    else:
                        break
                return sp.Integer(lo)
            return ew(one, x)
        return searchsorted
    if name in ("power", "float_power"):
        return lambda a, b: ew(lambda x, y: to_expr(x) ** to_expr(y), a, b)
    if name == "square":
        return lambda a: ew(lambda x: to_expr(x) ** 2, a)
    if name in ("sign", "ceil", "rint", "trunc", "conj", "conjugate", "angle", "arctan", "tan", "arcsin", "arccos", "sinh", "cosh", "tanh", "log2", "log1p", "cbrt", "reciprocal", "negative"):
        fmap = {"sign": sp.sign, "ceil": sp.ceiling, "rint": lambda x: sp.floor(x + sp.Rational(1, 2)), "trunc": lambda x: sp.sign(x) * sp.floor(sp.Abs(x)),
                "conj": sp.conjugate, "conjugate": sp.conjugate, "angle": sp.arg, "arctan": sp.atan, "tan": sp.tan, "arcsin": sp.asin, "arccos": sp.acos,
                "sinh": sp.sinh, "cosh": sp.cosh, "tanh": sp.tanh, "log2": lambda x: sp.log(x, 2), "log1p": lambda x: sp.log(1 + x),
                "cbrt": lambda x: sp.cbrt(x), "reciprocal": lambda x: 1 / x, "negative": lambda x: -x}[name]
        return lambda a, *r, **k: ew(lambda x: fmap(to_expr(x)), a)
    if name in ("round", "around", "round_"):
        def npround(a, decimals=0, **k):
            dgt = concrete_int(decimals)

            def one(x):
                e = to_expr(x)
                if e.is_number and e.is_real:
                    return to_expr(round(float(e), dgt)) if dgt else sp.Integer(round(float(e)))
                return sp.Function("round")(e, sp.Integer(dgt))
            return ew(one, a)
        return npround
    if name == "nan_to_num":
        def nan_to_num(a, nan=0.0, **k):
            return ew(lambda x: to_expr(nan) if to_expr(x) is sp.nan else x, a)
        return nan_to_num
    if name in ("float64", "float32", "float_", "double", "longdouble"):
        return lambda x=0: to_expr(x)
    if name in ("int64", "int32", "int_", "intp"):
        return lambda x=0: _as_dtype(I, to_expr(x), "int", False)
    if name in ("complex128", "complex64", "complex_"):
        return lambda x=0, y=0: to_expr(x) + sp.I * to_expr(y)
    if name in ("atleast_1d",):
        return lambda x: _tovec(x) if isinstance(_tovec(x), Vec) else Vec([x])
    if name in ("tile", "repeat"):
        def rep(a, n, **k):
            xs, m = flat(a), concrete_int(n)
            return Vec(xs * m) if name == "tile" else Vec(x for x in xs for _ in range(m))
        return rep
    if name == "copy":
        return lambda a, **k: _as_dtype(I, _tovec(a), None, True)
    if name in ("size",):
        return lambda a, *r: sp.Integer(len(flat(a)))
    if name == "ndim":
        return lambda a: sp.Integer(len(_vshape(_tovec(a))) if isinstance(_tovec(a), Vec) else 0)
    if name == "diff":
        def diff(v, n=1, **k):
            xs = flat(v)
            for _ in range(concrete_int(n)):
                xs = [binop(I, ast.Sub(), b_, a_) for a_, b_ in zip(xs, xs[1:])]
            return Vec(xs)
        return diff
    if name in ("flatnonzero", "nonzero", "argwhere"):
        def nz(v):
            out = []
            for i, x in enumerate(flat(v)):
                t = truth(I, x)
                if t is sp.true:
                    out.append(sp.Integer(i))
                elif t is not sp.false:
                    raise AnalysisError(f"numpy.{name} over entries whose truth is not decided")
            return Vec(out) if name == "flatnonzero" else (Vec(out),) if name == "nonzero" else Vec(Vec([i_]) for i_ in out)
        return nz
    if name == "fromiter":
        def fromiter(it, dtype=None, count=-1, **k):
            xs = iterate(I, it)
            n = concrete_int(count)
            if n >= 0:
                if len(xs) < n:
                    raise SymRaise("ValueError", "iterator too short")
                xs = xs[:n]
            return _as_dtype(I, Vec(xs), dtype, True)
        return fromiter
    if name in ("multiply", "add", "subtract", "divide", "true_divide"):
        opn = {"multiply": ast.Mult, "add": ast.Add, "subtract": ast.Sub, "divide": ast.Div, "true_divide": ast.Div}[name]

        def ufunc(a, b, out=None, **k):
            r = binop(I, opn(), _tovec(a), _tovec(b))
            if out is not None:
                if isinstance(out, Vec) and isinstance(r, Vec) and len(out) == len(r):
                    out.items[:] = r.items
                    return out
                if not isinstance(out, Vec) and not isinstance(r, Vec) and _alg(out):
                    # a 0-d buffer (the shape of an array *symbol* is modelled as ()): the value is the result; buffer identity
                    # is only modelled for explicit vectors
                    return r
                raise AnalysisError("numpy ufunc with out= of another shape")
            return r
        return ufunc
    return None
