"""Thorough-tier self-test: seeded edits must fire, behaviour-preserving twins must stay silent."""
from __future__ import annotations

import concurrent.futures as cf
import os
import shutil
import subprocess
import sys
import tempfile
from pathlib import Path

VERIF = Path(__file__).resolve().parent.parent


def _one(prop, kind, rel, old, new, note, root):
    src = Path(root) / rel
    try:
        text = src.read_text(encoding="latin-1")
    except OSError:
        return {"note": note, "kind": kind, "result": "skipped", "why": f"{rel} missing"}
    if text.count(old) < 1:
        return {"note": note, "kind": kind, "result": "skipped", "why": "anchor text no longer present"}
    tmp = tempfile.mkdtemp(prefix="ptself-")
    try:
        shutil.copytree(Path(root) / "periodictable", tmp + "/periodictable", ignore=shutil.ignore_patterns("__pycache__"))
        g = Path(root) / "doc/sphinx/guide/formula_grammar.rst"
        os.makedirs(tmp + "/doc/sphinx/guide")
        if g.exists():
            shutil.copy(g, tmp + "/doc/sphinx/guide/")
        (Path(tmp) / rel).write_text(text.replace(old, new, 1), encoding="latin-1")
        env = dict(os.environ, PTSTAT_NO_SELFTEST="1")
        r = subprocess.run([sys.executable, "-m", "ptstat.cli", prop, "quick", "--root", tmp, "--no-selftest"],
                           cwd=str(VERIF), capture_output=True, text=True, env=env)
        first = [l for l in r.stdout.splitlines() if l.startswith(("FINDING", "ANALYSIS-ERROR"))]
        want = 1 if kind == "fire" else 0
        return {"note": note, "kind": kind, "file": rel, "exit": r.returncode, "result": "ok" if r.returncode == want else "MISS",
                "report": first[0][:200] if first else ""}
    finally:
        shutil.rmtree(tmp, ignore_errors=True)


def run(prop, root, jobs=8):
    from spec.mutants import MUTANTS
    todo = [m for m in MUTANTS if m[0] == prop]
    out = []
    with cf.ThreadPoolExecutor(jobs) as ex:
        futs = [ex.submit(_one, *m, root) for m in todo]
        for f in futs:
            out.append(f.result())
    return out
