"""K9 - regular languages: regex source -> NFA -> DFA; equivalence, inclusion, prefix hazards, witnesses.

The regex AST comes from CPython's own ``re._parser``.  Character sets are kept
as sets of code points over a finite universe built from every character that
occurs in any pattern in play plus one representative per "gap" (so classes such
as ``[a-z]`` or ``\\d`` are handled exactly for the patterns compared).
"""
from __future__ import annotations

import re._parser as sre
import re._constants as C
import itertools

from . import AnalysisError

DIGITS = set("0123456789")


def _universe(patterns, extra=""):
    """Representative characters: all literals/range ends and their neighbours, plus fillers."""
    pts = set(extra) | set("09azAZ_ .+-[]{}()@%/*#")
    for p in patterns:
        for ch in p:
            pts.add(ch)
    for ch in list(pts):
        for d in (-1, 1):
            o = ord(ch) + d
            if 32 <= o < 127:
                pts.add(chr(o))
    pts |= set("0123456789")       # digits individually (categories)
    pts |= set("abcmnxyzABCMNXYZ")
    pts.add("\u0663")              # a non-ASCII decimal digit: \d accepts it, [0-9] does not
    pts.add("\x01")                # 'anything else'
    return sorted(pts)


class NFA:
    def __init__(self):
        self.n = 0
        self.eps = {}
        self.tr = {}      # state -> list of (frozenset chars, target)

    def new(self):
        self.n += 1
        return self.n - 1

    def add_eps(self, a, b):
        self.eps.setdefault(a, set()).add(b)

    def add(self, a, chars, b):
        self.tr.setdefault(a, []).append((frozenset(chars), b))


def _charset(items, U):
    neg = False
    out = set()
    for op, av in items:
        if op is C.NEGATE:
            neg = True
        elif op is C.LITERAL:
            out.add(chr(av))
        elif op is C.RANGE:
            lo, hi = av
            out |= {u for u in U if lo <= ord(u) <= hi}
        elif op is C.CATEGORY:
            if av is C.CATEGORY_DIGIT:
                out |= {u for u in U if u.isdigit()}
            elif av is C.CATEGORY_NOT_DIGIT:
                out |= {u for u in U if not u.isdigit()}
            elif av is C.CATEGORY_SPACE:
                out |= {u for u in U if u.isspace()}
            elif av is C.CATEGORY_NOT_SPACE:
                out |= {u for u in U if not u.isspace()}
            elif av is C.CATEGORY_WORD:
                out |= {u for u in U if u.isalnum() or u == "_"}
            elif av is C.CATEGORY_NOT_WORD:
                out |= {u for u in U if not (u.isalnum() or u == "_")}
            else:
                raise AnalysisError(f"regex category {av} not modelled")
        else:
            raise AnalysisError(f"regex set item {op} not modelled")
    return (set(U) - out) if neg else out


def _build(nfa, seq, U, start):
    cur = start
    for op, av in seq:
        if op is C.LITERAL:
            nxt = nfa.new()
            nfa.add(cur, {chr(av)}, nxt)
            cur = nxt
        elif op is C.NOT_LITERAL:
            nxt = nfa.new()
            nfa.add(cur, set(U) - {chr(av)}, nxt)
            cur = nxt
        elif op is C.ANY:
            nxt = nfa.new()
            nfa.add(cur, set(U) - {"\n"}, nxt)
            cur = nxt
        elif op is C.IN:
            nxt = nfa.new()
            nfa.add(cur, _charset(av, U), nxt)
            cur = nxt
        elif op is C.BRANCH:
            end = nfa.new()
            for alt in av[1]:
                s = nfa.new()
                nfa.add_eps(cur, s)
                e = _build(nfa, alt, U, s)
                nfa.add_eps(e, end)
            cur = end
        elif op is C.SUBPATTERN:
            cur = _build(nfa, av[3], U, cur)
        elif op in (C.MAX_REPEAT, C.MIN_REPEAT):
            lo, hi, sub = av
            for _ in range(lo):
                cur = _build(nfa, sub, U, cur)
            if hi is C.MAXREPEAT:
                s = nfa.new()
                nfa.add_eps(cur, s)
                e = _build(nfa, sub, U, s)
                nfa.add_eps(e, s)
                cur = s
            else:
                end = nfa.new()
                nfa.add_eps(cur, end)
                for _ in range(hi - lo):
                    cur = _build(nfa, sub, U, cur)
                    nfa.add_eps(cur, end)
                cur = end
        elif op is C.AT:
            if av in (C.AT_END, C.AT_END_STRING, C.AT_BEGINNING, C.AT_BEGINNING_STRING):
                continue       # whole-string languages are compared; anchors are no-ops
            raise AnalysisError(f"regex anchor {av} not modelled")
        else:
            raise AnalysisError(f"regex construct {op} not modelled")
    return cur


class DFA:
    def __init__(self, U, start, trans, accept):
        self.U, self.start, self.trans, self.accept = U, start, trans, accept

    def step(self, s, ch):
        return self.trans.get((s, ch))

    def accepts(self, text):
        s = self.start
        for ch in text:
            ch = ch if ch in self.U else "\x01"
            s = self.step(s, ch)
            if s is None:
                return False
        return s in self.accept


def compile_regex(pattern, U):
    nfa = NFA()
    s0 = nfa.new()
    end = _build(nfa, sre.parse(pattern), U, s0)

    def closure(states):
        st = list(states)
        out = set(states)
        while st:
            x = st.pop()
            for y in nfa.eps.get(x, ()):
                if y not in out:
                    out.add(y)
                    st.append(y)
        return frozenset(out)
    start = closure({s0})
    trans, seen, queue = {}, {start}, [start]
    while queue:
        S = queue.pop()
        for ch in U:
            T = set()
            for x in S:
                for chars, y in nfa.tr.get(x, ()):
                    if ch in chars:
                        T.add(y)
            if not T:
                continue
            Tc = closure(T)
            trans[(S, ch)] = Tc
            if Tc not in seen:
                seen.add(Tc)
                queue.append(Tc)
    accept = {S for S in seen if end in S}
    return DFA(U, start, trans, accept)


def universe(*patterns, extra=""):
    return _universe(patterns, extra)


def _product_search(A: DFA, B: DFA, bad):
    """Shortest string reaching a product state (a, b) with bad(a_accepts, b_accepts, a_alive, b_alive)."""
    U = A.U
    start = (A.start, B.start)
    seen = {start}
    queue = [(start, "")]
    while queue:
        (a, b), w = queue.pop(0)
        if bad(a in A.accept if a is not None else False, b in B.accept if b is not None else False):
            return w
        for ch in U:
            na = A.step(a, ch) if a is not None else None
            nb = B.step(b, ch) if b is not None else None
            if na is None and nb is None:
                continue
            st = (na, nb)
            if st not in seen:
                seen.add(st)
                queue.append((st, w + ch))
    return None


def difference_witness(pa, pb, extra=""):
    """Shortest string in exactly one of L(pa), L(pb) (None if the languages are equal)."""
    U = universe(pa, pb, extra=extra)
    A, B = compile_regex(pa, U), compile_regex(pb, U)
    return _product_search(A, B, lambda x, y: x != y)


def inclusion_witness(pa, pb, extra=""):
    """Shortest string of L(pa) not in L(pb) (None if L(pa) is included in L(pb))."""
    U = universe(pa, pb, extra=extra)
    A, B = compile_regex(pa, U), compile_regex(pb, U)
    return _product_search(A, B, lambda x, y: x and not y)


def prefix_hazard(pa, pb):
    """A pair (p, w): p in L(pa) is a proper prefix of w in L(pb) - the ordered choice pa|pb would stop at p."""
    U = universe(pa, pb)
    A, B = compile_regex(pa, U), compile_regex(pb, U)
    # walk both; remember the last point where A accepted; need later B accept
    start = (A.start, B.start, None)
    seen = {start}
    queue = [(start, "")]
    while queue:
        (a, b, p), w = queue.pop(0)
        if p is not None and b is not None and b in B.accept and len(w) > len(p):
            return p, w
        for ch in U:
            nb = B.step(b, ch) if b is not None else None
            if nb is None:
                continue
            na = A.step(a, ch) if a is not None else None
            np_ = p
            # record the prefix at the moment A accepts (before consuming ch) - only the first such prefix matters
            if p is None and a is not None and a in A.accept:
                np_ = w
            st = (na, nb, np_)
            if st not in seen:
                seen.add(st)
                queue.append((st, w + ch))
    return None
