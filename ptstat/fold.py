"""K2 - constant folder and embedded-table reader.

Evaluates *module-level constant expressions* of the package from their AST
(numbers, strings, containers, arithmetic, references to other module-level
constants also across ``from .constants import x``, ``math``/``numpy``
constants and a few pure builtins).  The module is never imported or executed;
anything outside the modelled subset raises ``AnalysisError``.
"""
from __future__ import annotations

import ast
import math
import operator

from . import AnalysisError
from .source import SourceModel

_BIN = {
    ast.Add: operator.add, ast.Sub: operator.sub, ast.Mult: operator.mul,
    ast.Div: operator.truediv, ast.Pow: operator.pow, ast.Mod: operator.mod,
    ast.FloorDiv: operator.floordiv,
}
_UN = {ast.USub: operator.neg, ast.UAdd: operator.pos, ast.Not: operator.not_}

_EXTERNAL_CONST = {
    "math.pi": math.pi, "numpy.pi": math.pi, "math.e": math.e, "numpy.e": math.e,
    "numpy.nan": float("nan"), "numpy.inf": float("inf"), "math.inf": float("inf"),
}
_EXTERNAL_FUNC = {
    "math.sqrt": math.sqrt, "numpy.sqrt": math.sqrt, "math.log": math.log,
    "numpy.log": math.log, "math.exp": math.exp, "numpy.exp": math.exp,
    "math.radians": math.radians, "math.cos": math.cos,
}
_BUILTIN_FUNC = {
    "dict": dict, "list": list, "tuple": tuple, "set": set, "sorted": sorted,
    "len": len, "float": float, "int": int, "str": str, "abs": abs, "sum": sum,
    "min": min, "max": max, "zip": zip, "range": range, "frozenset": frozenset,
}


_UNSET = object()


class Folder:
    def __init__(self, src: SourceModel):
        self.src = src
        self._cache: dict = {}
        self._busy: set = set()

    def const(self, module: str, name: str):
        """Value of the module-level constant ``module.name``."""
        key = (module, name)
        if key in self._cache:
            return self._cache[key]
        if key in self._busy:
            raise AnalysisError(f"cyclic constant {module}.{name}")
        self._busy.add(key)
        try:
            r = self.src.resolve(module, name)
            if r is None:
                raise AnalysisError(f"constant {module}.{name} is not bound at module level")
            if r[0] == "value":
                hist = getattr(self.src.modules.get(r[1]), "history", {}).get(r[3] if len(r) > 3 else name, [])
                if len(hist) > 1 and hist[-1] is r[2]:
                    # X = <literal>; X = g(X): each assignment sees the value of the one before it
                    v = _UNSET
                    for node in hist:
                        v = self.fold(r[1], node, {} if v is _UNSET else {(r[3] if len(r) > 3 else name): v})
                else:
                    v = self.fold(r[1], r[2])
            elif r[0] == "external":
                if r[1] in _EXTERNAL_CONST:
                    v = _EXTERNAL_CONST[r[1]]
                else:
                    raise AnalysisError(f"{module}.{name} refers to external {r[1]}")
            else:
                raise AnalysisError(f"{module}.{name} is a {r[0]}, not a constant")
        finally:
            self._busy.discard(key)
        self._cache[key] = v
        return v

    def fold(self, module: str, node: ast.AST, env: dict | None = None):
        env = env or {}
        f = lambda n: self.fold(module, n, env)
        if isinstance(node, ast.Constant):
            return node.value
        if isinstance(node, ast.Name):
            if node.id in env:
                return env[node.id]
            if node.id in ("True", "False", "None"):
                return {"True": True, "False": False, "None": None}[node.id]
            r = self.src.resolve(module, node.id)
            if r is None:
                raise AnalysisError(f"name {node.id} in {module} is not a constant")
            if r[0] == "value":
                return self.const(r[1], node.id) if r[1] == module else self.fold(r[1], r[2])
            if r[0] == "external" and r[1] in _EXTERNAL_CONST:
                return _EXTERNAL_CONST[r[1]]
            raise AnalysisError(f"name {node.id} in {module} resolves to {r[0]}")
        if isinstance(node, ast.Attribute):
            # alias.CONST for package modules or math/numpy
            if isinstance(node.value, ast.Name):
                r = self.src.resolve(module, node.value.id)
                if r and r[0] == "module" and r[1] in self.src.modules:
                    return self.const(r[1], node.attr)
                if r and r[0] == "external":
                    dotted = f"{r[1]}.{node.attr}"
                    if dotted in _EXTERNAL_CONST:
                        return _EXTERNAL_CONST[dotted]
            raise AnalysisError(f"cannot fold attribute {ast.unparse(node)}")
        if isinstance(node, ast.BinOp) and type(node.op) in _BIN:
            return _BIN[type(node.op)](f(node.left), f(node.right))
        if isinstance(node, ast.UnaryOp) and type(node.op) in _UN:
            return _UN[type(node.op)](f(node.operand))
        if isinstance(node, (ast.List, ast.Tuple, ast.Set)):
            vals = []
            for e in node.elts:
                if isinstance(e, ast.Starred):
                    vals.extend(list(f(e.value)))
                else:
                    vals.append(f(e))
            return vals if isinstance(node, ast.List) else tuple(vals) if isinstance(node, ast.Tuple) else set(vals)
        if isinstance(node, ast.Dict):
            return {f(k): f(v) for k, v in zip(node.keys, node.values)}
        if isinstance(node, ast.JoinedStr):
            out = ""
            for part in node.values:
                if isinstance(part, ast.Constant):
                    out += str(part.value)
                elif isinstance(part, ast.FormattedValue):
                    v = f(part.value)
                    if part.conversion == ord("r"):
                        v = repr(v)
                    elif part.conversion == ord("s"):
                        v = str(v)
                    spec = f(part.format_spec) if part.format_spec is not None else ""
                    out += format(v, spec)
                else:
                    raise AnalysisError("f-string part not understood")
            return out
        if isinstance(node, ast.Subscript):
            base = f(node.value)
            sl = node.slice
            if isinstance(sl, ast.Slice):
                return base[slice(f(sl.lower) if sl.lower else None,
                                  f(sl.upper) if sl.upper else None,
                                  f(sl.step) if sl.step else None)]
            return base[f(sl)]
        if isinstance(node, ast.Call):
            fn = node.func
            args = [f(a) for a in node.args]
            kw = {k.arg: f(k.value) for k in node.keywords}
            if isinstance(fn, ast.Name):
                r = self.src.resolve(module, fn.id)
                if r is None and fn.id in _BUILTIN_FUNC:
                    v = _BUILTIN_FUNC[fn.id](*args, **kw)
                    return list(v) if fn.id in ("zip", "range") else v
                if r and r[0] == "external" and r[1] in _EXTERNAL_FUNC:
                    return _EXTERNAL_FUNC[r[1]](*args)
            if isinstance(fn, ast.Attribute):
                # method calls on folded values: str.join/split/keys/values/items/lower/strip
                if fn.attr in ("join", "split", "keys", "values", "items", "lower", "upper",
                               "strip", "replace", "splitlines"):
                    recv = f(fn.value)
                    v = getattr(recv, fn.attr)(*args, **kw)
                    return list(v) if fn.attr in ("keys", "values", "items") else v
                if isinstance(fn.value, ast.Name):
                    r = self.src.resolve(module, fn.value.id)
                    if r and r[0] == "external":
                        dotted = f"{r[1]}.{fn.attr}"
                        if dotted in _EXTERNAL_FUNC:
                            return _EXTERNAL_FUNC[dotted](*args)
            raise AnalysisError(f"cannot fold call {ast.unparse(node)[:60]}")
        if isinstance(node, ast.IfExp):
            return f(node.body) if f(node.test) else f(node.orelse)
        if isinstance(node, ast.Compare) and len(node.ops) == 1:
            a, b = f(node.left), f(node.comparators[0])
            op = node.ops[0]
            return {ast.Eq: a == b, ast.NotEq: a != b, ast.Lt: a < b, ast.Gt: a > b,
                    ast.LtE: a <= b, ast.GtE: a >= b}.get(type(op)) if not isinstance(op, (ast.In, ast.NotIn)) \
                else ((a in b) if isinstance(op, ast.In) else (a not in b))
        if isinstance(node, (ast.ListComp, ast.GeneratorExp, ast.DictComp)) and len(node.generators) == 1:
            g = node.generators[0]
            out = []
            for item in f(g.iter):
                e2 = dict(env)
                _bind(g.target, item, e2)
                if all(self.fold(module, c, e2) for c in g.ifs):
                    if isinstance(node, ast.DictComp):
                        out.append((self.fold(module, node.key, e2), self.fold(module, node.value, e2)))
                    else:
                        out.append(self.fold(module, node.elt, e2))
            return dict(out) if isinstance(node, ast.DictComp) else out
        raise AnalysisError(f"cannot fold {node.__class__.__name__}: {ast.unparse(node)[:60]}")


def _bind(target, value, env):
    if isinstance(target, ast.Name):
        env[target.id] = value
    elif isinstance(target, (ast.Tuple, ast.List)):
        vals = list(value)
        if len(vals) != len(target.elts):
            raise AnalysisError("unpack arity mismatch while folding")
        for t, v in zip(target.elts, vals):
            _bind(t, v, env)
    else:
        raise AnalysisError("unsupported comprehension target")
