"""K10 - grammar extractor and PEG model of the pyparsing combinators.

``formulas.formula_grammar`` is interpreted by symx; the pyparsing names it uses
resolve to the constructors below, so the result is a PEG *intermediate
representation* (nodes with identity, attached parse actions as closures of the
repository).  ``Grammar.parse`` runs that IR on a concrete string; parse actions
are evaluated by the abstract interpreter (never by Python).

Modelled library semantics (pyparsing 3.x, checked against its source):
  * a token element (Literal, Regex, StringEnd) skips leading blanks, White and
    NotAny do not; And takes the flag of its first element and parses that first
    element without skipping again; MatchFirst skips iff all alternatives do (a
    White alternative counts as not skipping); Optional/ZeroOrMore/OneOrMore/
    Group/Suppress/Forward copy the flag of their expression;
  * Optional(e, default=d) yields [d] when e fails and a default was given;
  * a parse action receives (string, location, tokens); None keeps the tokens, a
    list replaces them, any other value (a tuple included) becomes one token;
  * an exception raised by a parse action that is not a parse failure aborts the
    whole parse (no backtracking into later alternatives).
"""
from __future__ import annotations

import re

from . import AnalysisError
from .symval import SymRaise, SymObj, Closure, BoundMethod, Builtin, GenVal

WS = " \t\n\r"
_NODEFAULT = object()


class ParseFail(Exception):
    def __init__(self, loc, msg=""):
        super().__init__(msg)
        self.loc = loc
        self.msg = msg


class PE:
    """parser element"""
    skip = True
    name = None

    def __init__(self):
        self.actions = []
        self.label = None

    # pyparsing API used by the repository ------------------------------------------------
    def methods(self, I):
        return {
            "suppress": Builtin("suppress", lambda: Suppress(self)),
            "setParseAction": Builtin("setParseAction", lambda *fns: self._set_actions(fns)),
            "set_parse_action": Builtin("set_parse_action", lambda *fns: self._set_actions(fns)),
            "addParseAction": Builtin("addParseAction", lambda *fns: self._add_actions(fns)),
            "setName": Builtin("setName", lambda n: self._named(n)),
            "set_name": Builtin("set_name", lambda n: self._named(n)),
            "leaveWhitespace": Builtin("leaveWhitespace", lambda *a: self._leave()),
            "leave_whitespace": Builtin("leave_whitespace", lambda *a: self._leave()),
            "copy": Builtin("copy", lambda: self._copy()),
            "parseString": Builtin("parseString", lambda s, *a, **k: Grammar(self, I).parse(s, all_=bool(a and a[0]) or bool(k.get("parseAll") or k.get("parse_all")))),
            "parse_string": Builtin("parse_string", lambda s, *a, **k: Grammar(self, I).parse(s, all_=bool(a and a[0]) or bool(k.get("parseAll") or k.get("parse_all")))),
        }

    def _copy(self):
        import copy as _copy
        c = _copy.copy(self)
        c.actions = list(self.actions)
        return c

    def _set_actions(self, fns):
        self.actions = list(fns)
        return self

    def _add_actions(self, fns):
        self.actions += list(fns)
        return self

    def _named(self, n):
        self.label = n
        return self

    def _leave(self):
        self.skip = False
        return self

    def children(self):
        return []

    def __repr__(self):
        return f"<{self.__class__.__name__}{' ' + self.label if self.label else ''}>"


class Literal(PE):
    def __init__(self, s):
        super().__init__()
        self.s = s


class Toks(list):
    """a token list that also carries results names (the part of pyparsing.ParseResults the package can observe)"""
    def __init__(self, items=(), named=None):
        super().__init__(items)
        self.named = dict(named or {})


class Regex(PE):
    def __init__(self, pattern, flags=0):
        super().__init__()
        self.pattern = pattern
        self.rx = re.compile(pattern, flags)


class White(PE):
    skip = False

    def __init__(self, ws=WS, **k):
        super().__init__()
        self.ws = ws


class StringEnd(PE):
    pass


class Empty(PE):
    pass


class And(PE):
    def __init__(self, exprs):
        super().__init__()
        self.exprs = []
        for e in exprs:
            # pyparsing flattens a + b + c into one And (streamline) when the inner And has no action
            if isinstance(e, And) and not e.actions and e.label is None:
                self.exprs.extend(e.exprs)
            else:
                self.exprs.append(e)

    @property
    def skip(self):
        return False if isinstance(self.exprs[0], White) else self.exprs[0].skip

    def children(self):
        return self.exprs


class MatchFirst(PE):
    def __init__(self, exprs):
        super().__init__()
        self.exprs = []
        for e in exprs:
            if isinstance(e, MatchFirst) and not e.actions and e.label is None:
                self.exprs.extend(e.exprs)
            else:
                self.exprs.append(e)

    @property
    def skip(self):
        return all(e.skip and not isinstance(e, White) for e in self.exprs)

    def children(self):
        return self.exprs


class Enhance(PE):
    def __init__(self, expr):
        super().__init__()
        self.expr = expr

    @property
    def skip(self):
        return self.expr.skip if self.expr is not None else True

    def children(self):
        return [self.expr] if self.expr is not None else []


class Optional(Enhance):
    def __init__(self, expr, default=_NODEFAULT):
        super().__init__(expr)
        self.default = default


class ZeroOrMore(Enhance):
    pass


class OneOrMore(Enhance):
    pass


class Group(Enhance):
    pass


class Suppress(Enhance):
    pass


class NotAny(Enhance):
    skip = False


class FollowedBy(Enhance):
    pass


class Forward(Enhance):
    def __init__(self, other=None):
        super().__init__(other)

    def assign(self, other):
        self.expr = other
        return self


def constructors(I):
    """pyparsing names -> IR constructors (as interpreter builtins)."""
    def lit(s):
        if not isinstance(s, str):
            raise AnalysisError("Literal of a non-constant string")
        return Literal(s)

    def rx(p, *a, **k):
        from .symval import ReObj
        if isinstance(p, ReObj) and type(p.obj).__name__ == "Pattern":
            # a pre-compiled pattern: the same language as its source text; flags other than the default travel as an inline group
            import re as _re
            letters = "".join(ch for ch, fl in (("a", _re.A), ("i", _re.I), ("m", _re.M), ("s", _re.S), ("x", _re.X)) if p.obj.flags & fl)
            p = (f"(?{letters})" if letters else "") + p.obj.pattern
        if not isinstance(p, str):
            raise AnalysisError("Regex of a non-constant pattern")
        return Regex(p)

    def opt(e, default=_NODEFAULT):
        return Optional(_pe(e), default)
    def one_of(strs, caseless=False, **k):
        import re as _re
        if isinstance(strs, str):
            strs = strs.split()
        strs = list(strs.take_all()) if isinstance(strs, GenVal) else list(strs)
        if not strs or not all(isinstance(x, str) for x in strs):
            raise AnalysisError("oneOf of non-constant strings")
        # pyparsing moves a string in front of any earlier string that is a prefix of it: the longest alternative wins
        alts = sorted(dict.fromkeys(strs), key=len, reverse=True)
        return Regex("(?:" + "|".join(_re.escape(x) for x in alts) + ")")
    table = {
        "oneOf": one_of, "one_of": one_of,
        "Literal": lit, "Keyword": lit, "CaselessLiteral": lit, "Regex": rx, "White": lambda *a, **k: White(*[x for x in a if isinstance(x, str)]),
        "Optional": opt, "Opt": opt, "ZeroOrMore": lambda e, **k: ZeroOrMore(_pe(e)), "OneOrMore": lambda e, **k: OneOrMore(_pe(e)),
        "Group": lambda e, **k: Group(_pe(e)), "Suppress": lambda e: Suppress(_pe(e)), "Forward": lambda *a: Forward(_pe(a[0]) if a else None),
        "StringEnd": lambda: StringEnd(), "Empty": lambda: Empty(), "NotAny": lambda e: NotAny(_pe(e)), "FollowedBy": lambda e: FollowedBy(_pe(e)),
        "And": lambda es: And([_pe(e) for e in es]), "MatchFirst": lambda es: MatchFirst([_pe(e) for e in es]),
    }
    out = {k: Builtin("pyparsing." + k, v) for k, v in table.items()}
    out["pyparsing_common"] = out["common"] = PPCommon()
    return out


class PPCommon:
    """pyparsing.pyparsing_common: the numeric expressions, each a Regex of the library's own pattern with its conversion
    action (patterns and actions transcribed from pyparsing 3: integer, signed_integer, real, sci_real, fnumber, number)."""
    PATTERNS = {"integer": (r"[0-9]+", "int"), "signed_integer": (r"[+-]?\d+", "int"), "real": (r"[+-]?(?:\d+\.\d*|\.\d+)", "float"),
                "sci_real": (r"[+-]?(?:\d+(?:[eE][+-]?\d+)|(?:\d+\.\d*|\.\d+)(?:[eE][+-]?\d+)?)", "float"),
                "fnumber": (r"[+-]?\d+\.?\d*(?:[eE][+-]?\d+)?", "float")}

    def attr(self, name):
        import sympy as sp
        if name == "number":
            return MatchFirst([self.attr("sci_real"), self.attr("real"), self.attr("signed_integer")])
        if name not in self.PATTERNS:
            raise AnalysisError(f"pyparsing_common.{name} is not modelled")
        pat, kind = self.PATTERNS[name]
        e = Regex(pat)
        conv = (lambda t: sp.Integer(int(t[0]))) if kind == "int" else (lambda t: sp.Rational(t[0]) if "e" not in t[0].lower() else sp.Float(t[0]))
        b = Builtin("pyparsing_common." + name, conv)
        b.peg_nargs = 1
        e.actions = [b]
        return e


def _pe(e):
    if isinstance(e, str):
        return Literal(e)
    if not isinstance(e, PE):
        raise AnalysisError(f"{e!r} used as a parser element")
    return e


def binop(op_name, a, b):
    """a + b, a | b, a << b on parser elements (strings are promoted to Literal)"""
    if op_name == "Add":
        return And([_pe(a), _pe(b)])
    if op_name == "BitOr":
        return MatchFirst([_pe(a), _pe(b)])
    if op_name == "LShift":
        if not isinstance(a, Forward):
            raise AnalysisError("<< on a non-Forward element")
        return a.assign(_pe(b))
    raise AnalysisError(f"operator {op_name} on parser elements")


# --------------------------------------------------------------------------------------- parsing
class Grammar:
    def __init__(self, root: PE, I):
        self.root = root
        self.I = I
        self.steps = 0
        self.trace = None        # when a list: (action, node, start) appended for every parse action applied

    def nodes(self):
        seen, out, stack = set(), [], [self.root]
        while stack:
            n = stack.pop()
            if id(n) in seen or n is None:
                continue
            seen.add(id(n))
            out.append(n)
            stack.extend(n.children())
        return out

    def parse(self, s, all_=False):
        if not isinstance(s, str):
            raise AnalysisError("parseString of a non-constant string")
        s = s.expandtabs()
        self.steps = 0
        try:
            loc, toks = self._parse(self.root, s, 0, True)
            if all_:
                loc = self._skipws(s, loc)
                if loc != len(s):
                    raise ParseFail(loc, "expected end of text")
        except ParseFail as e:
            raise SymRaise("ParseException", f"at {e.loc}: {e.msg}")
        return toks

    @staticmethod
    def _named(dst, src):
        """results names travel with the tokens they belong to (ParseResults semantics, names of later matches win)"""
        nm = getattr(src, "named", None)
        if nm:
            if not isinstance(dst, Toks):
                dst = Toks(dst)
            dst.named.update(nm)
        return dst

    @staticmethod
    def _skipws(s, loc):
        while loc < len(s) and s[loc] in WS:
            loc += 1
        return loc

    def _parse(self, n: PE, s, loc, pre):
        self.steps += 1
        if self.steps > 200000:
            raise AnalysisError("parse step budget exceeded (grammar loops?)")
        if pre and n.skip:
            loc = self._skipws(s, loc)
        start = loc
        loc, toks = self._impl(n, s, loc)
        if n.actions:
            for fn in n.actions:
                if self.trace is not None:
                    self.trace.append((fn, n, start))
                if getattr(self, "tok_trace", None) is not None:
                    self.tok_trace.append((fn, toks))          # the tokens the action is handed (for rules that replay an action)
                r = self._call(fn, s, start, toks)
                if r is not None and r is not toks:
                    if isinstance(r, GenVal):
                        r = r.take_all()
                    toks = list(r) if isinstance(r, list) else [r]
        return loc, toks

    def _call(self, fn, s, loc, toks):
        nargs = 3
        node = fn.node if isinstance(fn, Closure) else fn.fn.node if isinstance(fn, BoundMethod) and isinstance(fn.fn, Closure) else None
        bound = isinstance(fn, BoundMethod)
        if node is None and isinstance(fn, SymObj) and fn.cls is not None:
            m = fn.cls.lookup("__call__")          # an instance of a class with __call__ used as a parse action
            if isinstance(m, Closure):
                node, bound = m.node, True
        if node is not None:
            a = node.args
            nargs = len(a.posonlyargs) + len(a.args) - (1 if bound else 0)
            if a.vararg:
                nargs = 3
        if isinstance(fn, Builtin) and getattr(fn, "peg_nargs", None):
            nargs = fn.peg_nargs
        args = [s, loc, toks][3 - nargs:] if nargs <= 3 else [s, loc, toks]
        return self.I.call(fn, args, {})

    def _impl(self, n, s, loc):
        if isinstance(n, Literal):
            if s.startswith(n.s, loc):
                return loc + len(n.s), [n.s]
            raise ParseFail(loc, f"expected {n.s!r}")
        if isinstance(n, Regex):
            m = n.rx.match(s, loc)
            if not m:
                raise ParseFail(loc, f"expected /{n.pattern}/")
            if m.groupdict():
                t = Toks([m.group()])
                t.named.update(m.groupdict())          # named groups of a Regex are results names
                return m.end(), t
            return m.end(), [m.group()]
        if isinstance(n, White):
            j = loc
            while j < len(s) and s[j] in n.ws:
                j += 1
            if j == loc:
                raise ParseFail(loc, "expected whitespace")
            return j, [s[loc:j]]
        if isinstance(n, StringEnd):
            if loc < len(s):
                raise ParseFail(loc, "expected end of text")
            return loc, []
        if isinstance(n, Empty):
            return loc, []
        if isinstance(n, And):
            toks = []
            for i, e in enumerate(n.exprs):
                loc, t = self._parse(e, s, loc, pre=(i > 0))
                toks = self._named(toks + list(t) if not isinstance(toks, Toks) else Toks(list(toks) + list(t), toks.named), t)
            return loc, toks
        if isinstance(n, MatchFirst):
            best = None
            for e in n.exprs:
                try:
                    return self._parse(e, s, loc, True)
                except ParseFail as f:
                    if best is None or f.loc > best.loc:
                        best = f
            raise best or ParseFail(loc, "no alternative")
        if isinstance(n, Optional):
            try:
                return self._parse(n.expr, s, loc, False)
            except ParseFail:
                return loc, ([] if n.default is _NODEFAULT else [n.default])
        if isinstance(n, (ZeroOrMore, OneOrMore)):
            toks = []
            count = 0
            while True:
                try:
                    nloc, t = self._parse(n.expr, s, loc, count > 0)
                except ParseFail:
                    break
                if nloc == loc and count > 0:
                    break
                loc, toks, count = nloc, self._named(Toks(list(toks) + list(t), getattr(toks, "named", None)) if isinstance(toks, Toks) else toks + list(t), t), count + 1
            if isinstance(n, OneOrMore) and count == 0:
                raise ParseFail(loc, "expected one or more")
            return loc, toks
        if isinstance(n, Group):
            loc, t = self._parse(n.expr, s, loc, False)
            return loc, [t]
        if isinstance(n, Suppress):
            loc, _ = self._parse(n.expr, s, loc, False)
            return loc, []
        if isinstance(n, NotAny):
            try:
                self._parse(n.expr, s, loc, True)
            except ParseFail:
                return loc, []
            raise ParseFail(loc, "found unwanted token")
        if isinstance(n, FollowedBy):
            self._parse(n.expr, s, loc, True)
            return loc, []
        if isinstance(n, Forward):
            if n.expr is None:
                raise AnalysisError("Forward element used before it is defined")
            return self._parse(n.expr, s, loc, False)
        raise AnalysisError(f"parser element {n!r} not modelled")
