"""Value domain of the K4 value-graph builder (see symx.py)."""
from __future__ import annotations

import itertools

import sympy as sp

from . import AnalysisError

_ids = itertools.count(1)

# analysis options: 'unit_groups' lets a join treat ((1, S),) and S as the same composition
OPTIONS = {"unit_groups": False}


class SymObj:
    """Abstract heap object.  Attributes live in State.heap[obj.id]."""
    def __init__(self, name, cls=None, open_attrs=None, sym_kw=None):
        self.id = next(_ids)
        self.name = name
        self.cls = cls                  # ClassVal or None
        # None -> every unknown attribute is a fresh symbol;
        # a set -> only those names are, anything else is AttributeError
        self.open_attrs = open_attrs
        self.sym_kw = sym_kw or {}      # assumptions for fresh attribute symbols

    def __repr__(self):
        return f"<{self.cls.name if self.cls else 'obj'} {self.name}>"


class ClassVal:
    def __init__(self, qual, module, node):
        self.qual = qual
        self.name = qual.rsplit(".", 1)[-1]
        self.module = module
        self.node = node
        self.attrs = {}        # filled by the interpreter (methods, properties, constants)
        self.bases = []        # ClassVal list

    def __repr__(self):
        return f"<class {self.qual}>"

    def lookup(self, name):
        if name in self.attrs:
            return self.attrs[name]
        for b in self.bases:
            v = b.lookup(name)
            if v is not _MISSING:
                return v
        return _MISSING


_MISSING = object()


class SuperVal:
    """super() / super(C, self): attribute lookup starts after C in self's class hierarchy"""
    def __init__(self, cls, selfval):
        self.cls, self.selfval = cls, selfval


class PropertyVal:
    def __init__(self, fget, fset=None):
        self.fget = fget
        self.fset = fset


class Closure:
    def __init__(self, node, module, qual, frame=None, cls=None):
        self.node = node        # FunctionDef or Lambda
        self.module = module
        self.qual = qual
        self.frame = frame      # defining Frame for nested functions
        self.cls = cls

    def __repr__(self):
        return f"<fn {self.qual}>"


class BoundMethod:
    def __init__(self, fn, selfval):
        self.fn = fn
        self.selfval = selfval


class ModuleVal:
    def __init__(self, name, external=None):
        self.name = name
        self.external = external   # dotted name for non-package modules

    def __repr__(self):
        return f"<module {self.external or self.name}>"


class Builtin:
    def __init__(self, name, fn):
        self.name = name
        self.fn = fn

    def __repr__(self):
        return f"<builtin {self.name}>"


class Raised:
    """Marker value: this evaluation always raises *exc*."""
    def __init__(self, exc, msg=""):
        self.exc = exc
        self.msg = msg

    def __repr__(self):
        return f"<raise {self.exc}>"


class Phi:
    """Join of two non-algebraic values under an opaque condition."""
    def __init__(self, cond, a, b):
        self.cond, self.a, self.b = cond, a, b

    def __repr__(self):
        return f"Phi({self.cond}, {self.a!r}, {self.b!r})"


class Vec:
    """numpy array of known length: element-wise arithmetic, sum() adds."""
    def __init__(self, items, col=False):
        self.items = list(items)
        self.col = col      # shape (M, 1): produced by x[:, None]

    def __len__(self):
        return len(self.items)

    def __iter__(self):
        return iter(self.items)

    def __repr__(self):
        return f"Vec({self.items})"


class FieldSpec:
    """dataclasses.field(...)"""
    def __init__(self, default=_MISSING, default_factory=_MISSING, compare=True, init=True, **other):
        self.default, self.default_factory, self.compare, self.init = default, default_factory, compare, init
        self.name = None


class VecFlags:
    """x.flags of an array: only the writeable flag is modelled (it is inherited by the rows of a 2-D array)"""
    def __init__(self, vec):
        self.vec = vec

    def set_writeable(self, value):
        def rec(v):
            v.readonly = not value
            for x in v.items:
                if isinstance(x, Vec):
                    rec(x)
        rec(self.vec)


class ViewVec(Vec):
    """x.real / x.imag of an array: a *view* - reads follow later in-place changes of the base array."""
    def __init__(self, base, fn, col=False):
        self.base, self.fn, self.col = base, fn, col

    @property
    def items(self):
        return [ViewVec(x, self.fn, x.col) if isinstance(x, Vec) else self.fn(x) for x in self.base.items]


class _WriteThrough(list):
    """the elements of an array view: an element store goes to the array the view was taken from"""
    def __init__(self, values, store):
        super().__init__(values)
        self._store = store

    def __setitem__(self, k, v):
        if isinstance(k, slice):
            idx = list(range(*k.indices(len(self))))
            vals = list(v)
            if len(vals) != len(idx):
                raise ValueError("view: slice assignment of another length")
            for i, x in zip(idx, vals):
                self._store(i, x)
        else:
            self._store(k if k >= 0 else len(self) + k, v)
        super().__setitem__(k, v)


class ColView(Vec):
    """column j of a 2-D array, as a view (a row of its transpose)"""
    def __init__(self, base, j):
        self.base, self.j, self.col = base, j, False

    @property
    def items(self):
        j = self.j
        rows = self.base.items

        def store(i, v):
            rows[i].items[j] = v
        return _WriteThrough([r.items[j] for r in rows], store)


class TransposeView(Vec):
    """a.T of a 2-D array: a view, its rows are the columns of the base"""
    def __init__(self, base):
        self.base, self.col = base, False

    @property
    def items(self):
        return [ColView(self.base, j) for j in range(len(self.base.items[0]))]


class GenVal:
    """A generator object: its items can be consumed once."""
    def __init__(self, items):
        self.items = list(items)
        self.pos = 0

    def take_all(self):
        out = self.items[self.pos:]
        self.pos = len(self.items)
        return out

    def __repr__(self):
        return f"<generator {len(self.items) - self.pos} left>"


class TextFile(GenVal):
    """An open text file (or io.StringIO) over known text: iterating consumes lines, newlines kept."""
    def __init__(self, text_or_lines, name="<file>"):
        if isinstance(text_or_lines, str):
            lines = text_or_lines.splitlines(keepends=True)
        else:
            lines = [l if l.endswith("\n") else l + "\n" for l in text_or_lines]
        super().__init__(lines)
        self.name = name

    def __repr__(self):
        return f"<file {self.name}>"


class PathVal:
    """pathlib.Path over a concrete path string"""
    def __init__(self, path):
        self.path = str(path)

    def __repr__(self):
        return f"Path({self.path!r})"


class ReObj:
    """A compiled regular expression / a match object of the standard library (concrete strings only)."""
    def __init__(self, obj):
        self.obj = obj


class SymRaise(Exception):
    """Concrete (unconditional) exception travelling through the interpreter."""
    def __init__(self, exc, msg="", site=None):
        super().__init__(f"{exc}: {msg}")
        self.exc = exc
        self.msg = msg
        self.site = site


# exception hierarchy needed for handler matching
_EXC_PARENTS = {
    "KeyError": "LookupError", "IndexError": "LookupError", "LookupError": "Exception",
    "ValueError": "Exception", "TypeError": "Exception", "AttributeError": "Exception",
    "RuntimeError": "Exception", "AssertionError": "Exception", "ZeroDivisionError": "ArithmeticError",
    "ArithmeticError": "Exception", "Exception": "BaseException", "StopIteration": "Exception",
}


def exc_matches(exc: str, handler: str | None) -> bool:
    if handler is None:
        return True
    while exc is not None:
        if exc == handler:
            return True
        exc = _EXC_PARENTS.get(exc)
    return False


def is_expr(v) -> bool:
    return isinstance(v, (sp.Basic,)) and not isinstance(v, sp.logic.boolalg.Boolean) or isinstance(v, (int, float, complex)) and not isinstance(v, bool)


def to_expr(v):
    """Python number -> exact sympy number; sympy passes through."""
    if isinstance(v, sp.Basic):
        return v
    if isinstance(v, bool):
        return sp.true if v else sp.false
    if isinstance(v, int):
        return sp.Integer(v)
    if isinstance(v, float):
        if v != v:
            return sp.nan
        if v in (float("inf"), float("-inf")):
            return sp.oo if v > 0 else -sp.oo
        return sp.Rational(repr(v))
    if isinstance(v, complex):
        return to_expr(v.real) + sp.I * to_expr(v.imag)
    raise AnalysisError(f"value {v!r} is not algebraic")


def merge(cond, a, b):
    """phi(cond, a, b): value a if cond else b."""
    if a is b:
        return a
    if cond is sp.true or cond is True:
        return a
    if cond is sp.false or cond is False:
        return b
    try:
        if type(a) is type(b) and not isinstance(a, (SymObj, Phi, Vec, list, tuple, dict)) and a == b:
            return a
    except Exception:
        pass
    if OPTIONS["unit_groups"] and isinstance(cond, sp.Ne) and cond.args[1] == 1 and isinstance(a, tuple) \
            and len(a) == 1 and isinstance(a[0], tuple) and len(a[0]) == 2 and _alg(a[0][0]) \
            and to_expr(a[0][0]) == cond.args[0] and (a[0][1] is b or a[0][1] == b):
        # phi(n != 1, ((n, S),), S): the same composition - a group with count 1 (composition analyses only)
        return a
    Bool = sp.logic.boolalg.Boolean
    if isinstance(a, (bool, Bool)) and isinstance(b, (bool, Bool)):
        ba = sp.true if a is True else sp.false if a is False else a
        bb = sp.true if b is True else sp.false if b is False else b
        r = sp.ITE(cond, ba, bb)
        return True if r is sp.true else False if r is sp.false else r
    if isinstance(a, (tuple, list)) and isinstance(b, (tuple, list)) and type(a) is type(b) and len(a) == len(b) \
            and all(_compat(x, y) for x, y in zip(a, b)):
        return type(a)(merge(cond, x, y) for x, y in zip(a, b))
    if isinstance(a, Vec) and isinstance(b, Vec) and len(a) == len(b):
        return Vec(merge(cond, x, y) for x, y in zip(a, b))
    if isinstance(a, dict) and isinstance(b, dict) and list(a.keys()) == list(b.keys()):
        return {k: merge(cond, a[k], b[k]) for k in a}
    if _alg(a) and _alg(b):
        ea, eb = to_expr(a), to_expr(b)
        if ea == eb:
            return ea
        # phi(x != c, a, b) is a when b is what a becomes at x == c (e.g. the n == 1 shortcut of n*f)
        if isinstance(cond, (sp.Ne, sp.Eq)):
            l, r = cond.args
            keep, other = (ea, eb) if isinstance(cond, sp.Ne) else (eb, ea)
            try:
                dd = keep.subs(l, r) - other.subs(l, r)
                if dd == 0 or (sp.count_ops(dd) < 150 and sp.expand(dd) == 0):
                    return keep
                if sp.count_ops(keep) < 400 and _zero_when(l - r, keep - other):
                    return keep
            except Exception:
                pass
        return sp.Piecewise((ea, cond), (eb, True))
    return Phi(cond, a, b)


def _alg(v):
    return (isinstance(v, sp.Expr) or (isinstance(v, (int, float, complex)) and not isinstance(v, bool)))


def _zero_when(eqn, d):
    """Is d == 0 whenever eqn == 0?  Decided by solving eqn linearly for one symbol
    (min/max sub-terms treated as opaque) and substituting."""
    opaque = {m: sp.Dummy(positive=True) for m in (eqn.atoms(sp.Min, sp.Max, sp.core.function.AppliedUndef) | d.atoms(sp.Min, sp.Max, sp.core.function.AppliedUndef))}
    e2, d2 = eqn.xreplace(opaque), d.xreplace(opaque)
    num = sp.numer(sp.together(e2))
    for s in sorted(num.free_symbols, key=str):
        if s in opaque.values():
            continue
        p = sp.Poly(num, s) if num.is_polynomial(s) else None
        if p is None or p.degree() != 1:
            continue
        a, b = p.all_coeffs()
        if a == 0:
            continue
        sol = -b / a
        if sp.cancel(sp.together(d2.subs(s, sol))) == 0:
            return True
        return False
    return False


def _compat(a, b):
    """Can two values be joined element-wise without creating hybrid shapes?"""
    if a is b:
        return True
    if _alg(a) and _alg(b):
        return True
    if isinstance(a, (tuple, list)) and isinstance(b, (tuple, list)):
        return type(a) is type(b) and len(a) == len(b) and all(_compat(x, y) for x, y in zip(a, b))
    if isinstance(a, (bool, str, type(None))) and isinstance(b, (bool, str, type(None))):
        return a == b
    return False
