"""K7 - lazy-group typestate machine.

The package's own ``__init__`` (registrations with ``core.delayed_load``) and
``core.delayed_load`` itself (getter / setter / clearprops closures) are
interpreted from the source; the loaders run on small probe tables.  The machine
explores, to closure of the reachable abstract states, every finite history of
first-touch events and compares what each read serves with the canonical
history.  A state is the full abstract heap restricted to what the events can
observe (class-level attributes of the atom classes, each table's ``properties``
and the instance data of the sampled atoms), so two histories reaching the same
state behave identically afterwards.
"""
from __future__ import annotations

import ast
import hashlib

import sympy as sp

from . import AnalysisError
from .source import SourceModel
from .symx import Interp, Frame, _cp
from .symval import (SymObj, ClassVal, PropertyVal, Closure, BoundMethod, Builtin, ModuleVal, Phi, Vec, GenVal, TextFile,
                     SymRaise, _MISSING)
from .world import SYMCONST

ISO = ("1-H-1,1.5(1),x,10.5(2)\n1-H-2,2.25(10)#,x,10.5(2)\n1-H-3,3.5(1),,10.5(2)\n2-He-3,3.25(1),x,4.5(1)\n2-He-4,4.25(1),x,4.5(1)\n"
       "4-Be-9,9.5(1),x,9.5(1)\n26-Fe-54,54.5,x,55.5(3)\n26-Fe-56,[56.5],,55.5(3)\n29-Cu-63,63.5(1),x,63.75(3)\n"
       "54-Xe-132,131.5(1),x,131.25(6)\n62-Sm-149,148.5(1),x,150.5(2)\n63-Eu-151,150.5(1),x,151.75(1)\n"
       "71-Lu-175,174.5(1),x,174.75(1)\n71-Lu-176,175.5(1),x,174.75(1)\n44-Ru-96,95.5(1),x,101.25(2)\n80-Hg-196,195.5(1),x,200.5(2)")
ELM = "1\tH\thydrogen\t  [1.25,1.75]\tm\n26\tFe\tiron\t 55.75(5)  [55.1,55.9] g r"
ABU = "1\tH\thydrogen\n    1\t[0.7,0.8]\tm\n    2\t0.25(1)\n26\tFe\tiron\n    54\t0.06(1)\n    56\t0.9(2)"
DENS = {"H": (sp.Rational(1, 2), "T"), "He": sp.Rational(1, 8), "Be": sp.Rational(7, 4), "Fe": sp.Rational(15, 2), "Cu": sp.Rational(9),
        "Xe": sp.Rational(3), "Sm": sp.Rational(7), "Eu": sp.Rational(5), "Lu": sp.Rational(10), "n": None, "Po": None, "V": sp.Rational(6),
        "Mn": sp.Rational(7), "Mo": sp.Rational(10), "Y": sp.Rational(4), "Co": sp.Rational(9), "C": sp.Rational(2), "Ag": sp.Rational(10),
        "Li": sp.Rational(1, 2), "Ru": sp.Rational(12), "Hg": sp.Rational(13)}
ACT_ROW = "\t".join(['"Fe"', "101", "26", "Fe", "56", "Fe-56", "91.5", "Fe-57m", "1.5", "h", "m", "11.5", "act", "n", "14.5", "15.5", "16.5",
                     "1.5", "1.5 h", "", "", "", '"note"\n'])


def probes():
    from rules.C07 import PROBE_BASE as NSF, PROBE_I as NSFI
    from rules.C20 import CORDERO, CORDERO_PYYKKO, LINES, CFML
    return {
        "mass.isotope_mass": ISO, "mass.element_mass": ELM, "mass.isotope_abundance": ABU,
        "density.element_densities": DENS,
        "nsf.nsftable": NSF, "nsf.nsftableI": NSFI,
        "nsf_tables.ENERGY_DEPENDENT_TABLES": {("Lu", sp.Integer(176)): [(sp.Integer(k + 1), sp.Rational(k + 2, 2), -sp.Rational(k + 1, 4), sp.Integer(0))
                                                                         for k in range(3)]},
        "covalent_radius.Cordero": CORDERO, "covalent_radius.CorderoPyykko?": CORDERO_PYYKKO,      # ('?': only if the package defines it)
        "crystal_structure.crystal_structures": [None, {"symmetry": "diatom", "d": sp.Rational("0.74")}, {"symmetry": "atom"},
                                                 {"symmetry": "BCC", "a": sp.Rational("3.49")}],
        "xsf.spectral_lines_data": LINES,
        "magnetic_ff.CFML_DATA": CFML,
    }


# group -> (module, init function, registered in __init__ as)
GROUP_INIT = {
    "covalent_radius": ("covalent_radius", "init"), "crystal_structure": ("crystal_structure", "init"),
    "neutron": ("nsf", "init"), "nuclear_spin": ("nsf", "init"), "neutron_activation": ("activation", "init"), "xray": ("xsf", "init"),
    "K_alpha": ("xsf", "init_spectral_lines"), "magnetic_ff": ("magnetic_ff", "init"),
}


class Registration:
    def __init__(self, names, loader, element, isotope, ion, node):
        self.names, self.loader, self.element, self.isotope, self.ion, self.node = names, loader, element, isotope, ion, node

    @property
    def key(self):
        return self.names[0]


class LazyWorld:
    def __init__(self, src: SourceModel):
        self.src = src
        sc = dict(SYMCONST)
        for k_, v_ in probes().items():
            if k_.endswith("?"):
                k_ = k_[:-1]
                if src.resolve(*k_.split(".", 1)) is None:
                    continue
            sc[k_] = v_
        self.I = I = Interp(src, symbolic_constants=sc)
        I.default_open = {}
        I.stubs["core.get_data_path"] = lambda I_, a, k: "/data"
        I.builtins["open"] = Builtin("open", lambda *a, **k: TextFile(["\t\t\n", ACT_ROW], "activation.dat"))
        I.builtins["globals"] = Builtin("globals", lambda: {})

        def gettable(I_, args, kw):
            xr = args[0]
            d = I_.heap[xr.id]
            if d.get("_table") is None:
                el = I_.getattr(xr, "element")
                sym = I_.getattr(el, "symbol")
                if sym == "n":
                    return None
                d["_table"] = Vec([Vec([sp.Symbol(f"XE_{sym}_{k}", real=True) for k in (1, 2)]),
                                   Vec([sp.Symbol(f"XF1_{sym}_{k}", real=True) for k in (1, 2)]),
                                   Vec([sp.Symbol(f"XF2_{sym}_{k}", real=True) for k in (1, 2)])])
            return d["_table"]
        self.default_gettable = gettable
        # the real Xray._gettable is interpreted on a probe file (three rows), through stubs of os.path and numpy.loadtxt
        I.loadtxt_data = [[sp.Rational(10), sp.Rational(-9999), sp.Rational("1.5")], [sp.Rational(20), sp.Rational("2.5"), sp.Rational("3.5")],
                          [sp.Rational(30), sp.Rational("4.5"), sp.Rational("5.5")]]
        ospath = I.new_obj("os.path", None, {"join": Builtin("join", lambda *a: "/".join(a)), "exists": Builtin("exists", lambda p_: True)},
                           open_attrs=set())
        I.module_cache[("xsf", "os")] = I.new_obj("os", None, {"path": ospath}, open_attrs=set())
        # the real _gettable is interpreted when the rule wants to see caching across holders
        self.registrations: list[Registration] = []
        real_dl = None
        self.frame = Frame(I, "__init__", "__init__")
        self._collect_registrations()
        self._boot()

    # ------------------------------------------------------------------ boot
    def _collect_registrations(self):
        m = self.src.module("__init__")
        for st in m.tree.body:
            if isinstance(st, ast.Expr) and isinstance(st.value, ast.Call):
                c = st.value
                if isinstance(c.func, ast.Attribute) and c.func.attr == "delayed_load":
                    self._reg_node = getattr(self, "_reg_node", []) + [c]

    def _boot(self):
        """Interpret the package __init__ up to and including the registrations."""
        I = self.I
        m = self.src.module("__init__")
        fr = self.frame
        orig_call = None
        regs = self.registrations

        def spy(I_, args, kw):
            b = I_.bound("core.delayed_load", args, kw)
            sig = [a.arg for a in I_.src.func("core.delayed_load").node.args.args]
            if len(sig) < 2 or sig[0] not in b or sig[1] not in b:
                raise AnalysisError("delayed_load(names, loader, ...) call not understood")
            names = list(b[sig[0]])
            loader = b[sig[1]]
            element = b.get("element", b.get(sig[2], True) if len(sig) > 2 else True)
            isotope = b.get("isotope", b.get(sig[3], False) if len(sig) > 3 else False)
            ion = b.get("ion", b.get(sig[4], False) if len(sig) > 4 else False)
            regs.append(Registration(names, loader, bool(element), bool(isotope), bool(ion), None))
            f = I_.src.func("core.delayed_load")
            del I_.stubs["core.delayed_load"]
            try:
                return I_.call(Closure(f.node, "core", "core.delayed_load"), args, kw)
            finally:
                I_.stubs["core.delayed_load"] = spy
        I.stubs["core.delayed_load"] = spy
        for st in m.tree.body:
            if isinstance(st, ast.Expr) and isinstance(st.value, ast.Constant):
                continue
            if isinstance(st, ast.FunctionDef) and not st.name.startswith("_"):
                continue           # the public convenience wrappers are not needed
            if isinstance(st, (ast.Import, ast.ImportFrom)) and getattr(st, "module", None) == "__future__":
                continue
            I.exec_stmt(st, fr, sp.true)
        self.P = fr.vars.get("elements")
        if not isinstance(self.P, SymObj):
            raise AnalysisError("package __init__ does not bind 'elements' to a table")
        I.module_cache[("core", "PUBLIC_TABLE")] = self.P
        if not regs:
            raise AnalysisError("no core.delayed_load registration found in the package __init__")
        # the property objects the registrations installed on the atom classes (whatever their implementation)
        self.delayed_props = {}
        for cq in ("core.Element", "core.Isotope", "core.Ion"):
            for k, v in I.get_class(cq).attrs.items():
                if isinstance(v, PropertyVal) and any(k in r.names for r in regs):
                    self.delayed_props[(cq, k)] = v
        self.boot_snapshot = self.snapshot()

    # -------------------------------------------------------------- snapshots
    def snapshot(self):
        I = self.I
        memo = {}
        heap = {k: _cp(v, memo) for k, v in I.heap.items()}
        cattrs = {q: dict(c.attrs) for q, c in I.classes.items()}
        mcache = {k: _cp(v, memo) for k, v in I.module_cache.items() if isinstance(v, (dict, list))}
        fvars = _cp(self.frame.vars, memo)
        # containers in the defining frames of closures that were installed on classes (a getter that keeps a dictionary of
        # what it handed out in the frame of the function that defined it) are state too
        self._cframes = getattr(self, "_cframes", {})
        for c in I.classes.values():
            for v in c.attrs.values():
                for fn in ((v.fget, v.fset) if isinstance(v, PropertyVal) else (v,)):
                    fn = getattr(fn, "fn", fn)
                    f = getattr(fn, "frame", None) if isinstance(fn, Closure) else None
                    while f is not None and f is not self.frame:
                        self._cframes[id(f)] = f
                        f = f.parent
        cfr = {k: {n: _cp(x, memo) for n, x in f.vars.items() if isinstance(x, (dict, list))} for k, f in self._cframes.items()}
        return heap, cattrs, mcache, fvars, cfr

    def restore(self, snap):
        I = self.I
        heap, cattrs, mcache, fvars, cfr = snap
        memo = {}
        for k, f in getattr(self, "_cframes", {}).items():
            if k in cfr:
                f.vars.update({n: _cp(x, memo) for n, x in cfr[k].items()})
            else:
                # a frame first seen after this snapshot was taken: its containers were empty or did not exist then
                for n, x in list(f.vars.items()):
                    if isinstance(x, dict):
                        f.vars[n] = {}
                    elif isinstance(x, list):
                        f.vars[n] = []
        I.heap = {k: _cp(v, memo) for k, v in heap.items()}
        for q, a in cattrs.items():
            I.classes[q].attrs = dict(a)
        for k, v in mcache.items():
            I.module_cache[k] = _cp(v, memo)
        # module-level values evaluated after the snapshot was taken (e.g. `_DEFAULT = Record()` of a loader module)
        # refer to heap objects the restored state does not have: forget them, they are evaluated again on demand
        def dangling(v, depth=0):
            if isinstance(v, SymObj):
                return v.id not in I.heap
            if depth < 3 and isinstance(v, (list, tuple)):
                return any(dangling(x, depth + 1) for x in v)
            if depth < 3 and isinstance(v, dict):
                return any(dangling(x, depth + 1) for x in v.values())
            return False
        for k in [k for k, v in I.module_cache.items() if k not in mcache and dangling(v)]:
            del I.module_cache[k]
        self.frame.vars = _cp(fvars, memo)

    # ------------------------------------------------------------------ atoms
    def atoms(self, table):
        I = self.I
        g = lambda s: I.heap[table.id].get(s)
        out = {}
        Fe, H, He, Cu, Lu = g("Fe"), g("H"), g("He"), g("Cu"), g("Lu")
        iso = lambda el, A: I.heap[el.id]["_isotopes"].get(A)
        ion = lambda a, c: I.lib.subscript(I, I.heap[a.id]["ion"], sp.Integer(c))
        out["Fe"] = Fe
        out["Fe[56]"] = iso(Fe, 56)
        out["Fe.ion[2]"] = ion(Fe, 2)
        out["Fe[56].ion[2]"] = ion(iso(Fe, 56), 2)
        out["H"] = H
        out["H[1]"] = iso(H, 1)
        out["D"] = iso(H, 2)
        out["He"] = He
        out["He[4]"] = iso(He, 4)
        out["Cu"] = Cu
        out["Lu[176]"] = iso(Lu, 176)
        out["Be"] = g("Be")
        # hydrogen isotopes carry their own symbols: what is looked up by symbol differs between H{+} and D{+}
        out["H.ion[1]"] = ion(H, 1)
        if out["D"] is not None:
            out["D.ion[1]"] = ion(out["D"], 1)
        return {k: v for k, v in out.items() if v is not None}

    # ----------------------------------------------------------------- digest
    def digest(self, v, depth=0):
        I = self.I
        if depth > 4:
            return "..."
        if isinstance(v, SymObj):
            if v.cls is not None and v.cls.name in ("Element", "Isotope", "Ion", "PeriodicTable"):
                if depth and v.cls.name != "PeriodicTable":
                    # the atom a served object refers to: its calculators look data up by that atom's symbol and charge
                    try:
                        return f"<atom {I.getattr(v, 'symbol')} {I.getattr(v, 'charge')}>"
                    except SymRaise:
                        pass
                return f"<{v.cls.name}>"
            d = I.heap[v.id]
            cls_d = {}
            if v.cls is not None:
                cls_d = {k: x for k, x in v.cls.attrs.items() if not isinstance(x, (Closure, PropertyVal, tuple)) and not k.startswith("__")
                         and not isinstance(x, str)}
            merged = dict(cls_d)
            merged.update(d)
            return (v.cls.name if v.cls else "obj",) + tuple(sorted((k, self.digest(x, depth + 1)) for k, x in merged.items()))
        if isinstance(v, dict):
            return tuple(sorted((str(k), self.digest(x, depth + 1)) for k, x in v.items()))
        if isinstance(v, (list, tuple)):
            return tuple(self.digest(x, depth + 1) for x in v)
        if isinstance(v, Vec):
            return ("vec",) + tuple(self.digest(x, depth + 1) for x in v.items)
        if isinstance(v, (Closure, BoundMethod, Builtin, PropertyVal)):
            return "<callable>"
        return str(v)

    def read(self, atom, name):
        """Outcome of ``atom.name``: ('value', digest) or ('AttributeError',)"""
        try:
            v = self.I.getattr(atom, name)
        except SymRaise as e:
            if e.exc == "AttributeError":
                return ("AttributeError",)
            return ("raises " + e.exc,)
        return ("value", self.digest(v))

    def state_key(self, tables):
        I = self.I
        parts = []
        for cq in ("core.Element", "core.Isotope", "core.Ion"):
            c = I.classes[cq]
            for k in sorted(c.attrs):
                v = c.attrs[k]
                if isinstance(v, PropertyVal):
                    g = v.fget
                    if isinstance(g, Closure):
                        tag = "prop:" + g.qual + ":" + str(id(g.frame))
                    elif isinstance(g, BoundMethod):
                        tag = "prop:" + getattr(g.fn, "qual", "?") + ":" + str(getattr(g.selfval, "id", id(g.selfval)))
                    elif isinstance(g, SymObj):
                        tag = "prop:obj:" + str(g.id)
                    else:
                        tag = "prop:?" + str(id(g))
                elif isinstance(v, (Closure, tuple)):
                    continue
                else:
                    tag = "val:" + str(self.digest(v))
                parts.append(f"{cq}.{k}={tag}")
        for t in tables:
            parts.append("props=" + ",".join(map(str, I.heap[t.id].get("properties", []))))
            for an, a in self.atoms(t).items():
                d = I.heap[a.id]
                parts.append(an + ":" + ",".join(f"{k}={self.digest(v)}" for k, v in sorted(d.items())
                                                   if k not in ("element", "ion", "_isotopes", "ions", "name", "symbol", "number", "table", "isotope", "charge")))
        return hashlib.sha1("|".join(parts).encode()).hexdigest()

    # ----------------------------------------------------------------- tables
    def new_private(self, name):
        I = self.I
        PT = I.get_class("core.PeriodicTable")
        T = I.instantiate(PT, [name], {}, name=name, open_attrs=())
        I.call(I.global_name("mass", "init"), [T], {})
        I.call(I.global_name("density", "init"), [T], {})
        return T

    def init_call(self, group, table):
        mod, fn = GROUP_INIT[group]
        return lambda: self.I.call(self.I.global_name(mod, fn), [table], {})


class Explorer:
    """Breadth-first closure over first-touch histories for one lazy group."""

    def __init__(self, lw: LazyWorld, reg: Registration, private=0, max_states=4000):
        self.lw, self.reg, self.nprivate, self.max_states = lw, reg, private, max_states
        self.I = lw.I
        self.states = 0
        self.transitions = 0
        self.failures = []          # (history kinds, history labels, message, cause)
        self.samples = []

    def pending(self):
        """Is the group's delayed-load property still installed on one of the atom classes?"""
        for cq in ("core.Element", "core.Isotope", "core.Ion"):
            v = self.I.classes[cq].attrs.get(self.reg.names[0])
            if isinstance(v, PropertyVal) and v is self.lw.delayed_props.get((cq, self.reg.names[0])):
                return True
        return False

    def accessor_functions(self):
        """Module-level functions of the package with one required parameter that read an attribute of this group from it
        (directly, or by naming it in a string: getattr / vars() / __dict__) - other than the loaders themselves."""
        import ast as _ast
        out = []
        names = set(self.reg.names)
        loaders = {f"{m}.{f}" for m, f in GROUP_INIT.values()}
        for q, f in self.lw.src.funcs.items():
            node = f.node
            if not isinstance(node, _ast.FunctionDef) or q.count(".") != 1 or q in loaders or q.split(".")[1].startswith("init"):
                continue
            a = node.args
            if len(a.args) - len(a.defaults) != 1 or a.vararg or a.kwonlyargs and any(d is None for d in a.kw_defaults):
                continue
            p = a.args[0].arg
            hit = False
            for n in _ast.walk(node):
                if isinstance(n, _ast.Attribute) and isinstance(n.value, _ast.Name) and n.value.id == p and n.attr in names:
                    hit = True
                if isinstance(n, _ast.Constant) and isinstance(n.value, str) and n.value in names:
                    hit = True
            if hit:
                out.append(q)
        return sorted(out)

    def call_accessor(self, fq, atom):
        lw = self.lw
        try:
            v = lw.I.call(lw.I.global_name(*fq.split(".", 1)), [atom], {})
        except SymRaise as e:
            return ("raises " + e.exc,)
        return ("value", lw.digest(v))

    def canonical(self):
        lw = self.lw
        lw.restore(self.base)
        A = lw.atoms(lw.P)
        first = A["Fe"]
        lw.read(first, self.reg.names[0])
        C = {(an, nm): lw.read(a, nm) for an, a in A.items() for nm in self.reg.names}
        self.canon_tables = {}
        # accessor functions: their canonical results (functions the interpreter cannot follow are left out)
        self.accessors = []
        for fq in self.accessor_functions():
            nun = len(lw.I.uninterpreted)
            before = lw.state_key([lw.P] + list(getattr(self, "tables", [])))
            try:
                for an in ("Fe[56]", "Fe", "H[1]"):
                    if an in A:
                        C[("call:" + fq, an)] = self.call_accessor(fq, A[an])
                pure = len(lw.I.uninterpreted) == nun and lw.state_key([lw.P] + list(getattr(self, "tables", []))) == before
            except AnalysisError:
                pure = False
            if pure:
                self.accessors.append(fq)
            else:       # plotting helpers and the like: not followed
                for k in [k for k in C if k[0] == "call:" + fq]:
                    del C[k]
        return C

    def run(self):
        lw, I, reg = self.lw, self.I, self.reg
        lw.restore(lw.boot_snapshot)
        self.tables = [lw.new_private(f"T{k + 1}_{reg.key}") for k in range(self.nprivate)]
        self.base = lw.snapshot()
        C = self.C = self.canonical()
        lw.restore(self.base)
        all_tables = [lw.P] + self.tables
        kinds = {"Fe": "Element", "H": "Element", "He": "Element", "Cu": "Element", "Be": "Element", "Fe[56]": "Isotope", "H[1]": "Isotope",
                 "D": "Isotope", "He[4]": "Isotope", "Lu[176]": "Isotope", "Fe.ion[2]": "Ion", "Fe[56].ion[2]": "IsotopeIon",
                 "H.ion[1]": "Ion", "D.ion[1]": "IsotopeIon"}
        # events: (label, kind, thunk)
        def events():
            A = lw.atoms(lw.P)
            ev = []
            # per-atom caches (the Xray object behind .xray) multiply the state space: fewer atoms for that group
            names_ = (("Fe", "Fe.ion[2]", "Fe[56].ion[2]", "He") + (() if self.nprivate else ("H.ion[1]", "D.ion[1]"))) if reg.key == "xray" else \
                ("Fe", "Fe[56]", "Fe.ion[2]", "Fe[56].ion[2]", "He", "H[1]", "Cu", "Be", "Lu[176]")
            for an in names_:
                if an not in A:
                    continue
                for nm in reg.names:
                    ev.append((f"read {an}.{nm}", "read:" + kinds[an], ("read", an, nm)))
            for fq in getattr(self, "accessors", []):
                for an in ("Fe[56]", "Fe", "H[1]"):
                    if ("call:" + fq, an) in self.C:
                        ev.append((f"{fq}({an})", "call:" + fq.split(".")[1], ("call", fq, an)))
            ev.append((f"{GROUP_INIT[reg.key][0]}.{GROUP_INIT[reg.key][1]}(elements)", "init_public", ("init", 0)))
            for k, T in enumerate(self.tables):
                ev.append((f"{GROUP_INIT[reg.key][0]}.{GROUP_INIT[reg.key][1]}(T{k + 1})", "init_private", ("init", k + 1)))
            return ev
        seen = {lw.state_key(all_tables): None}
        queue = [(self.base, [], [], False)]      # snapshot, labels, kinds, private_first
        while queue:
            snap, labels, hk, pfirst = queue.pop(0)
            self.states += 1
            if self.states > self.max_states:
                raise AnalysisError(f"state space of group {reg.key} exceeds {self.max_states} states")
            lw.restore(snap)
            evs = events()
            for label, kind, what in evs:
                lw.restore(snap)
                self.transitions += 1
                pf = pfirst
                outcome = None
                try:
                    if what[0] == "read":
                        A = lw.atoms(lw.P)
                        outcome = lw.read(A[what[1]], what[2])
                    elif what[0] == "call":
                        A = lw.atoms(lw.P)
                        outcome = self.call_accessor(what[1], A[what[2]])
                    else:
                        if what[1] > 0 and self.pending():
                            pf = True
                        lw.init_call(reg.key, all_tables[what[1]])()
                except SymRaise as e:
                    outcome = ("raises " + e.exc,)
                    if what[0] != "read":
                        self.failures.append((hk + [kind], labels + [label], f"{label} raises {e.exc}: {e.msg}", "private-first" if pf else None))
                        continue
                if what[0] in ("read", "call"):
                    want = C[(what[1], what[2])] if what[0] == "read" else C[("call:" + what[1], what[2])]
                    if outcome != want:
                        self.failures.append((hk + [kind], labels + [label],
                                              f"{label} serves {_short(outcome)} but the canonical order serves {_short(want)}",
                                              "private-first" if pf else None))
                key = lw.state_key(all_tables)
                if key not in seen:
                    seen[key] = labels + [label]
                    queue.append((lw.snapshot(), labels + [label], hk + [kind], pf))
                    if len(self.samples) < 6:
                        self.samples.append(labels + [label])
        # final: every private table that was initialised serves the canonical values (checked on the terminal states is
        # equivalent to checking after a single init on top of any state; done by the rule on demand)
        return self

    def private_serves_canonical(self, public_first=True):
        """After init(T) on a fresh private table (public already loaded, or - public_first=False - before the public
        group was ever touched), T's atoms serve the canonical values."""
        lw, reg = self.lw, self.reg
        out = []
        if not self.tables:
            return out
        lw.restore(self.base)
        A = lw.atoms(lw.P)
        if public_first:
            lw.read(A["Fe"], reg.names[0])
        T = self.tables[0]
        try:
            lw.init_call(reg.key, T)()
        except SymRaise as e:
            return [("init", f"raises {e.exc}")]
        AT = lw.atoms(T)
        for an, a in AT.items():
            for nm in reg.names:
                got = lw.read(a, nm)
                want = self.C.get((an, nm))
                if want is not None and got != want:
                    out.append((f"{an}.{nm}", f"private table serves {_short(got)}, public serves {_short(want)}"))
        return out

    def stable_across_later_init(self):
        """Objects served for the atoms of the public table and of an initialised private table T1 are still the same objects
        after a later table T2 is created and initialised (only objects that are stable between two plain reads count: a
        getter that builds a new value on every access keeps nothing a later init could lose)."""
        lw, reg, I = self.lw, self.reg, self.I
        if not self.tables:
            return []
        lw.restore(self.base)
        A = lw.atoms(lw.P)
        lw.read(A["Fe"], reg.names[0])
        T1 = self.tables[0]
        try:
            lw.init_call(reg.key, T1)()
        except SymRaise:
            return []
        holders = {"elements": A, "T1": lw.atoms(T1)}
        held = {}
        for tn, AT in holders.items():
            for an, a in AT.items():
                for nm in reg.names:
                    try:
                        v = I.getattr(a, nm)
                        again = I.getattr(a, nm)
                    except (SymRaise, AnalysisError):
                        continue
                    # (objects only: the abstract heap copies plain containers when it merges states, so their identity
                    #  says nothing; an object's handle is stable)
                    if isinstance(v, SymObj) and again is v \
                            and not (v.cls is not None and v.cls.name in ("Element", "Isotope", "Ion", "PeriodicTable")):
                        # served from a class-level default (one object for every data-less atom) or the atom's own object?
                        dflt = any(I.classes[cq].attrs.get(nm) is v for cq in ("core.Element", "core.Isotope", "core.Ion") if cq in I.classes)
                        held[(tn, an, nm)] = (v, dflt)
        T2 = lw.new_private(f"T_later_{reg.key}")
        try:
            lw.init_call(reg.key, T2)()
        except SymRaise as e:
            return [("init", "later table", f"raises {e.exc}")]
        out = []
        for (tn, an, nm), (v, dflt) in held.items():
            try:
                v2 = I.getattr(holders[tn][an], nm)
            except SymRaise as e:
                out.append((tn, an, nm, f"raises {e.exc}", dflt))
                continue
            if v2 is not v:
                out.append((tn, an, nm, "a different object", dflt))
        self.held_objects = len(held)
        return out

    def shared_mutables(self):
        """Mutable objects reachable from the data of both the public and a private table (after both are loaded)."""
        lw, reg, I = self.lw, self.reg, self.I
        if not self.tables:
            return []
        lw.restore(self.base)
        A = lw.atoms(lw.P)
        lw.read(A["Fe"], reg.names[0])
        T = self.tables[0]
        lw.init_call(reg.key, T)()
        AT = lw.atoms(T)

        def reach(v, acc, depth=0):
            if depth > 4:
                return
            if isinstance(v, SymObj):
                if v.cls is not None and v.cls.name in ("Element", "Isotope", "Ion", "PeriodicTable", "IonSet"):
                    return
                if id(v) in acc:
                    return
                acc[id(v)] = v
                for x in I.heap[v.id].values():
                    reach(x, acc, depth + 1)
            elif isinstance(v, (dict, list, Vec)):
                if id(v) in acc:
                    return
                if isinstance(v, Vec) and getattr(v, "readonly", False):
                    return          # an array marked read-only cannot be edited through either table
                acc[id(v)] = v
                for x in (v.values() if isinstance(v, dict) else v):
                    reach(x, acc, depth + 1)
            elif isinstance(v, tuple):
                for x in v:
                    reach(x, acc, depth + 1)
        shared = []
        for an in A:
            if an not in AT:
                continue
            for nm in reg.names:
                ra, rb = {}, {}
                try:
                    va, vb = I.getattr(A[an], nm), I.getattr(AT[an], nm)
                except SymRaise:
                    continue
                if nm == "xray":
                    # the table behind the Xray object is data served to the user as well
                    for xo in (va, vb):
                        try:
                            I.getattr(xo, "sftable")
                        except (SymRaise, AnalysisError):
                            pass
                reach(va, ra)
                reach(vb, rb)
                for k in set(ra) & set(rb):
                    shared.append((an, nm, _short(lw.digest(ra[k]), 80), ra[k]))
        return shared


def _short(v, n=140):
    s = str(v)
    return s if len(s) <= n else s[:n] + "..."
