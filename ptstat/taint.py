"""Tiny flow-insensitive taint pass: which local names depend on a seed name."""
from __future__ import annotations

import ast


def names_in(node):
    return {n.id for n in ast.walk(node) if isinstance(n, ast.Name)}


def tainted_names(fnode, seeds):
    """Fixpoint of: target tainted if its value mentions a tainted name."""
    t = set(seeds)
    changed = True
    body = fnode.body if isinstance(fnode.body, list) else [fnode.body]
    while changed:
        changed = False
        for st in body:
            for node in ast.walk(st):
                tgts, val = [], None
                if isinstance(node, ast.Assign):
                    tgts, val = node.targets, node.value
                elif isinstance(node, ast.AugAssign):
                    tgts, val = [node.target], node.value
                elif isinstance(node, (ast.For, ast.comprehension)):
                    tgts, val = [node.target], node.iter
                if val is not None and names_in(val) & t:
                    for tg in tgts:
                        for n in names_in(tg):
                            if n not in t:
                                t.add(n)
                                changed = True
    return t


REDUCTIONS = {"sum", "mean", "max", "min", "prod", "dot", "trapz", "cumsum", "average", "any", "all",
              "argmax", "argmin", "std", "var", "median", "sort", "argsort", "reshape", "flatten", "ravel"}


def reductions_over(fnode, tainted, allow=()):
    """Calls of a reducing function / method, or integer indexing, applied to a tainted value."""
    out = []
    body = fnode.body if isinstance(fnode.body, list) else [fnode.body]
    for st in body:
        for node in ast.walk(st):
            if isinstance(node, ast.Call):
                fn = node.func
                nm = fn.id if isinstance(fn, ast.Name) else fn.attr if isinstance(fn, ast.Attribute) else None
                if nm in REDUCTIONS and nm not in allow:
                    args = list(node.args) + [k.value for k in node.keywords]
                    recv = [fn.value] if isinstance(fn, ast.Attribute) else []
                    if any(names_in(a) & tainted for a in args + recv):
                        out.append(node)
            elif isinstance(node, ast.Subscript) and isinstance(node.ctx, ast.Load):
                if names_in(node.value) & tainted and isinstance(node.value, ast.Name):
                    sl = node.slice
                    if isinstance(sl, ast.Constant) and isinstance(sl.value, int):
                        out.append(node)
    return out


NOCOPY = {"asarray", "asanyarray", "ravel", "reshape", "squeeze", "view", "atleast_1d", "transpose"}
INPLACE_METHODS = {"sort", "fill", "resize", "put", "itemset", "partition", "clip"}


ARRAY_PARAMS = {"wavelength", "energy", "Q", "q", "stol", "weights", "velocity", "angle"}


def returned_alias_param(fnode):
    """index of the parameter that every return statement of fnode hands back (as it is, or through asarray / reshape /
    ...), or None: such a helper returns the caller's own array"""
    params = [a.arg for a in fnode.args.args]
    found = set()
    rets = [n for n in ast.walk(fnode) if isinstance(n, ast.Return)]
    if not rets:
        return None
    for r in rets:
        v = r.value
        name = None
        if isinstance(v, ast.Name):
            name = v.id
        elif isinstance(v, ast.Call):
            fn = v.func
            nm = fn.attr if isinstance(fn, ast.Attribute) else fn.id if isinstance(fn, ast.Name) else None
            if nm in NOCOPY:
                if v.args and isinstance(v.args[0], ast.Name):
                    name = v.args[0].id
                elif isinstance(fn, ast.Attribute) and isinstance(fn.value, ast.Name):
                    name = fn.value.id
        if name not in params:
            return None
        found.add(name)
    return params.index(found.pop()) if len(found) == 1 else None


def mutated_params(fnode, module_funcs=None, _depth=0):
    """names of the parameters of fnode that the function updates in place or retains (whatever they are called)"""
    out = set()
    for a in fnode.args.args + fnode.args.kwonlyargs:
        if a.arg in ("self", "cls"):
            continue
        if caller_array_hazards(fnode, array_params={a.arg}, module_funcs=module_funcs, _depth=_depth + 1):
            out.add(a.arg)
    return out


def caller_array_hazards(fnode, array_params=ARRAY_PARAMS, module_funcs=None, _depth=0):
    """In-place updates of, and retained references to, values that alias a parameter.

    alias = a parameter, or a name bound (only) to numpy.asarray(alias) / alias.reshape(...) / a plain copy of the
    name - operations that return the caller's own array when it already has the right type."""
    params = {a.arg for a in fnode.args.args + fnode.args.kwonlyargs if a.arg in array_params}
    alias = set(params)
    body = fnode.body if isinstance(fnode.body, list) else [fnode.body]
    rebinds = {}
    for st in body:
        for node in ast.walk(st):
            if isinstance(node, ast.Assign):
                for t in node.targets:
                    if isinstance(t, ast.Name):
                        rebinds.setdefault(t.id, []).append(node.value)
    changed = True
    while changed:
        changed = False
        for name, values in rebinds.items():
            if name in alias and name not in params:
                continue
            ok = []
            for v in values:
                src = None
                if isinstance(v, ast.Name):
                    src = v.id
                elif isinstance(v, ast.Call):
                    fn = v.func
                    nm = fn.attr if isinstance(fn, ast.Attribute) else fn.id if isinstance(fn, ast.Name) else None
                    if nm in NOCOPY:
                        if v.args and isinstance(v.args[0], ast.Name):
                            src = v.args[0].id
                        elif isinstance(fn, ast.Attribute) and isinstance(fn.value, ast.Name):
                            src = fn.value.id
                    elif module_funcs and isinstance(fn, ast.Name) and fn.id in module_funcs:
                        k_ = returned_alias_param(module_funcs[fn.id])
                        if k_ is not None and k_ < len(v.args) and isinstance(v.args[k_], ast.Name):
                            src = v.args[k_].id
                ok.append(src in alias and src is not None)
            if values and all(ok) and name not in alias:
                alias.add(name)
                changed = True
            if name in params and values and not all(ok):
                # a parameter rebound to a fresh value is no longer the caller's object after that point; conservatively
                # keep it only if every rebinding is itself an alias
                pass
    # a parameter is no longer the caller's object only after an *unconditional* rebinding to a fresh value (a statement of the
    # function body itself, not one under if/for/while/try/with): on the other paths of a conditional rebinding it still is
    def is_alias_value(v):
        if isinstance(v, ast.Name):
            return v.id in alias
        if isinstance(v, ast.Call):
            fn = v.func
            nm = fn.attr if isinstance(fn, ast.Attribute) else fn.id if isinstance(fn, ast.Name) else None
            if nm in NOCOPY:
                if v.args and isinstance(v.args[0], ast.Name):
                    return v.args[0].id in alias
                if isinstance(fn, ast.Attribute) and isinstance(fn.value, ast.Name):
                    return fn.value.id in alias
            if module_funcs and isinstance(fn, ast.Name) and fn.id in module_funcs:
                k_ = returned_alias_param(module_funcs[fn.id])
                if k_ is not None and k_ < len(v.args) and isinstance(v.args[k_], ast.Name):
                    return v.args[k_].id in alias
        return False
    fresh_from = {}
    for i_, st in enumerate(body):
        if isinstance(st, ast.Assign) and not is_alias_value(st.value):
            for t in st.targets:
                if isinstance(t, ast.Name) and t.id in params and t.id not in fresh_from:
                    fresh_from[t.id] = st.lineno
    class _Fresh:
        def __init__(self, line=None):
            self.line = line
        def __contains__(self, name):
            return name in fresh_from and (self.line is None or self.line > fresh_from[name])
    rebound_fresh = _Fresh()
    hazards = []
    global_names = {n_ for st_ in ast.walk(fnode) if isinstance(st_, (ast.Global, ast.Nonlocal)) for n_ in st_.names}
    for st in body:
        for node in ast.walk(st):
            rebound_fresh = _Fresh(getattr(node, 'lineno', None))
            if isinstance(node, ast.AugAssign):
                t = node.target
                base = t.id if isinstance(t, ast.Name) else t.value.id if isinstance(t, ast.Subscript) and isinstance(t.value, ast.Name) else None
                if base in alias and base not in rebound_fresh:
                    hazards.append(("in-place update of a caller-supplied array", node))
            elif isinstance(node, ast.Assign):
                for t in node.targets:
                    if isinstance(t, ast.Name) and t.id in global_names:
                        vals = node.value.elts if isinstance(node.value, (ast.Tuple, ast.List)) else [node.value]
                        for v in vals:
                            if isinstance(v, ast.Name) and v.id in alias and v.id not in rebound_fresh:
                                hazards.append(("a caller-supplied array is retained by reference in a module-level name", node))
                    if isinstance(t, ast.Subscript) and isinstance(t.value, ast.Name) and t.value.id in alias and t.value.id not in rebound_fresh:
                        hazards.append(("element assignment into a caller-supplied array", node))
                    if isinstance(t, ast.Attribute) or (isinstance(t, ast.Subscript) and not (isinstance(t.value, ast.Name) and t.value.id in alias)):
                        vals = node.value.elts if isinstance(node.value, (ast.Tuple, ast.List)) else [node.value]
                        for v in vals:
                            if isinstance(v, ast.Name) and v.id in alias and v.id not in rebound_fresh and isinstance(t, ast.Attribute):
                                # a constructor filling in the object it is creating retains nothing beyond that object's
                                # life; an attribute store anywhere else lands on something that existed before the call
                                in_ctor = getattr(fnode, "name", "") in ("__init__", "__new__") and isinstance(t.value, ast.Name) \
                                    and fnode.args.args and t.value.id == fnode.args.args[0].arg
                                if not in_ctor:
                                    hazards.append(("a caller-supplied array is retained by reference", node))
            elif isinstance(node, ast.Call) and isinstance(node.func, ast.Attribute) and node.func.attr in INPLACE_METHODS \
                    and isinstance(node.func.value, ast.Name) and node.func.value.id in alias and node.func.value.id not in rebound_fresh:
                hazards.append(("in-place method on a caller-supplied array", node))
            if isinstance(node, ast.Call):
                # numpy's out= writes the result into the array given
                for kw in node.keywords:
                    if kw.arg == "out":
                        vals = kw.value.elts if isinstance(kw.value, (ast.Tuple, ast.List)) else [kw.value]
                        for v in vals:
                            if isinstance(v, ast.Name) and v.id in alias and v.id not in rebound_fresh:
                                hazards.append(("a caller-supplied array is used as out= of an array operation", node))
                # handed on to a helper of the same module that updates or retains that argument
                callee = None
                if module_funcs and _depth < 3:
                    if isinstance(node.func, ast.Name):
                        callee = module_funcs.get(node.func.id)
                    elif isinstance(node.func, ast.Attribute) and isinstance(node.func.value, ast.Name) and node.func.value.id in ("self", "cls"):
                        callee = module_funcs.get(node.func.attr)
                if callee is not None and callee is not fnode:
                    cparams = [a.arg for a in callee.args.args]
                    if cparams and cparams[0] in ("self", "cls") and isinstance(node.func, ast.Attribute):
                        cparams = cparams[1:]
                    passed = {}
                    def root_name(a_):
                        # the alias an argument expression stands for: a name, or asarray(name) / name.reshape(...) of one
                        if isinstance(a_, ast.Name):
                            return a_.id
                        if isinstance(a_, ast.Call):
                            fn_ = a_.func
                            nm_ = fn_.attr if isinstance(fn_, ast.Attribute) else fn_.id if isinstance(fn_, ast.Name) else None
                            if nm_ in NOCOPY:
                                if a_.args and isinstance(a_.args[0], ast.Name):
                                    return a_.args[0].id
                                if isinstance(fn_, ast.Attribute) and isinstance(fn_.value, ast.Name):
                                    return fn_.value.id
                        return None
                    for i_, a_ in enumerate(node.args):
                        if root_name(a_) is not None and i_ < len(cparams):
                            passed[cparams[i_]] = root_name(a_)
                    for kw in node.keywords:
                        if kw.arg and root_name(kw.value) is not None:
                            passed[kw.arg] = root_name(kw.value)
                    hot = {p_: n_ for p_, n_ in passed.items() if n_ in alias and n_ not in rebound_fresh}
                    if hot:
                        bad = mutated_params(callee, module_funcs, _depth) & set(hot)
                        if bad:
                            hazards.append((f"a caller-supplied array is handed to {getattr(callee, 'name', '?')}(), which updates or keeps its argument {sorted(bad)[0]!r}", node))
    return hazards
