"""Tiny flow-insensitive taint pass: which local names depend on a seed name."""
from __future__ import annotations

import ast


def names_in(node):
    return {n.id for n in ast.walk(node) if isinstance(n, ast.Name)}


def tainted_names(fnode, seeds):
    """Fixpoint of: target tainted if its value mentions a tainted name."""
    t = set(seeds)
    changed = True
    body = fnode.body if isinstance(fnode.body, list) else [fnode.body]
    while changed:
        changed = False
        for st in body:
            for node in ast.walk(st):
                tgts, val = [], None
                if isinstance(node, ast.Assign):
                    tgts, val = node.targets, node.value
                elif isinstance(node, ast.AugAssign):
                    tgts, val = [node.target], node.value
                elif isinstance(node, (ast.For, ast.comprehension)):
                    tgts, val = [node.target], node.iter
                if val is not None and names_in(val) & t:
                    for tg in tgts:
                        for n in names_in(tg):
                            if n not in t:
                                t.add(n)
                                changed = True
    return t


REDUCTIONS = {"sum", "mean", "max", "min", "prod", "dot", "trapz", "cumsum", "average", "any", "all",
              "argmax", "argmin", "std", "var", "median", "sort", "argsort", "reshape", "flatten", "ravel"}


def reductions_over(fnode, tainted, allow=()):
    """Calls of a reducing function / method, or integer indexing, applied to a tainted value."""
    out = []
    body = fnode.body if isinstance(fnode.body, list) else [fnode.body]
    for st in body:
        for node in ast.walk(st):
            if isinstance(node, ast.Call):
                fn = node.func
                nm = fn.id if isinstance(fn, ast.Name) else fn.attr if isinstance(fn, ast.Attribute) else None
                if nm in REDUCTIONS and nm not in allow:
                    args = list(node.args) + [k.value for k in node.keywords]
                    recv = [fn.value] if isinstance(fn, ast.Attribute) else []
                    if any(names_in(a) & tainted for a in args + recv):
                        out.append(node)
            elif isinstance(node, ast.Subscript) and isinstance(node.ctx, ast.Load):
                if names_in(node.value) & tainted and isinstance(node.value, ast.Name):
                    sl = node.slice
                    if isinstance(sl, ast.Constant) and isinstance(sl.value, int):
                        out.append(node)
    return out
