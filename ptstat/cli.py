"""./check <ID> quick|thorough [--root DIR] [--replay FILE]"""
from __future__ import annotations

import argparse
import importlib
import json
import os
import sys
from pathlib import Path

VERIF = Path(__file__).resolve().parent.parent
sys.path.insert(0, str(VERIF))

from ptstat.report import run_property  # noqa: E402


def main(argv=None):
    ap = argparse.ArgumentParser(prog="check")
    ap.add_argument("prop")
    ap.add_argument("tier", nargs="?", default=os.environ.get("VERIF_TIER", "quick"),
                    choices=["quick", "thorough"])
    ap.add_argument("--root", default=os.environ.get("PTSTAT_ROOT", "/repo"))
    ap.add_argument("--replay")
    ap.add_argument("--no-evidence", action="store_true")
    ap.add_argument("--no-selftest", action="store_true")
    a = ap.parse_args(argv)
    prop = a.prop.upper()
    sys.setrecursionlimit(20000)
    # guard rails: an analysis that explodes must end as ANALYSIS-ERROR, not take the machine down
    import resource, signal
    try:
        resource.setrlimit(resource.RLIMIT_AS, (12 << 30, 12 << 30))
    except (ValueError, OSError):
        pass
    budget = int(os.environ.get("PTSTAT_TIMEOUT", "240" if a.tier == "quick" else "3000"))

    def _timeout(signum, frame):
        print(f"ANALYSIS-ERROR property={prop} analysis exceeded its time budget of {budget}s", flush=True)
        os._exit(2)
    signal.signal(signal.SIGALRM, _timeout)
    signal.alarm(budget)
    try:
        mod = importlib.import_module(f"rules.{prop}")
    except ModuleNotFoundError as exc:
        print(f"ANALYSIS-ERROR property={prop} no rule set: {exc}")
        return 2
    only = None
    if a.replay:
        rec = json.loads(Path(a.replay).read_text())
        only = (rec["rule"], rec["key"])
    if a.no_selftest:
        os.environ["PTSTAT_NO_SELFTEST"] = "1"
    return run_property(prop, a.tier, mod.run, mod.EXPLANATION, a.root, only=only,
                        write_evidence=not (a.no_evidence or a.replay or a.root != "/repo"))


if __name__ == "__main__":
    sys.exit(main())
