"""ptstat - static analysis kernels for pkienzle/periodictable (see /verif/DESIGN.md)."""


class AnalysisError(Exception):
    """An anchored construct vanished or uses a form the kernel does not model.

    Reported as ``ANALYSIS-ERROR`` with exit status 2 - never as a violation
    and never as a silent pass.
    """
